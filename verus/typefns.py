"""V-typefns: builtins::type_functions::{str_len, any_type, render_type} and fns::{assert_this, assert_str,
assert_args} (C15: `->len()` is the UTF-8 byte length, i.e. the length that indexing, range-indexing
and `for` use; C16: `->type()` returns the documented type name; type functions take no argument and
need a receiver).

Copied verbatim from /repo/src/builtins/type_functions.rs and src/builtins/fns.rs."""
import re

import extract
import parts
import print_render as pr_unit
from verus_engine import Built, assemble
from common import Undecided

NAME = "typefns"
RLIMIT = 100

MODEL = r"""
global size_of usize == 8;   // 64-bit target
// ---- std::fmt / String (ASSUMED contracts)
pub uninterp spec fn shown_usize(n: usize) -> Seq<char>;
pub uninterp spec fn shown_utf8_error(e: FromUtf8Error) -> Seq<char>;
pub trait Disp { spec fn shown(&self) -> Seq<char>; }
impl Disp for usize { open spec fn shown(&self) -> Seq<char> { shown_usize(*self) } }
impl Disp for String { open spec fn shown(&self) -> Seq<char> { self@ } }
impl Disp for &str { open spec fn shown(&self) -> Seq<char> { self@ } }
impl Disp for FromUtf8Error { open spec fn shown(&self) -> Seq<char> { shown_utf8_error(*self) } }
impl<T: Disp> Disp for &T { open spec fn shown(&self) -> Seq<char> { (**self).shown() } }
#[verifier::external_body]
pub fn fmt_lit(s: &str) -> (r: String) ensures r@ == s@ { unimplemented!() }
#[verifier::external_body]
pub fn fmt_disp<T: Disp>(x: &T) -> (r: String) ensures r@ == x.shown() { unimplemented!() }
#[verifier::external_body]
pub fn fmt_cat(a: String, b: String) -> (r: String) ensures r@ == a@ + b@ { unimplemented!() }
#[verifier::external_body]
pub fn str_to_string(s: &str) -> (r: String) ensures r@ == s@ { unimplemented!() }
// UTF-8 (ASSUMED): String::from_utf8 succeeds exactly on valid UTF-8 and the String then HAS those bytes;
// String::len is the number of bytes, chars().count() the number of characters
pub uninterp spec fn utf8_decode(b: Seq<u8>) -> Option<Seq<char>>;
pub uninterp spec fn string_bytes(s: Seq<char>) -> Seq<u8>;
#[verifier::external_body]
pub fn string_from_utf8(v: Vec<u8>) -> (r: std::result::Result<String, FromUtf8Error>)
    ensures (match r { Ok(p) => utf8_decode(v@) == Some(p@) && string_bytes(p@) == v@, Err(_) => utf8_decode(v@) is None })
{ unimplemented!() }
#[verifier::external_body]
pub fn string_len(s: &String) -> (r: usize) ensures r == string_bytes(s@).len() { unimplemented!() }
#[verifier::external_body]
pub fn string_chars_count(s: &String) -> (r: usize) ensures r == s@.len() { unimplemented!() }

pub open spec fn type_name(v: Value) -> Seq<char> {
    match v {
        Value::Null => "null"@,
        Value::Bool(_) => "bool"@,
        Value::Int(_) => "int"@,
        Value::Str(_) => "string"@,
        Value::List(_) => "list"@,
        Value::Object(_) => "object"@,
        Value::BuiltinFunc{..} => "func"@,
        Value::Func(_) => "func"@,
    }
}
"""

SPEC_STR_LEN = r"""
    ensures
        r matches Ok(x) ==> vs@.len() == 0 && (this matches Some(t) && (t.v matches Value::Str(raw)
            && x == (SourcedValue{v: Value::Int(raw@.len() as i64), source: None}) && raw@.len() <= i64::MAX)), // [C11_C15:len_is_the_number_of_bytes_that_indexing_range_indexing_and_for_use]
        (vs@.len() == 0 && (this matches Some(t) && (t.v matches Value::Str(raw) && utf8_decode(raw@) is Some && raw@.len() <= i64::MAX))) ==> r is Ok, // [C15:len_is_defined_for_every_valid_utf8_string]
"""
SPEC_ANY_TYPE = r"""
    ensures
        r matches Ok(x) ==> vs@.len() == 0 && (this matches Some(t) && x.source is None
            && (x.v matches Value::Str(bs) && bs@ == string_bytes(type_name(t.v)))), // [C16:type_returns_the_documented_type_name_of_its_receiver]
        (vs@.len() == 0 && this is Some) ==> r is Ok, // [C16:type_is_defined_for_every_value]
"""
SPEC_RENDER_TYPE = r"""
    ensures r@ == type_name(*v), // [C16:type_names_are_the_documented_ones]
"""
SPEC_ASSERT_ARGS = r"""
    ensures r is Ok <==> args@.len() == exp_args, // [C16:type_functions_take_no_argument]
"""
SPEC_ASSERT_THIS = r"""
    ensures
        r matches Ok(v) ==> this == Some(v),
        r is Ok <==> this is Some, // [C16:type_functions_need_a_receiver]
"""
SPEC_ASSERT_STR = r"""
    ensures
        r matches Ok(s) ==> (v.v matches Value::Str(raw) && utf8_decode(raw@) == Some(s@) && string_bytes(s@) == raw@), // [C15:the_receiver_text_is_the_utf8_decoding_of_its_bytes]
        (v.v matches Value::Str(raw) && utf8_decode(raw@) is Some) ==> r is Ok,
"""


def to_string_rewrites(t):
    t, n1 = re.subn(r"(\"(?:[^\"\\]|\\.)*\")\.to_string\(\)", r"str_to_string(\1)", t)
    t, n2 = re.subn(r"\b([a-z_]\w*)\.to_string\(\)", r"str_to_string(\1)", t)
    return t, n1 + n2


def build(read):
    b = Built()
    err_text, variants = parts.error_text(b, read)
    tf = "src/builtins/type_functions.rs"
    fr = "src/builtins/fns.rs"
    str_len = parts.copy_item(b, read, tf, "fn", "str_len")
    any_type = parts.copy_item(b, read, tf, "fn", "any_type")
    render_type = parts.copy_item(b, read, tf, "fn", "render_type")
    aa = parts.copy_item(b, read, fr, "fn", "assert_args")
    at = parts.copy_item(b, read, fr, "fn", "assert_this")
    as_ = parts.copy_item(b, read, fr, "fn", "assert_str")
    sel = parts.selectors_text(b, variants, [str_len, any_type])

    total = 0
    nts = 0
    out = []
    for t, lab in ((str_len, "str_len"), (any_type, "any_type"), (render_type, "render_type"), (aa, "assert_args"), (at, "assert_this"), (as_, "assert_str")):
        t, n = pr_unit.expand_format_macros(t, lab, ("format",))
        total += n
        t, k = to_string_rewrites(t)
        nts += k
        out.append(t)
    str_len, any_type, render_type, aa, at, as_ = out
    b.edits.append(f"D6: {total} `format!` invocations expanded into fmt_lit / fmt_disp / fmt_cat; {nts}x `X.to_string()` on a &str -> str_to_string(X)")
    as_, k = re.subn(r"String::from_utf8\(", "string_from_utf8(", as_)
    str_len, k1 = re.subn(r"\b(\w+)\.chars\(\)\.count\(\)", r"string_chars_count(&\1)", str_len)
    str_len, k2 = re.subn(r"\bs\.len\(\)", "string_len(&s)", str_len)
    b.edits.append(f"D6: assert_str: String::from_utf8 -> string_from_utf8; str_len: {k2}x `s.len()` -> string_len(&s), {k1}x `X.chars().count()` -> "
                   "string_chars_count(&X) (assumed std contracts: byte length / character count)")
    str_len = str_len.replace("fns::assert_", "assert_")
    any_type = any_type.replace("fns::assert_", "assert_")
    used = sorted(set(re.findall(r"\bvalue::(new_\w+)\(", str_len + any_type)))
    known = ["new_null", "new_bool", "new_int", "new_str", "new_list", "new_object", "new_str_from_string"]
    for n in used:
        if n not in known:
            raise Undecided(f"typefns: constructor value::{n} has no contract in parts.value_ctors")
    str_len = extract.annotate_fn(str_len, spec=SPEC_STR_LEN)
    any_type = extract.annotate_fn(any_type, spec=SPEC_ANY_TYPE)
    render_type = extract.annotate_fn(render_type, spec=SPEC_RENDER_TYPE)
    aa = extract.annotate_fn(aa, spec=SPEC_ASSERT_ARGS)
    at = extract.annotate_fn(at, spec=SPEC_ASSERT_THIS)
    as_ = extract.annotate_fn(as_, spec=SPEC_ASSERT_STR)
    b.text = assemble([
        "// GENERATED on every run by /verif/verus/typefns.py from /repo's working tree - do not edit",
        parts.HEADER.replace("use std::collections::HashSet;\n", ""), parts.OPAQUE_SCOPES,
        sel, err_text, parts.ast_text(b, read), parts.value_items(b, read), parts.value_model(True), MODEL,
        parts.value_ctors(b, read, ["new_val_ref_with_no_source"] + used),
        "// ---- functions under contract (verbatim bodies; contract text inserted at anchors)",
        aa, at, as_, render_type, str_len, any_type, parts.FOOTER,
    ])
    return b


def replays(failed):
    def exp(out=None, err=None):
        def judge(rc, o, e):
            if rc not in (0, 103):
                return f"interpreter crashed (exit {rc})"
            if out is not None and (rc != 0 or o != out):
                return f"expected stdout {out!r}"
            if err is not None and (rc != 103 or err not in e):
                return f"expected an error containing {err!r}"
            return None
        return judge
    yield ("len counts bytes, like `for` and range bounds", "s := \"né€\"\nn := 0\nfor p in s {\n    n += 1\n}\nprint(s->len())\nprint(n)\nprint(s[0:s->len()] == s)\n",
           exp("6\n6\ntrue\n"))
    yield ("empty string", "print(\"\"->len())\n", exp("0\n"))
    yield ("type names", "print(null->type())\nprint(true->type())\nprint(1->type())\nprint(\"a\"->type())\nprint([]->type())\nprint({}->type())\nprint(print->type())\n",
           exp(err=None, out=None))
    yield ("len takes no argument", "print(\"a\"->len(1))\n", exp(err="only takes 0 arguments"))
