"""V-list: bind::bind_list (C13 positional list destructuring with collect; C02 index arithmetic; C17).

Copied verbatim from /repo/src/eval/bind.rs.  bind_next (the recursive binder) is external with an
uninterpreted deterministic contract; the list cell is modelled under A-lock."""
import extract
import parts
import name_bind
from verus_engine import Built, assemble

NAME = "list_bind"
RLIMIT = 80

HASHSET = name_bind.MODEL[name_bind.MODEL.index("// ---- D3: std::collections::HashSet"):name_bind.MODEL.index("// ---- abstract view of the scope chain")]

MODEL = r"""
// ---- A-lock model of `Arc<Mutex<Vec<SourcedValue>>>` (see range_assign)
pub struct ListRef { pub items: Vec<SourcedValue> }
macro_rules! lock_deref {
    ( $x:ident ) => { $x.items };
}
// D5: `v[a ..].to_vec()` (slice range indexing) -> std's contract with its panic condition as precondition
#[verifier::external_body]
pub fn tail_to_vec(v: &Vec<SourcedValue>, start: usize) -> (r: Vec<SourcedValue>)
    requires start <= v@.len(),
    ensures r@ == v@.subrange(start as int, v@.len() as int),
{ unimplemented!() }

pub uninterp spec fn sem_new_list(items: Seq<SourcedValue>) -> SourcedValue;
pub mod value {
    use super::*;
    #[verifier::external_body]
    pub fn new_list(list: Vec<SourcedValue>) -> (r: SourcedValue)
        ensures r == sem_new_list(list@)
    { unimplemented!() }
}
pub uninterp spec fn sem_bind_next(w: W, names: Set<Seq<char>>, lhs: Expr, rhs: SourcedValue, op: Option<(BinaryOp, Location)>, bt: BindType)
    -> (Result<()>, W, Set<Seq<char>>);
#[verifier::external_body]
pub fn bind_next(context: &EvaluationContext, scopes: &mut ScopeStack, names_in_binding: &mut HashSet<String>, lhs: &Expr, rhs: SourcedValue, op: Option<(BinaryOp, Location)>, bind_type: BindType) -> (r: Result<()>)
    ensures (r, final(scopes).world(), final(names_in_binding)@) == sem_bind_next(old(scopes).world(), old(names_in_binding)@, *lhs, rhs, op, bind_type),
            r matches Err(e) ==> located(e),
{ unimplemented!() }

// ---- the reading of the property (C13) for `[p0, .., pn] := xs` / `[p0, .., pn-1, ..rest] := xs`
pub open spec fn shape_ok(n: int, collect: bool, m: int) -> bool {
    if collect { m >= n - 1 } else { m == n }
}
// value received by pattern i: the element at its position; the final collecting pattern receives a
// FRESH list of exactly the remaining elements xs[n-1 ..]
pub open spec fn item_value(pats: Seq<ListItem>, collect: bool, xs: Seq<SourcedValue>, i: int) -> SourcedValue {
    if collect && i == pats.len() - 1 { sem_new_list(xs.subrange(pats.len() - 1, xs.len() as int)) } else { xs[i] }
}
// patterns are bound left to right; a spread item or a failing sub-binding stops with an error
pub open spec fn bind_items(w: W, names: Set<Seq<char>>, pats: Seq<ListItem>, collect: bool, xs: Seq<SourcedValue>, bt: BindType, i: int)
    -> (bool, W, Set<Seq<char>>)
    decreases pats.len() - i
{
    if i < 0 || i >= pats.len() { (true, w, names) }
    else if pats[i].is_spread { (false, w, names) }
    else {
        let (r, w1, n1) = sem_bind_next(w, names, pats[i].expr, item_value(pats, collect, xs, i), None, bt);
        match r {
            Err(_) => (false, w1, n1),
            Ok(_) => bind_items(w1, n1, pats, collect, xs, bt, i + 1),
        }
    }
}
// lossless: the positional prefix together with the collected rest is the source list
pub proof fn lemma_prefix_plus_rest_is_source(xs: Seq<SourcedValue>, n: int)
    requires 1 <= n <= xs.len() + 1,
    ensures xs.subrange(0, n - 1) + xs.subrange(n - 1, xs.len() as int) =~= xs,
{
}
"""

SPEC = r"""
    requires
        *collect ==> lhs@.len() >= 1,   // grammar: `..` only together with a pattern (ParamList / ReverseExprList)
    ensures
        !shape_ok(lhs@.len() as int, *collect, rhs.items@.len() as int)
            ==> r is Err && final(scopes).world() == old(scopes).world() && final(names_in_binding)@ == old(names_in_binding)@, // [C13:list_pattern_requires_equal_length_or_at_least_n_minus_1_with_collect]
        shape_ok(lhs@.len() as int, *collect, rhs.items@.len() as int)
            ==> (r is Ok, final(scopes).world(), final(names_in_binding)@)
                == bind_items(old(scopes).world(), old(names_in_binding)@, lhs@, *collect, rhs.items@, bind_type, 0), // [C13_C14_C20:each_pattern_gets_the_element_at_its_position_and_rest_gets_exactly_the_remaining_elements_as_a_fresh_list]
        r matches Err(e) ==> located(e), // [C17:list_destructuring_errors_are_located]
"""

LOOP = {
    "header": """        invariant
            lhs_len == lhs@.len(),
            rhs_len == rhs.items@.len(),
            shape_ok(lhs_len as int, *collect, rhs_len as int),
            *collect ==> lhs_len >= 1,
            bind_items(w0, n0, lhs@, *collect, rhs.items@, bind_type, 0)
                == bind_items(scopes.world(), names_in_binding@, lhs@, *collect, rhs.items@, bind_type, i as int),""",
    "before": "let ghost w0 = scopes.world();\n    let ghost n0 = names_in_binding@;",
}


def build(read):
    b = Built()
    err_text, variants = parts.error_text(b, read)
    f = parts.copy_item(b, read, "src/eval/bind.rs", "fn", "bind_list")
    bind_type = parts.copy_item(b, read, "src/eval/bind.rs", "enum", "BindType")
    sel = parts.selectors_text(b, variants, [f])

    f = extract.rewrite_once(f, "    raw_lhs: (&[ListItem], &bool),\n", "    lhs: &[ListItem], collect: &bool,\n", "bind_list: tuple parameter")
    f = extract.rewrite_once(f, "    let (lhs, collect) = raw_lhs;\n", "", "bind_list: tuple destructuring")
    b.edits.append("D5: bind_list: parameter `raw_lhs: (&[ListItem], &bool)` split into two parameters; `let (lhs, collect) = raw_lhs;` removed")
    f = extract.rewrite_regex_once(f, r"lock_deref!\(rhs\)\[([^\[\]]+?)\s*\.\.\]\.to_vec\(\)", r"tail_to_vec(&lock_deref!(rhs), \1)", "bind_list: tail slice")
    b.edits.append("D5: bind_list: `lock_deref!(rhs)[<start> ..].to_vec()` -> `tail_to_vec(&lock_deref!(rhs), <start>)` "
                   "(std slice contract; its panic condition is a checked precondition)")
    # the loop rebinds `lhs` (shadowing) - the invariant needs the outer slice: name it once, ghostly
    f = parts.annotate_closure(
        f, "new_loc_err", "source: Error", "Result<()>",
        "r == Err::<(), Error>(Error::AtLoc{source: Box::new(source), line: lhs_loc.0, col: lhs_loc.1})", "bind_list")
    b.edits.append("annotation: closure `new_loc_err` given parameter type, named result and its literal postcondition")
    f = extract.annotate_fn(f, spec=SPEC, attrs="#[verifier::exec_allows_no_decreases_clause]\n#[verifier::loop_isolation(false)]", loops={1: LOOP})
    b.edits.append("D3: std HashSet<String> replaced by an assumed mathematical-set contract")

    b.text = assemble([
        "// GENERATED on every run by /verif/verus/list_bind.py from /repo's working tree - do not edit",
        parts.HEADER.replace("use std::collections::HashSet;\n", ""), parts.OPAQUE_CONTEXT, parts.OPAQUE_SCOPES, parts.OPAQUE_VALUE,
        sel, err_text, parts.located_spec(variants), parts.ast_text(b, read),
        HASHSET,
        "// ---- verbatim from src/eval/bind.rs", bind_type,
        "impl Clone for BindType { #[verifier::external_body] fn clone(&self) -> (r: Self) ensures r == *self { unimplemented!() } }\nimpl Copy for BindType {}",
        parts.with_wrapper_ctors(MODEL, b, read),
        "// ---- function under contract (verbatim body; contract text inserted at anchors)",
        f,
        parts.FOOTER,
    ])
    return b


def _expect(exp_out=None, err_sub=None):
    def judge(rc, out, err):
        if rc not in (0, 103):
            return f"interpreter crashed (exit {rc})"
        if exp_out is not None and (rc != 0 or out != exp_out):
            return f"expected success with stdout {exp_out!r}"
        if err_sub is not None and (rc != 103 or err_sub not in err):
            return f"expected a reported error containing {err_sub!r}"
        return None
    return judge


def replays(failed):
    yield ("positional binding", "[a, b, c] := [1, 2, 3]\nprint(a)\nprint(b)\nprint(c)\n", _expect("1\n2\n3\n"))
    yield ("collect gets exactly the rest", "[a, ..r] := [1, 2, 3]\nprint(a)\nfor x in r {\n    print(x[1])\n}\n", _expect("1\n2\n3\n"))
    yield ("collect of nothing is an empty list", "[a, b, ..r] := [1, 2]\nn := 0\nfor x in r {\n    n += 1\n}\nprint(n)\n", _expect("0\n"))
    yield ("prefix + rest == source", "xs := [1, 2, 3, 4]\n[a, b, ..r] := xs\nprint(([a, b] + r) == xs)\n", _expect("true\n"))
    yield ("too few for collect", "[a, b, ..r] := [1]\n", _expect(err_sub="1:1:"))
    yield ("length mismatch", "[a, b] := [1, 2, 3]\n", _expect(err_sub="1:1:"))
    yield ("length mismatch (short)", "[a, b] := [1]\n", _expect(err_sub="1:1:"))
    yield ("only collect", "[..r] := [1, 2]\nn := 0\nfor x in r {\n    n += 1\n}\nprint(n)\n", _expect("2\n"))
