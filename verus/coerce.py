"""V-coerce: the typed coercion points eval_expr_to_bool / _i64 / _index / _str (C16; C11 negative
index; C17).  Copied verbatim from /repo/src/eval/mod.rs; eval_expr is external (uninterpreted)."""
import extract
import parts
from verus_engine import Built, assemble

NAME = "coerce"
RLIMIT = 60

MODEL = r"""
global size_of usize == 8;   // 64-bit target (assumption: the interpreter is built for a 64-bit platform)
pub uninterp spec fn sem_expr(w: W, e: Expr) -> (Result<SourcedValue>, W);
#[verifier::external_body]
fn eval_expr(context: &EvaluationContext, scopes: &mut ScopeStack, expr: &Expr) -> (r: Result<SourcedValue>)
    ensures (r, final(scopes).world()) == sem_expr(old(scopes).world(), *expr),
            r matches Err(e) ==> located(e),
{ unimplemented!() }

// std: String::from_utf8 / i64 -> usize conversion (contracts of core/alloc)
pub uninterp spec fn utf8_ok(bytes: Seq<u8>) -> bool;
pub uninterp spec fn utf8_chars(bytes: Seq<u8>) -> Seq<char>;
pub assume_specification [String::from_utf8] (v: Vec<u8>) -> (r: std::result::Result<String, FromUtf8Error>)
    ensures r is Ok <==> utf8_ok(v@), r matches Ok(s) ==> s@ == utf8_chars(v@);

pub open spec fn err_at(e: Error, loc: Location) -> bool {
    e matches Error::AtLoc{source, line, col} && line == loc.0 && col == loc.1
}
pub open spec fn inner(e: Error) -> Error {
    match e { Error::AtLoc{source, line, col} => *source, _ => e }
}
// type error raised by a coercion point: names the expected type and carries the offending value
pub open spec fn incorrect_type<T>(r: Result<T>, loc: Location, exp: Seq<char>, v: Value) -> bool {
    r matches Err(e) && err_at(e, loc)
        && (inner(e) matches Error::IncorrectType{descr, exp_type, value} && exp_type@ == exp && value == v)
}
"""

SPEC = {
"eval_expr_to_bool": r"""
    ensures
        final(scopes).world() == sem_expr(old(scopes).world(), *expr).1,
        (match sem_expr(old(scopes).world(), *expr).0 {
            Err(_) => r is Err,
            Ok(sv) => match sv.v {
                Value::Bool(b) => r == Ok::<bool, Error>(b),
                _ => incorrect_type(r, expr.1, "bool"@, sv.v),
            },
        }), // [C16:a_condition_must_be_a_bool_anything_else_is_a_type_error_naming_the_expected_type_at_the_expression]
        r matches Err(e) ==> located(e), // [C17:coercion_errors_are_located]
""",
"eval_expr_to_i64": r"""
    ensures
        final(scopes).world() == sem_expr(old(scopes).world(), *expr).1,
        (match sem_expr(old(scopes).world(), *expr).0 {
            Err(_) => r is Err,
            Ok(sv) => match sv.v {
                Value::Int(n) => r == Ok::<i64, Error>(n),
                _ => incorrect_type(r, expr.1, "int"@, sv.v),
            },
        }), // [C16:an_integer_context_accepts_only_an_int]
        r matches Err(e) ==> located(e), // [C17:coercion_errors_are_located]
""",
"eval_expr_to_index": r"""
    ensures
        final(scopes).world() == sem_expr(old(scopes).world(), *expr).1,
        (match sem_expr(old(scopes).world(), *expr).0 {
            Err(_) => r is Err,
            Ok(sv) => match sv.v {
                Value::Int(n) => if n < 0 { r matches Err(e) && err_at(e, expr.1) && inner(e) == (Error::NegativeIndex{index: n}) }
                                 else { r == Ok::<usize, Error>(n as usize) },
                _ => r is Err,
            },
        }), // [C11_C16:an_index_or_range_bound_must_be_a_non_negative_int_otherwise_a_reported_error_at_the_expression]
        r matches Err(e) ==> located(e), // [C17:coercion_errors_are_located]
""",
"eval_expr_to_str": r"""
    ensures
        final(scopes).world() == sem_expr(old(scopes).world(), *expr).1,
        (match sem_expr(old(scopes).world(), *expr).0 {
            Err(_) => r is Err,
            Ok(sv) => match sv.v {
                Value::Str(bs) => if utf8_ok(bs@) { r matches Ok(s) && s@ == utf8_chars(bs@) } else { r matches Err(e) && err_at(e, expr.1) },
                _ => incorrect_type(r, expr.1, "string"@, sv.v),
            },
        }), // [C12_C16:a_property_name_is_the_value_of_its_expression_and_must_be_a_string]
        r matches Err(e) ==> located(e), // [C17:coercion_errors_are_located]
""",
}
RET = {"eval_expr_to_bool": "bool", "eval_expr_to_i64": "i64", "eval_expr_to_index": "usize", "eval_expr_to_str": "String"}


def build(read):
    b = Built()
    err_text, variants = parts.error_text(b, read)
    src = read("src/eval/mod.rs")
    mac = extract.strip_comments(extract.extract_item(src, "macro", "match_eval_expr"))
    b.copied.append(("macro", "match_eval_expr", "src/eval/mod.rs", extract.item_line(src, "macro", "match_eval_expr")))
    fns = []
    raw = []
    for n in ["eval_expr_to_bool", "eval_expr_to_i64", "eval_expr_to_index", "eval_expr_to_str"]:
        f = parts.copy_item(b, read, "src/eval/mod.rs", "fn", n)
        raw.append(f)
        f = parts.annotate_closure(
            f, "new_loc_err", "source: Error", f"Result<{RET[n]}>",
            f"r == Err::<{RET[n]}, Error>(Error::AtLoc{{source: Box::new(source), line: *line, col: *col}})", n)
        fns.append(extract.annotate_fn(f, spec=SPEC[n], attrs="#[verifier::exec_allows_no_decreases_clause]\n"))
    sel = parts.selectors_text(b, variants, raw + [mac])
    b.edits.append("annotation: closures `new_loc_err` given parameter type, named result and literal postcondition")
    b.edits.append("std contracts assumed: String::from_utf8 (validity predicate uninterpreted), i64 -> usize try_into (succeeds for n >= 0 on 64-bit)")
    b.text = assemble([
        "// GENERATED on every run by /verif/verus/coerce.py from /repo's working tree - do not edit",
        parts.HEADER.replace("use std::collections::HashSet;\n", ""), parts.OPAQUE_CONTEXT, parts.OPAQUE_SCOPES,
        sel, err_text, parts.located_spec(variants), parts.ast_text(b, read),
        parts.value_items(b, read), parts.value_model(False),
        MODEL,
        "// ---- verbatim macro from src/eval/mod.rs", mac,
        "// ---- functions under contract (verbatim bodies; contract text inserted at anchors)",
    ] + fns + [parts.FOOTER])
    return b


def _expect(err_sub):
    def judge(rc, out, err):
        if rc not in (0, 103):
            return f"interpreter crashed (exit {rc})"
        if rc != 103 or err_sub not in err:
            return f"expected a reported error containing {err_sub!r}"
        return None
    return judge


def replays(failed):
    yield ("non-bool condition", "if 1 {\n}\n", _expect("condition must be 'bool', got 'int'"))
    yield ("non-bool while condition", "while \"a\" {\n}\n", _expect("condition must be 'bool', got 'string'"))
    yield ("negative index", "xs := [1]\nprint(xs[-1])\n", _expect("index can't be negative"))
    yield ("non-int index", "xs := [1]\nprint(xs[\"a\"])\n", _expect("must be 'int', got 'string'"))
    yield ("non-string property name", "o := {1: 2}\n", _expect("must be 'string', got 'int'"))
    yield ("non-int range bound", "x := 1 .. true\n", _expect("must be 'int', got 'bool'"))
