"""V-expr: eval::eval_expr, all 14 arms (C12 object literals / property and index reads; C11 element
reads; C20 reads of undefined names; C16 kind checks in expressions; C14 `this` provenance attached
on property reads; C06 range materialisation; C02 no panic / OOB; C17 located-ness).

Copied verbatim from /repo/src/eval/mod.rs with enum Value & co (A-lock model: a container value
carries its contents, so READS are functions of the value; writes through evaluated references are
not observable and not claimed).  The function is recursive: its own contract is the relational
specification `ev` (structural recursion over the expression); every other callee is external with
an uninterpreted deterministic contract."""
import re

import extract
import parts
from verus_engine import Built, assemble

NAME = "expr"
RLIMIT = 300
TIMEOUT = 1500

MODEL = r"""
use std::path::PathBuf;
#[verifier::external_type_specification]
#[verifier::external_body]
pub struct ExPathBuf(PathBuf);

pub uninterp spec fn sem_get(w: W, name: Seq<char>) -> Option<SourcedValue>;
impl ScopeStack {
    // contract read off src/eval/scope.rs (innermost-first lookup), assumed here
    #[verifier::external_body]
    pub fn get(&self, name: &String) -> (r: Option<SourcedValue>)
        ensures r == sem_get(self.world(), name@)
    { unimplemented!() }
}
pub uninterp spec fn string_bytes(s: Seq<char>) -> Seq<u8>;     // UTF-8 encoding (Verus has no str byte reasoning)

pub uninterp spec fn sem_interp(w: W, s: Seq<char>, slots: Seq<(usize, usize)>, loc: Location) -> (Result<String>, W);
pub uninterp spec fn sem_apply(op: BinaryOp, op_loc: Location, lhs: Value, rhs: Value) -> Result<Value>;
pub uninterp spec fn sem_items(w: W, items: Seq<ListItem>) -> (Result<Vec<SourcedValue>>, W);
pub uninterp spec fn sem_index(w: W, e: Expr) -> (Result<usize>, W);
pub uninterp spec fn sem_str(w: W, e: Expr) -> (Result<String>, W);
pub uninterp spec fn sem_i64(w: W, e: Expr) -> (Result<i64>, W);
pub uninterp spec fn sem_str_range(s: Seq<u8>, a: Option<usize>, b: Option<usize>) -> Result<SourcedValue>;
pub uninterp spec fn sem_list_range(l: Seq<SourcedValue>, a: Option<usize>, b: Option<usize>) -> Result<SourcedValue>;
pub uninterp spec fn sem_call(w: W, func: Expr, args: Seq<ListItem>, loc: Location) -> (Result<SourcedValue>, W);

#[verifier::external_body]
fn interpolate_string(context: &EvaluationContext, scopes: &mut ScopeStack, s: &str, interpolation_slots: &Vec<(usize, usize)>, loc: (&usize, &usize)) -> (r: Result<String>)
    ensures (r, final(scopes).world()) == sem_interp(old(scopes).world(), s@, interpolation_slots@, (*loc.0, *loc.1)),
            r matches Err(e) ==> located(e),
{ unimplemented!() }
// under Kani contracts (C06 / C16)
#[verifier::external_body]
fn apply_binary_operation(op: &BinaryOp, op_loc: &Location, lhs: &Value, rhs: &Value) -> (r: Result<Value>)
    ensures r == sem_apply(*op, *op_loc, *lhs, *rhs), r matches Err(e) ==> located(e),
{ unimplemented!() }
// under contract in unit V-items
#[verifier::external_body]
fn eval_list_items(context: &EvaluationContext, scopes: &mut ScopeStack, items: &Vec<ListItem>) -> (r: Result<Vec<SourcedValue>>)
    ensures (r, final(scopes).world()) == sem_items(old(scopes).world(), items@), r matches Err(e) ==> located(e),
{ unimplemented!() }
// typed coercion points (under Kani contracts, C16)
#[verifier::external_body]
fn eval_expr_to_index(context: &EvaluationContext, scopes: &mut ScopeStack, expr: &Expr) -> (r: Result<usize>)
    ensures (r, final(scopes).world()) == sem_index(old(scopes).world(), *expr), r matches Err(e) ==> located(e),
{ unimplemented!() }
#[verifier::external_body]
fn eval_expr_to_str(context: &EvaluationContext, scopes: &mut ScopeStack, descr: &str, expr: &Expr) -> (r: Result<String>)
    ensures (r, final(scopes).world()) == sem_str(old(scopes).world(), *expr), r matches Err(e) ==> located(e),
{ unimplemented!() }
#[verifier::external_body]
fn eval_expr_to_i64(context: &EvaluationContext, scopes: &mut ScopeStack, descr: &str, expr: &Expr) -> (r: Result<i64>)
    ensures (r, final(scopes).world()) == sem_i64(old(scopes).world(), *expr), r matches Err(e) ==> located(e),
{ unimplemented!() }
// range reads (under Kani contracts, C11)
#[verifier::external_body]
fn get_str_range_index(s: &Str, maybe_start: Option<usize>, maybe_end: Option<usize>) -> (r: Result<SourcedValue>)
    ensures r == sem_str_range(s@, maybe_start, maybe_end),
{ unimplemented!() }
#[verifier::external_body]
fn get_list_range_index(list: &ListRef, maybe_start: Option<usize>, maybe_end: Option<usize>) -> (r: Result<SourcedValue>)
    ensures r == sem_list_range(list.0.0@, maybe_start, maybe_end),
{ unimplemented!() }
// under contract in unit V-call
#[verifier::external_body]
fn eval_call(context: &EvaluationContext, scopes: &mut ScopeStack, func: &Expr, args: &Vec<ListItem>, loc: (&usize, &usize)) -> (r: Result<SourcedValue>)
    ensures (r, final(scopes).world()) == sem_call(old(scopes).world(), *func, args@, (*loc.0, *loc.1)), r matches Err(e) ==> located(e),
{ unimplemented!() }
// D5: `for (name, value) in &m { vals.insert(name.to_string(), value.clone()); }` as a std contract:
// every entry of m is inserted, a later entry for the same key replaces an earlier one
#[verifier::external_body]
pub fn insert_all(vals: &mut Object, m: &Object)
    ensures final(vals)@ == old(vals)@.union_prefer_right(m@)
{ unimplemented!() }
// D5: `(start..end).map(value::new_int).collect()` as a std contract: the ascending integers start <= i < end
#[verifier::external_body]
pub fn int_range_list(start: i64, end: i64) -> (r: Vec<SourcedValue>)
    ensures r@.len() == (if end > start { end - start } else { 0 }),
            forall|k: int| 0 <= k < r@.len() ==> #[trigger] r@[k] == (SourcedValue{v: Value::Int((start + k) as i64), source: None}),
{ unimplemented!() }

// =========================================================================================
// The reading of the properties for expressions, as a relational specification.
// =========================================================================================
// witness marker: quantifiers over sub-results are triggered on this (a quantifier cannot be
// triggered on the recursive `ev` itself); the function's ensures mentions it for every result
pub open spec fn wit(e: Expr, r: Result<SourcedValue>, w2: W) -> bool { true }
pub open spec fn err_at(r: Result<SourcedValue>, loc: Location) -> bool {
    r matches Err(e) && (e matches Error::AtLoc{source, line, col} && line == loc.0 && col == loc.1)
}
pub open spec fn err_src(r: Result<SourcedValue>) -> Error {
    match r { Err(Error::AtLoc{source, line, col}) => *source, _ => arbitrary() }
}
pub open spec fn is_str_of(r: Result<SourcedValue>, chars: Seq<char>) -> bool {
    r matches Ok(x) && x.source is None && (x.v matches Value::Str(bs) && bs@ == string_bytes(chars))
}
pub open spec fn plain(r: Result<SourcedValue>, v: Value) -> bool {
    r == Ok::<SourcedValue, Error>(SourcedValue{v, source: None})
}
// the documented type-function namespace of a value (none for null)
pub open spec fn namespace_of(tf: TypeFunctions, v: Value) -> Option<ObjectRef> {
    match v {
        Value::Null => None,
        Value::Bool(_) => Some(tf.bools),
        Value::Int(_) => Some(tf.ints),
        Value::Str(_) => Some(tf.strs),
        Value::List(_) => Some(tf.lists),
        Value::Object(_) => Some(tf.objects),
        Value::BuiltinFunc{..} => Some(tf.funcs),
        Value::Func(_) => Some(tf.funcs),
    }
}
// ---- object literal (C12): entries are evaluated in source order; a computed name must be a
// string; `{a}` means `{"a": a}`; `x..` inlines the properties of the object x; a later entry for
// the same key replaces an earlier one.  State threaded through the entries: (world, map so far).
pub open spec fn wit_st(w: W, acc: Map<Seq<char>, SourcedValue>) -> bool { true }
pub open spec fn wit_fail(i: nat, w: W, acc: Map<Seq<char>, SourcedValue>) -> bool { true }

pub open spec fn entry_ok(tf: TypeFunctions, w: W, acc: Map<Seq<char>, SourcedValue>, item: PropItem, w2: W, acc2: Map<Seq<char>, SourcedValue>) -> bool
    decreases item, 0int
{
    match item {
        PropItem::Pair{name, value} => {
            let (rk, w1) = sem_str(w, name);
            rk matches Ok(k) && (exists|rv: Result<SourcedValue>, wv: W| #![trigger wit(value, rv, wv)] wit(value, rv, wv) && ev(tf, w1, value, rv, wv)
                && (rv matches Ok(v) && w2 == wv && acc2 == acc.insert(k@, v)))
        },
        PropItem::Single{expr, is_spread, collect} => !collect && (
            if is_spread {
                exists|rv: Result<SourcedValue>, wv: W| #![trigger wit(expr, rv, wv)] wit(expr, rv, wv) && ev(tf, w, expr, rv, wv) && w2 == wv
                    && (rv matches Ok(v) && (v.v matches Value::Object(o) && acc2 == acc.union_prefer_right(o.0.0@)))
            } else {
                expr.0 matches RawExpr::Var{name} && (sem_get(w, name@) matches Some(v) && w2 == w && acc2 == acc.insert(name@, v))
            }),
    }
}
pub open spec fn entry_fail(tf: TypeFunctions, w: W, item: PropItem, w2: W) -> bool
    decreases item, 0int
{
    match item {
        PropItem::Pair{name, value} => {
            let (rk, w1) = sem_str(w, name);
            match rk {
                Err(_) => w2 == w1,      // a computed name that is not a string (or fails)
                Ok(k) => exists|rv: Result<SourcedValue>, wv: W| #![trigger wit(value, rv, wv)] wit(value, rv, wv) && ev(tf, w1, value, rv, wv) && rv is Err && w2 == wv,
            }
        },
        PropItem::Single{expr, is_spread, collect} =>
            if collect { w2 == w }
            else if is_spread {
                exists|rv: Result<SourcedValue>, wv: W| #![trigger wit(expr, rv, wv)] wit(expr, rv, wv) && ev(tf, w, expr, rv, wv) && w2 == wv
                    && (rv is Err || (rv matches Ok(v) && !(v.v is Object)))
            } else {
                w2 == w && !(expr.0 matches RawExpr::Var{name} && sem_get(w, name@) is Some)
            },
    }
}
// state after the first i entries all succeeded
pub open spec fn lit_prefix(tf: TypeFunctions, w0: W, props: Seq<PropItem>, i: nat, w: W, acc: Map<Seq<char>, SourcedValue>) -> bool
    decreases props, i
{
    if i == 0 { w == w0 && acc == Map::<Seq<char>, SourcedValue>::empty() }
    else {
        i <= props.len() && (exists|wp: W, ap: Map<Seq<char>, SourcedValue>| #![trigger wit_st(wp, ap)] wit_st(wp, ap)
            && lit_prefix(tf, w0, props, (i - 1) as nat, wp, ap) && entry_ok(tf, wp, ap, props[i - 1], w, acc))
    }
}

pub open spec fn ev(tf: TypeFunctions, w: W, e: Expr, r: Result<SourcedValue>, w2: W) -> bool
    decreases e, 0int
{
    match e.0 {
        RawExpr::Null => plain(r, Value::Null) && w2 == w,
        RawExpr::Bool{b} => plain(r, Value::Bool(b)) && w2 == w,
        RawExpr::Int{n} => plain(r, Value::Int(n)) && w2 == w,
        RawExpr::Str{s, interpolation_slots} => match interpolation_slots {
            None => w2 == w && is_str_of(r, s@),
            Some(slots) => {
                let (ri, w1) = sem_interp(w, s@, slots@, e.1);
                w2 == w1 && (match ri { Ok(t) => is_str_of(r, t@), Err(_) => r is Err })
            },
        },
        // reading a name: the innermost executed declaration, or an error AT the name
        RawExpr::Var{name} => w2 == w && (match sem_get(w, name@) {
            Some(v) => r == Ok::<SourcedValue, Error>(v),
            None => err_at(r, e.1) && (err_src(r) matches Error::Undefined{name: n} && n@ == name@),
        }),
        // operands left then right, each once; the operator sees (lhs, rhs) in this order
        RawExpr::BinaryOp{op, op_loc, lhs, rhs} =>
            exists|a: Result<SourcedValue>, w1: W| #![trigger wit(*lhs, a, w1)] wit(*lhs, a, w1) && ev(tf, w, *lhs, a, w1) && (match a {
                Err(_) => r is Err && w2 == w1,
                Ok(av) => exists|b: Result<SourcedValue>, wb: W| #![trigger wit(*rhs, b, wb)] wit(*rhs, b, wb) && ev(tf, w1, *rhs, b, wb) && w2 == wb && (match b {
                    Err(_) => r is Err,
                    Ok(bv) => match sem_apply(op, op_loc, av.v, bv.v) { Ok(v) => plain(r, v), Err(_) => r is Err },
                }),
            }),
        RawExpr::List{items, collect} =>
            if collect { w2 == w && err_at(r, e.1) && err_src(r) is ListCollectOutsideDestructure }
            else {
                let (ri, w1) = sem_items(w, items@);
                w2 == w1 && (match ri {
                    Ok(vs) => r matches Ok(x) && x.source is None && (x.v matches Value::List(l) && l.0.0@ == vs@),
                    Err(_) => r is Err,
                })
            },
        // s[i]: defined exactly for 0 <= i < len and is the i-th element / byte; o[k]: the property k,
        // remembering o as the place the value was read from; anything else is a type error
        RawExpr::Index{expr, location} =>
            exists|s: Result<SourcedValue>, w1: W| #![trigger wit(*expr, s, w1)] wit(*expr, s, w1) && ev(tf, w, *expr, s, w1) && (match s {
                Err(_) => r is Err && w2 == w1,
                Ok(sv) => match sv.v {
                    Value::Str(bs) => {
                        let (ri, wi) = sem_index(w1, *location);
                        w2 == wi && (match ri {
                            Err(_) => r is Err,
                            Ok(i) => if i < bs@.len() { r matches Ok(x) && x.source is None && (x.v matches Value::Str(o) && o@ == seq![bs@[i as int]]) }
                                     else { err_at(r, e.1) && err_src(r) == (Error::OutOfStringBounds{index: i}) },
                        })
                    },
                    Value::List(l) => {
                        let (ri, wi) = sem_index(w1, *location);
                        w2 == wi && (match ri {
                            Err(_) => r is Err,
                            Ok(i) => if i < l.0.0@.len() { r == Ok::<SourcedValue, Error>(l.0.0@[i as int]) }
                                     else { err_at(r, e.1) && err_src(r) == (Error::OutOfListBounds{index: i}) },
                        })
                    },
                    Value::Object(o) => {
                        let (rk, wk) = sem_str(w1, *location);
                        w2 == wk && (match rk {
                            Err(_) => r is Err,
                            Ok(k) => if o.0.0@.contains_key(k@) { r == Ok::<SourcedValue, Error>(SourcedValue{v: o.0.0@[k@].v, source: Some(sv.v)}) }
                                     else { err_at(r, e.1) && (err_src(r) matches Error::PropNotFound{name} && name@ == k@) },
                        })
                    },
                    _ => w2 == w1 && err_at(r, e.1) && err_src(r) is ValueNotIndexable,
                },
            }),
        RawExpr::RangeIndex{expr, start, end} => {
            let (ra, wa) = match start { Some(s) => { let (x, y) = sem_index(w, *s); (match x { Ok(v) => Ok::<Option<usize>, Error>(Some(v)), Err(er) => Err::<Option<usize>, Error>(er) }, y) }, None => (Ok::<Option<usize>, Error>(None), w) };
            match ra {
                Err(_) => r is Err && w2 == wa,
                Ok(a) => {
                    let (rb, wb) = match end { Some(s) => { let (x, y) = sem_index(wa, *s); (match x { Ok(v) => Ok::<Option<usize>, Error>(Some(v)), Err(er) => Err::<Option<usize>, Error>(er) }, y) }, None => (Ok::<Option<usize>, Error>(None), wa) };
                    match rb {
                        Err(_) => r is Err && w2 == wb,
                        Ok(b) => exists|s: Result<SourcedValue>, w1: W| #![trigger wit(*expr, s, w1)] wit(*expr, s, w1) && ev(tf, wb, *expr, s, w1) && w2 == w1 && (match s {
                            Err(_) => r is Err,
                            Ok(sv) => match sv.v {
                                Value::Str(bs) => match sem_str_range(bs@, a, b) { Ok(v) => r == Ok::<SourcedValue, Error>(v), Err(_) => err_at(r, e.1) },
                                Value::List(l) => match sem_list_range(l.0.0@, a, b) { Ok(v) => r == Ok::<SourcedValue, Error>(v), Err(_) => err_at(r, e.1) },
                                _ => err_at(r, e.1) && err_src(r) is ValueNotRangeIndexable,
                            },
                        }),
                    }
                },
            }
        },
        // a .. b: exactly the ascending integers a <= i < b
        RawExpr::Range{start, end} => {
            let (ra, wa) = sem_i64(w, *start);
            match ra {
                Err(_) => r is Err && w2 == wa,
                Ok(a) => {
                    let (rb, wb) = sem_i64(wa, *end);
                    w2 == wb && (match rb {
                        Err(_) => r is Err,
                        Ok(b) => r matches Ok(x) && x.source is None && (x.v matches Value::List(l)
                            && l.0.0@.len() == (if b > a { b - a } else { 0 })
                            && forall|k: int| 0 <= k < l.0.0@.len() ==> #[trigger] l.0.0@[k] == (SourcedValue{v: Value::Int((a + k) as i64), source: None})),
                    })
                },
            }
        },
        RawExpr::Object{props} =>
            (r matches Ok(x) ==> x.source is None && (x.v matches Value::Object(o) && lit_prefix(tf, w, props@, props@.len(), w2, o.0.0@)))
            && (r is Err ==> exists|i: nat, wp: W, ap: Map<Seq<char>, SourcedValue>| #![trigger wit_fail(i, wp, ap)] wit_fail(i, wp, ap)
                    && i < props@.len() && lit_prefix(tf, w, props@, i, wp, ap) && entry_fail(tf, wp, props@[i as int], w2)),
        // o.k is o["k"]; v->f looks f up in the type's namespace (undefined for null)
        RawExpr::Prop{expr, name, type_prop} =>
            exists|s: Result<SourcedValue>, w1: W| #![trigger wit(*expr, s, w1)] wit(*expr, s, w1) && ev(tf, w, *expr, s, w1) && w2 == w1 && (match s {
                Err(_) => r is Err,
                Ok(sv) => {
                    if type_prop {
                        match namespace_of(tf, sv.v) {
                            None => err_at(r, e.1) && err_src(r) is TypeFunctionOnNull,
                            Some(ns) => if ns.0.0@.contains_key(name@) { r == Ok::<SourcedValue, Error>(SourcedValue{v: ns.0.0@[name@].v, source: Some(sv.v)}) }
                                        else { err_at(r, e.1) && err_src(r) is TypeFunctionNotFound },
                        }
                    } else {
                        match sv.v {
                            Value::Object(o) => if o.0.0@.contains_key(name@) { r == Ok::<SourcedValue, Error>(SourcedValue{v: o.0.0@[name@].v, source: Some(sv.v)}) }
                                                else { err_at(r, e.1) && (err_src(r) matches Error::PropNotFound{name: n} && n@ == name@) },
                            _ => err_at(r, e.1) && err_src(r) is PropAccessOnNonObject,
                        }
                    }
                },
            }),
        // a function value closes over the CURRENT scope chain (by reference)
        RawExpr::Func{args, collect_args, stmts} => w2 == w && (r matches Ok(x) && x.source is None
            && (x.v matches Value::Func(f) && f.0.0.name is None && f.0.0.args@ == args@ && f.0.0.collect_args == collect_args
                && f.0.0.stmts@ == stmts@ && f.0.0.closure.world() == w)),
        RawExpr::Call{func, args} => {
            let (rc, wc) = sem_call(w, *func, args@, e.1);
            w2 == wc && (match rc { Ok(v) => r == Ok::<SourcedValue, Error>(v), Err(_) => r is Err })
        },
    }
}
"""

SPEC = r"""
    ensures
        (expr.0 is Var) ==> ev(context.builtins.type_functions, old(scopes).world(), *expr, r, final(scopes).world()), // [C18_C20:reading_a_name_yields_its_innermost_declaration_or_an_error_at_that_name]
        (expr.0 is BinaryOp) ==> ev(context.builtins.type_functions, old(scopes).world(), *expr, r, final(scopes).world()), // [C16_C17_C18:binary_operation_evaluates_lhs_then_rhs_once_and_applies_the_operator_at_its_own_position_to_them_in_order]
        (expr.0 is Index) ==> ev(context.builtins.type_functions, old(scopes).world(), *expr, r, final(scopes).world()), // [C11_C12_C14_C15:element_and_property_reads_attach_the_object_read_from_as_this_and_are_defined_exactly_inside_the_sequence_or_for_present_keys_and_are_errors_otherwise]
        (expr.0 is Prop) ==> ev(context.builtins.type_functions, old(scopes).world(), *expr, r, final(scopes).world()), // [C12_C14:dot_name_attaches_the_object_read_from_as_this_and_reads_the_same_property_as_index_by_that_string_and_type_functions_are_defined_for_every_value_but_null]
        (expr.0 is Object) ==> ev(context.builtins.type_functions, old(scopes).world(), *expr, r, final(scopes).world()), // [C12_C13_C17:object_literal_entries_are_evaluated_in_source_order_with_shorthand_spread_string_names_and_later_entries_winning]
        (expr.0 is Range) ==> ev(context.builtins.type_functions, old(scopes).world(), *expr, r, final(scopes).world()), // [C06:range_is_exactly_the_ascending_integers_from_start_up_to_but_excluding_end]
        (expr.0 is RangeIndex) ==> ev(context.builtins.type_functions, old(scopes).world(), *expr, r, final(scopes).world()), // [C11_C17:range_read_evaluates_bounds_then_the_sequence_and_delegates_to_the_range_read_contract]
        (expr.0 is List || expr.0 is Call || expr.0 is Func) ==> ev(context.builtins.type_functions, old(scopes).world(), *expr, r, final(scopes).world()), // [C14:list_literals_calls_and_function_values_delegate_to_their_contracts_and_closures_capture_the_current_chain]
        (expr.0 is Null || expr.0 is Bool || expr.0 is Int || expr.0 is Str) ==> ev(context.builtins.type_functions, old(scopes).world(), *expr, r, final(scopes).world()), // [C09_C15_C18:literals_denote_their_values_and_an_interpolated_literal_is_evaluated_with_its_own_line_and_column_values]
        ev(context.builtins.type_functions, old(scopes).world(), *expr, r, final(scopes).world()), // [ANY:expression_value_is_the_documented_one]
        wit(*expr, r, final(scopes).world()),
        r matches Err(e) ==> located(e), // [C17:expression_errors_are_located]
"""


def build(read):
    b = Built()
    err_text, variants = parts.error_text(b, read)
    src = read("src/eval/mod.rs")
    f = parts.copy_item(b, read, "src/eval/mod.rs", "fn", "eval_expr")
    mac = extract.strip_comments(extract.extract_item(src, "macro", "match_eval_expr"))
    b.copied.append(("macro", "match_eval_expr", "src/eval/mod.rs", extract.item_line(src, "macro", "match_eval_expr")))
    ctx = parts.copy_item(b, read, "src/eval/mod.rs", "struct", "EvaluationContext")
    bi = parts.copy_item(b, read, "src/eval/builtins.rs", "struct", "Builtins")
    tfn = parts.copy_item(b, read, "src/eval/builtins.rs", "struct", "TypeFunctions")
    sel = parts.selectors_text(b, variants, [f, mac])

    f = extract.rewrite_regex_once(
        f, r"for \(name, value\) in &lock_deref!\(props\) \{\s*vals\.insert\(\s*name\.to_string\(\),\s*value\.clone\(\),\s*\);\s*\}",
        "insert_all(&mut vals, &lock_deref!(props));", "eval_expr: object spread loop")
    b.edits.append("D5: eval_expr (Object arm): `for (name, value) in &lock_deref!(props) { vals.insert(name.to_string(), value.clone()); }` -> "
                   "`insert_all(&mut vals, &lock_deref!(props))` (std contract: later-wins union)")
    f = extract.rewrite_regex_once(
        f, r"\(start\.\.end\)\s*\.map\(value::new_int\)\s*\.collect\(\)", "int_range_list(start, end)", "eval_expr: range collect")
    b.edits.append("D5: eval_expr (Range arm): `(start..end).map(value::new_int).collect()` -> `int_range_list(start, end)` (std contract: ascending integers)")
    b.dropped.append("eval_expr: the object-spread loop and the range iterator expression (replaced by their std contracts)")
    f = extract.rewrite_once(f, "                args.clone(),\n", "                clone_exprs(args),\n", "eval_expr: Vec<Expr> clone")
    b.edits.append("D5: eval_expr (Func arm): `args.clone()` on Vec<Expr> (tuple alias elements) -> `clone_exprs(args)` (assumed structural)")
    # proof hint (ghost only): the one-byte string read by s[i]
    f = extract.rewrite_regex_once(
        f, r"(Error::OutOfStringBounds\{index\},\s*\),\s*\};\n)",
        r"\1                    proof { assert(v.v->Str_0@ == seq![s@[index as int]]); }\n", "eval_expr: string index hint")
    f = extract.rewrite_once(f, "vals.insert(name.to_string(), v);", "vals.insert(name.clone(), v);", "eval_expr: String::to_string")
    b.edits.append("D5: eval_expr (Object shorthand): `name.to_string()` on a String -> `name.clone()` (vstd has no spec for the blanket ToString impl; identical for String)")
    f = parts.annotate_closure(
        f, "new_loc_err", "source: Error", "Result<SourcedValue>",
        "r == Err::<SourcedValue, Error>(Error::AtLoc{source: Box::new(source), line: *line, col: *col})", "eval_expr")
    b.edits.append("annotation: closure `new_loc_err` given parameter type, named result and its literal postcondition")
    hdr, body = extract.fn_header_body(f)
    lp = extract.find_loops(body)
    if [k for k, _, _ in lp] != ["for"]:
        from common import Undecided
        raise Undecided(f"eval_expr: expected exactly one loop (object literal entries), found {[k for k, _, _ in lp]}")
    from verus_engine import desugar_for
    body = desugar_for(body, 1)
    b.edits.append("D5: eval_expr (Object arm): `for prop in props` -> Rust's own desugaring (ghost position needed)")
    loops = {1: {"before": "let ghost tf = context.builtins.type_functions;\n            let ghost w0 = scopes.world();\n            let ghost mut gi: nat = 0;",
                 "header": """                invariant
                    gi <= props@.len(),
                    __it.remaining() == props@.map_values(|s: PropItem| &s).subrange(gi as int, props@.len() as int),
                    lit_prefix(tf, w0, props@, gi, scopes.world(), vals@),
                    wit_st(scopes.world(), vals@),
                    wit_fail(gi, scopes.world(), vals@),
                ensures
                    gi == props@.len(),
                decreases props@.len() - gi"""}}
    f = extract.annotate_fn(hdr + body, spec=SPEC + "    decreases expr\n", attrs="#[verifier::loop_isolation(false)]\n#[verifier::allow_complex_invariants]", loops=loops)
    f = extract.rewrite_once(f, "        RawExpr::Object{props} => {\n",
                             "        RawExpr::Object{props} => {\n            proof { reveal_with_fuel(ev, 2); reveal_with_fuel(lit_prefix, 2); reveal_with_fuel(entry_ok, 2); reveal_with_fuel(entry_fail, 2); }\n",
                             "eval_expr: fuel for the object-literal specification (mutually recursive spec functions share fuel)")
    f = extract.rewrite_once(f, "let prop = match __it.next() { Some(__x) => __x, None => break };\n",
                             "let prop = match __it.next() { Some(__x) => __x, None => break };\n proof { gi = gi + 1; }\n", "eval_expr: ghost index")
    b.edits.append("D3: std BTreeMap<String, SourcedValue> replaced by an assumed finite-map contract; Arc/Mutex transparent (A-lock)")

    b.text = assemble([
        "// GENERATED on every run by /verif/verus/expr.py from /repo's working tree - do not edit",
        parts.HEADER.replace("use std::collections::HashSet;\n", ""), parts.OPAQUE_SCOPES,
        sel, err_text, parts.located_spec(variants), parts.ast_text(b, read), parts.CLONE_EXPR,
        parts.value_items(b, read), parts.value_model(True),
        "// ---- verbatim from src/eval/builtins.rs and src/eval/mod.rs", tfn, bi, ctx,
        MODEL,
        parts.value_ctors(b, read, ["new_val_ref_with_no_source", "new_val_ref_with_source", "new_null", "new_bool", "new_int", "new_str", "new_str_from_string", "new_list", "new_object", "new_func"]),
        "// ---- verbatim macro from src/eval/mod.rs", mac,
        "// ---- function under contract (verbatim body; contract text inserted at anchors)",
        f,
        parts.FOOTER,
    ])
    return b


def replays(failed):
    def exp(out=None, err=None):
        def judge(rc, o, e):
            if rc not in (0, 103):
                return f"interpreter crashed (exit {rc})"
            if out is not None and (rc != 0 or o != out):
                return f"expected stdout {out!r}"
            if err is not None and (rc != 103 or err not in e):
                return f"expected an error containing {err!r}"
            return None
        return judge
    yield ("`this` is the object the function was read from for this call",
           "a := {\"n\": 1, \"f\": fn() {\n    return this.n\n}}\nb := {\"n\": 2, \"f\": a.f}\nprint(b.f())\nprint(b[\"f\"]())\nprint(a.f())\n", exp("2\n2\n1\n"))
    yield ("a function read from an object keeps it as `this` when stored and called later",
           "a := {\"n\": 1, \"f\": fn() {\n    return this.n\n}}\ng := a.f\nprint(g())\n", exp("1\n"))
    yield ("operands are evaluated left to right, once", "fn t(x) {\n    print(x)\n    return x\n}\nprint(t(1) + t(2))\n", exp("1\n2\n3\n"))
    yield ("index read in / out of bounds", "xs := [7, 8]\nprint(xs[1])\nprint(xs[2])\n", exp(err="2"))
    yield ("missing property is an error", "o := {\"a\": 1}\nprint(o.a)\nprint(o.b)\n", exp(err="b"))
    yield ("dot and index read the same property", "o := {\"a\": 1}\nprint(o.a == o[\"a\"])\n", exp("true\n"))
    yield ("range", "print(2 .. 5)\n", exp("[\n    2,\n    3,\n    4,\n]\n"))
    yield ("undefined name", "print(zz)\n", exp(err="1:7"))
    yield ("object literal order and shorthand", "a := 1\nprint({\"b\": 2, a})\n", exp("{\n    \"a\": 1,\n    \"b\": 2,\n}\n"))
