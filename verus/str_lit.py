"""V-strlit: Lexer::next_str_literal (C15 escapes and interpolation slots; C03 never panics / never
indexes outside the input while scanning a string; C02 slot offsets).

Copied verbatim from /repo/src/lexer/mod.rs.  The scanner is external with the abstract model
(text: Seq<char>, pos) - the same one-step behaviour the Kani scanner units prove.  Contract: the
slots recorded for an interpolated literal satisfy `slots_ok` (CHARACTER offsets: `$` at a, `{` at
a+1, `}` at b-1, ascending, disjoint, within the decoded text) - which is interpolate_string's
precondition (unit V-interp) - for input of any length and any characters; every error carries the
location of the offending character."""
import re

import extract
import parts
from verus_engine import Built, assemble
from common import Undecided

NAME = "str_lit"
RLIMIT = 150

MODEL = r"""
use vstd::prelude::*;
verus! {
pub type Location = (usize, usize);
pub type InterpSlot = (usize, usize);

// ---- the scanner, abstractly: a text and a position (what the Kani units c18_* / c03_scanner_* prove)
#[verifier::external_body]
pub struct Scanner { _p: () }
pub uninterp spec fn loc_at(text: Seq<char>, pos: int) -> (usize, usize);
impl Scanner {
    pub uninterp spec fn text(&self) -> Seq<char>;
    pub uninterp spec fn pos(&self) -> int;
    #[verifier::external_body]
    pub fn peek_char(&mut self) -> (r: Option<char>)
        ensures final(self).text() == old(self).text(), final(self).pos() == old(self).pos(),
                r == (if 0 <= old(self).pos() < old(self).text().len() { Some(old(self).text()[old(self).pos()]) } else { None::<char> }),
    { unimplemented!() }
    #[verifier::external_body]
    pub fn next_char(&mut self)
        ensures final(self).text() == old(self).text(),
                final(self).pos() == (if old(self).pos() < old(self).text().len() { old(self).pos() + 1 } else { old(self).pos() }),
    { unimplemented!() }
    #[verifier::external_body]
    pub fn loc(&mut self) -> (r: (usize, usize))
        ensures final(self).text() == old(self).text(), final(self).pos() == old(self).pos(), r == loc_at(old(self).text(), old(self).pos()),
    { unimplemented!() }
}
// D5: `u8::from_str_radix(&c.to_string(), 16)`: the value of one hexadecimal digit
pub open spec fn hex_value(c: char) -> Option<u8> {
    if '0' <= c <= '9' { Some((c as u8 - '0' as u8) as u8) }
    else if 'a' <= c <= 'f' { Some((c as u8 - 'a' as u8 + 10) as u8) }
    else if 'A' <= c <= 'F' { Some((c as u8 - 'A' as u8 + 10) as u8) }
    else { None }
}
#[verifier::external_body]
pub fn hex_digit(c: char) -> (r: std::result::Result<u8, ()>)
    ensures (match hex_value(c) { Some(v) => r == Ok::<u8, ()>(v), None => r is Err }), r matches Ok(v) ==> v < 16,
{ unimplemented!() }
// D5: `chars.into_iter().collect()` : a String with exactly these characters
#[verifier::external_body]
pub fn collect_string(chars: Vec<char>) -> (r: String)
    ensures r@ == chars@
{ unimplemented!() }

// ---- the reading of "a string literal denotes exactly its characters with the escapes decoded (an invalid
// escape, hex digit or unescaped `$` is a reported error with its position)" for a NON-interpolated literal:
// a forward scan of the source text from the character after the opening quote
pub open spec fn esc_value(c: char) -> Option<char> {
    if c == '\\' || c == '"' || c == '$' { Some(c) } else if c == 'n' { Some('\n') } else if c == 'r' { Some('\r') } else { None }
}
pub enum Scan { Closed(Seq<char>, int), Bad(LexError), Open }     // decoded text + index of the closing quote / the error / unterminated
pub open spec fn lift(p: Seq<char>, s: Scan) -> Scan {
    match s { Scan::Closed(cs, e) => Scan::Closed(p + cs, e), o => o }
}
// the index of the brace that closes a slot: scanning from j with `d` braces open
pub open spec fn slot_close(t: Seq<char>, j: int, d: int) -> Option<int>
    decreases t.len() - j
{
    if j < 0 || j >= t.len() || d <= 0 { None }
    else {
        let d2 = d + (if t[j] == '{' { 1int } else if t[j] == '}' { -1int } else { 0int });
        if d2 == 0 { Some(j) } else { slot_close(t, j + 1, d2) }
    }
}
pub open spec fn scan(t: Seq<char>, i: int, interp: bool) -> Scan
    decreases t.len() - i
{
    if i < 0 || i >= t.len() { Scan::Open }
    else if t[i] == '"' { Scan::Closed(Seq::empty(), i) }
    else if t[i] == '$' {
        if !interp { Scan::Bad(LexError::UnescapedDollar(loc_at(t, i))) }
        // `${ .. }`: the slot's source text is kept verbatim, up to the brace matching its opening one
        else if i + 1 >= t.len() { Scan::Open }
        else if t[i + 1] != '{' { Scan::Bad(LexError::InvalidInterpolationStart(loc_at(t, i + 1), t[i + 1])) }
        else { match slot_close(t, i + 2, 1) {
            None => Scan::Open,
            Some(e) => if i + 2 <= e < t.len() { lift(t.subrange(i, e + 1), scan(t, e + 1, interp)) } else { Scan::Open },
        } }
    }
    else if t[i] == '\\' {
        if i + 1 >= t.len() { Scan::Open }
        else if t[i + 1] == 'x' {
            if i + 2 >= t.len() { Scan::Open } else {
                match hex_value(t[i + 2]) {
                    None => Scan::Bad(LexError::InvalidHexChar(loc_at(t, i + 2), t[i + 2])),
                    Some(a) => if i + 3 >= t.len() { Scan::Open } else {
                        match hex_value(t[i + 3]) {
                            None => Scan::Bad(LexError::InvalidHexChar(loc_at(t, i + 3), t[i + 3])),
                            Some(b) => lift(seq![((a * 16 + b) as u8) as char], scan(t, i + 4, interp)),
                        }
                    },
                }
            }
        } else {
            match esc_value(t[i + 1]) {
                Some(c) => lift(seq![c], scan(t, i + 2, interp)),
                None => Scan::Bad(LexError::InvalidEscapeChar(loc_at(t, i + 1), t[i + 1])),
            }
        }
    } else { lift(seq![t[i]], scan(t, i + 1, interp)) }
}
pub proof fn lemma_slot_close_bounds(t: Seq<char>, j: int, d: int)
    ensures slot_close(t, j, d) matches Some(e) ==> j <= e < t.len(),
    decreases t.len() - j
{
    if !(j < 0 || j >= t.len() || d <= 0) {
        let d2 = d + (if t[j] == '{' { 1int } else if t[j] == '}' { -1int } else { 0int });
        if d2 != 0 { lemma_slot_close_bounds(t, j + 1, d2); }
    }
}
pub proof fn lemma_lift_lift(p: Seq<char>, q: Seq<char>, s: Scan)
    ensures lift(p, lift(q, s)) == lift(p + q, s),
{
    match s { Scan::Closed(cs, e) => { assert(p + (q + cs) =~= (p + q) + cs); }, _ => {} }
}
pub open spec fn lit_start(t: Seq<char>, p0: int) -> int { if p0 < t.len() { p0 + 1 } else { p0 } }
pub open spec fn lit_scan(t: Seq<char>, p0: int, interp: bool) -> Scan { scan(t, lit_start(t, p0), interp) }
// where the decoding unit in progress started, given the scanner state
spec fn scan_inv(t: Seq<char>, start: int, pos: int, state: StrScanState, first_hex: Option<u8>, chars: Seq<char>, interp: bool,
                 cur_start: int, count: int) -> bool {
    match state {
        StrScanState::None => scan(t, start, interp) == lift(chars, scan(t, pos, interp)),
        StrScanState::Escape => pos >= 1 && t[pos - 1] == '\\' && scan(t, start, interp) == lift(chars, scan(t, pos - 1, interp)),
        StrScanState::Hex => match first_hex {
            None => pos >= 2 && t[pos - 2] == '\\' && t[pos - 1] == 'x' && scan(t, start, interp) == lift(chars, scan(t, pos - 2, interp)),
            Some(n) => pos >= 3 && t[pos - 3] == '\\' && t[pos - 2] == 'x' && hex_value(t[pos - 1]) == Some(n) && scan(t, start, interp) == lift(chars, scan(t, pos - 3, interp)),
        },
        // inside `${ .. }`: u is where the `$` sits in the source; everything since is copied verbatim
        StrScanState::Interpolate => ({
            let u = pos - (chars.len() - cur_start);
            &&& interp && 0 <= cur_start < chars.len() && start <= u < pos && t[u] == '$'
            &&& chars.subrange(cur_start, chars.len() as int) == t.subrange(u, pos)
            &&& scan(t, start, interp) == lift(chars.subrange(0, cur_start), scan(t, u, interp))
            &&& (pos == u + 1 ==> count == 0)
            &&& (pos > u + 1 ==> t[u + 1] == '{' && count >= 1 && slot_close(t, u + 2, 1) == slot_close(t, pos, count))
        }),
    }
}

// ---- what interpolate_string needs from the slots (its precondition in unit V-interp)
// nesting depth of braces over cs[from..to)
pub open spec fn depth(cs: Seq<char>, from: int, to: int) -> int
    decreases to - from
{
    if to <= from { 0 } else { depth(cs, from, to - 1) + (if cs[to - 1] == '{' { 1int } else if cs[to - 1] == '}' { -1int } else { 0int }) }
}
// depth only looks at cs[from..to)
pub proof fn lemma_depth_prefix(a: Seq<char>, b: Seq<char>, from: int, to: int)
    requires 0 <= from, to <= a.len(), to <= b.len(), forall|i: int| from <= i < to ==> a[i] == b[i],
    ensures depth(a, from, to) == depth(b, from, to),
    decreases to - from
{
    if to > from { lemma_depth_prefix(a, b, from, to - 1); }
}
pub proof fn lemma_depth_push(old_cs: Seq<char>, c: char, from: int)
    requires 0 <= from,
    ensures forall|j: int| from <= j <= old_cs.len() ==> #[trigger] depth(old_cs.push(c), from, j) == depth(old_cs, from, j),
{
    assert forall|j: int| from <= j <= old_cs.len() implies #[trigger] depth(old_cs.push(c), from, j) == depth(old_cs, from, j) by {
        lemma_depth_prefix(old_cs.push(c), old_cs, from, j);
    }
}
// slots already recorded are untouched by pushing another character
pub proof fn lemma_slots_push(old_cs: Seq<char>, c: char, slots: Seq<(usize, usize)>)
    requires slots_ok(old_cs, slots),
    ensures slots_ok(old_cs.push(c), slots),
{
    assert forall|k: int| 0 <= k < slots.len() implies slot_ok(old_cs.push(c), #[trigger] slots[k]) by {
        lemma_depth_push(old_cs, c, slots[k].0 + 1);
    }
}
pub open spec fn slot_ok(cs: Seq<char>, slot: (usize, usize)) -> bool {
    &&& slot.0 + 2 <= slot.1 - 1
    &&& slot.1 <= cs.len()
    &&& cs[slot.0 as int] == '$'
    &&& cs[slot.0 + 1] == '{'
    &&& cs[slot.1 - 1] == '}'
    // the slot ends at the brace that closes its opening `{`: braces inside the slot expression are balanced
    &&& depth(cs, slot.0 + 1, slot.1 as int) == 0
    &&& forall|j: int| slot.0 + 1 < j < slot.1 ==> #[trigger] depth(cs, slot.0 + 1, j) > 0
}
pub open spec fn slots_ok(cs: Seq<char>, slots: Seq<(usize, usize)>) -> bool {
    &&& forall|k: int| 0 <= k < slots.len() ==> slot_ok(cs, #[trigger] slots[k])
    &&& forall|k: int| 0 < k < slots.len() ==> slots[k - 1].1 <= (#[trigger] slots[k]).0
}
"""

SPEC = r"""
    requires
        0 <= old(self).scanner.pos() <= old(self).scanner.text().len(),
        old(self).scanner.text().len() < i32::MAX,   // the brace counter is an i32: inputs of 2^31 or more characters are outside the contract
    ensures
        r matches Ok(Token::InterpStrLiteral(s, slots)) ==> slots_ok(s@, slots@), // [C15_C02:every_recorded_interpolation_slot_delimits_a_dollar_brace_to_closing_brace_span_of_the_decoded_text_in_order]
        (r matches Ok(Token::StrLiteral(s))) ==> !interpolate,
        (r matches Ok(Token::InterpStrLiteral(s, slots))) ==> interpolate,
        r is Ok ==> (r matches Ok(Token::StrLiteral(s)) || r matches Ok(Token::InterpStrLiteral(s, slots))), // [C15:a_string_literal_lexes_to_a_string_token]
        (lit_scan(old(self).scanner.text(), old(self).scanner.pos(), interpolate) is Closed)
            ==> ((if interpolate { r matches Ok(Token::InterpStrLiteral(s, slots)) && s@ == lit_scan(old(self).scanner.text(), old(self).scanner.pos(), interpolate)->Closed_0 }
                  else { r matches Ok(Token::StrLiteral(s)) && s@ == lit_scan(old(self).scanner.text(), old(self).scanner.pos(), interpolate)->Closed_0 })
                 && final(self).scanner.pos() == lit_scan(old(self).scanner.text(), old(self).scanner.pos(), interpolate)->Closed_1 + 1), // [C09_C15:a_string_literal_denotes_exactly_its_characters_with_the_documented_escapes_decoded_slots_kept_verbatim_and_ends_at_its_closing_quote]
        (lit_scan(old(self).scanner.text(), old(self).scanner.pos(), interpolate) is Bad)
            ==> r == Err::<Token, LexError>(lit_scan(old(self).scanner.text(), old(self).scanner.pos(), interpolate)->Bad_0), // [C15_C18:an_invalid_escape_or_hex_digit_an_unescaped_dollar_or_a_malformed_slot_start_is_a_reported_error_at_the_position_of_that_character]
        final(self).scanner.text() == old(self).scanner.text(),
        0 <= final(self).scanner.pos() <= old(self).scanner.text().len(), // [C03:the_scanner_never_moves_past_the_end_of_the_input]
"""


def build(read):
    b = Built()
    src = read("src/lexer/mod.rs")
    f = extract.strip_comments(extract.extract_item(src, "fn", "next_str_literal"))
    b.copied.append(("fn", "next_str_literal", "src/lexer/mod.rs", extract.item_line(src, "fn", "next_str_literal")))
    tok = extract.strip_attributes(extract.strip_comments(extract.extract_item(src, "enum", "Token")))[0]
    lerr = extract.strip_attributes(extract.strip_comments(extract.extract_item(src, "enum", "LexError")))[0]
    st = extract.strip_comments(extract.extract_item(src, "enum", "StrScanState"))
    for k, n in [("enum", "Token"), ("enum", "LexError"), ("enum", "StrScanState")]:
        b.copied.append((k, n, "src/lexer/mod.rs", extract.item_line(src, k, n)))
    b.edits.append("D1: derive attributes on Token / LexError removed")
    f, k_hex = re.subn(r"u8::from_str_radix\(&c\.to_string\(\), 16\)", "hex_digit(c)", f)
    b.edits.append(f"D5: {k_hex}x `u8::from_str_radix(&c.to_string(), 16)` -> `hex_digit(c)` (std contract: value of one hexadecimal digit)")
    f = extract.rewrite_once(f, "let s = chars.into_iter().collect();", "let s = collect_string(chars);", "next_str_literal: collect")
    b.edits.append("D5: `chars.into_iter().collect()` -> `collect_string(chars)` (std contract: a String with exactly these characters)")
    for old, new in [("let mut chars = vec![];", "let mut chars: Vec<char> = vec![];"),
                     ("let mut cur_interpolation_start = 0;", "let mut cur_interpolation_start: usize = 0;"),
                     ("let mut interpolation_slots = vec![];", "let mut interpolation_slots: Vec<InterpSlot> = vec![];"),
                     ("let mut interpolation_brace_count = 0;", "let mut interpolation_brace_count: i32 = 0;"),
                     ("let mut first_hex_char = None;", "let mut first_hex_char: Option<u8> = None;")]:
        f = extract.rewrite_once(f, old, new, "next_str_literal: local type")
    b.edits.append("annotation: inferred types of five locals written out (needed to mention them in the invariant); "
                   "`interpolation_brace_count` is i32 by Rust's integer default")
    hdr, body = extract.fn_header_body(f)
    kinds = [k for k, _, _ in extract.find_loops(body)]
    if kinds != ["while"]:
        raise Undecided(f"next_str_literal: expected one while loop, found {kinds}")
    loops = {1: {"header": """            invariant
                self.scanner.text() == old(self).scanner.text(),
                self.scanner.text().len() < i32::MAX,
                0 <= interpolation_brace_count <= chars@.len(),
                0 <= self.scanner.pos() <= self.scanner.text().len(),
                chars@.len() <= self.scanner.pos(),
                lit_start(old(self).scanner.text(), old(self).scanner.pos()) + chars@.len() <= self.scanner.pos(),
                first_hex_char matches Some(x) ==> x < 16,
                !(state is Hex) ==> first_hex_char is None,
                slots_ok(chars@, interpolation_slots@),
                interpolation_slots@.len() > 0 ==> interpolation_slots@.last().1 <= (if state is Interpolate { cur_interpolation_start as int } else { chars@.len() as int }),
                state is Interpolate ==> cur_interpolation_start < chars@.len() && chars@[cur_interpolation_start as int] == '$'
                    && interpolate && interpolation_brace_count >= 0
                    && (interpolation_brace_count == 0 <==> cur_interpolation_start + 1 == chars@.len())
                    && interpolation_brace_count == depth(chars@, cur_interpolation_start + 1, chars@.len() as int)
                    && (forall|j: int| cur_interpolation_start + 1 < j <= chars@.len() ==> #[trigger] depth(chars@, cur_interpolation_start + 1, j) > 0)
                    && (cur_interpolation_start + 1 < chars@.len() ==> chars@[cur_interpolation_start + 1] == '{'),
                !interpolate ==> interpolation_slots@.len() == 0,
                scan_inv(self.scanner.text(), lit_start(old(self).scanner.text(), old(self).scanner.pos()), self.scanner.pos(), state, first_hex_char, chars@, interpolate, cur_interpolation_start as int, interpolation_brace_count as int), // [C09_C15:the_text_decoded_so_far_is_the_decoding_of_the_source_read_so_far]
                !(state is Interpolate) ==> interpolation_brace_count == 0,
            decreases self.scanner.text().len() - self.scanner.pos(), // [C03:scanning_a_string_literal_terminates_every_iteration_consumes_a_character]"""}}
    loops[1]["body_start"] = "let ghost slots0 = interpolation_slots@;"
    f = extract.annotate_fn(hdr + body, spec=SPEC, attrs="#[verifier::loop_isolation(false)]", loops=loops)
    # proof hints (ghost only): pushing a character leaves the brace depth of every prefix and the recorded slots untouched
    n = len(re.findall(r"chars\.push\(", f))
    f = re.sub(r"(\n)(\s*)(chars\.push\(([^;]*)\);)",
               r"\1\2let ghost __c0 = chars@;\n\2\3\n\2proof { lemma_depth_push(__c0, chars@.last(), cur_interpolation_start as int + 1); lemma_slots_push(__c0, chars@.last(), slots0); lemma_lift_lift(__c0, seq![chars@.last()], scan(self.scanner.text(), self.scanner.pos(), interpolate)); assert(__c0 + seq![chars@.last()] =~= chars@); if state is Interpolate { let st_ = cur_interpolation_start as int; let u_ = self.scanner.pos() - (chars@.len() - st_); assert(chars@.subrange(st_, chars@.len() as int) =~= self.scanner.text().subrange(u_, self.scanner.pos())); assert(chars@.subrange(0, st_) =~= __c0.subrange(0, st_)); if st_ == __c0.len() { assert(__c0.subrange(0, st_) =~= __c0); } } }", f)
    b.edits.append(f"annotation: a ghost snapshot and two lemma calls around each of the {n} `chars.push(..)` statements")
    # the push that ends a step inside a slot: connect the brace counter with the depth of the extended text
    marker = "if st_ == __c0.len() { assert(__c0.subrange(0, st_) =~= __c0); } } }"
    k = f.rfind(marker)
    if k < 0:
        raise Undecided("next_str_literal: hint site lost")
    extra = """
                    proof {
                        let st = cur_interpolation_start as int;
                        assert(chars@ == __c0.push(c));
                        assert(depth(chars@, st + 1, chars@.len() as int) == depth(chars@, st + 1, chars@.len() - 1) + (if c == '{' { 1int } else if c == '}' { -1int } else { 0int }));
                        assert(depth(chars@, st + 1, chars@.len() - 1) == depth(__c0, st + 1, __c0.len() as int));
                        assert(interpolation_brace_count == depth(chars@, st + 1, chars@.len() as int)); // [C15:the_brace_counter_is_the_nesting_depth_so_a_slot_ends_at_the_brace_matching_its_opening_one]
                        assert(slots_ok(chars@, slots0));
                        if interpolation_brace_count == 0 { assert(slot_ok(chars@, interpolation_slots@.last())); } // [C15_C02:a_recorded_slot_spans_dollar_brace_to_the_matching_closing_brace_of_the_decoded_text]
                        // the source side: the slot closes in the source exactly where the counter returns to zero
                        let tx = self.scanner.text();
                        let p1 = self.scanner.pos();
                        let u = p1 - (chars@.len() - st);
                        assert(chars@.subrange(st, chars@.len() as int) =~= tx.subrange(u, p1));
                        assert(chars@.subrange(0, st) =~= __c0.subrange(0, st));
                        if state is None {
                            assert(slot_close(tx, u + 2, 1) == Some(p1 - 1));
                            lemma_lift_lift(chars@.subrange(0, st), tx.subrange(u, p1), scan(tx, p1, interpolate));
                            assert(chars@ =~= chars@.subrange(0, st) + tx.subrange(u, p1));
                        }
                    }"""
    f = f[:k + len(marker)] + extra + f[k + len(marker):]
    b.text = assemble([
        "// GENERATED on every run by /verif/verus/str_lit.py from /repo's working tree - do not edit",
        MODEL,
        "// ---- verbatim from src/lexer/mod.rs", tok, lerr, st,
        "pub struct Lexer { pub scanner: Scanner, last_token: Option<Token> }",
        "// ---- function under contract (verbatim body; contract text inserted at anchors)",
        "impl Lexer {\n" + f + "\n}",
        parts.FOOTER,
    ])
    return b


def replays(failed):
    def exp(out=None, err=None):
        def judge(rc, o, e):
            if rc not in (0, 103):
                return f"interpreter crashed (exit {rc})"
            if out is not None and (rc != 0 or o != out):
                return f"expected stdout {out!r}"
            if err is not None and (rc != 103 or err not in e.splitlines()[0]):
                return f"expected a first stderr line containing {err!r}"
            return None
        return judge
    bs = chr(92)
    yield ("hex, dollar, backslash and quote escapes", 'print("' + bs + 'x41' + bs + '$' + bs + bs + bs + '"")\n', exp("A$" + bs + '"\n'))
    yield ("\\r is CR and \\n is LF", 'print("a' + bs + 'rb" == "a' + bs + 'x0db")\nprint("a' + bs + 'nb" == "a' + bs + 'x0ab")\nprint("' + bs + 'r" == "' + bs + 'n")\n',
           exp("true\ntrue\nfalse\n"))
    yield ("hex escapes are base 16", 'print("' + bs + 'x4a" == "J")\n', exp("true\n"))
    yield ("escapes in an interpolated literal without slots are decoded the same way", 'print($"a' + bs + 'rb' + bs + 'x4A' + bs + '$" == "a' + bs + 'x0dbJ' + bs + '$")\n', exp("true\n"))
    yield ("a slot may contain a nested interpolated string and an escaped dollar", 'name := "x"\nprint($"hi ${$"<${name}>"}!")\nprint($"${"' + bs + '$" + name}")\n', exp("hi <x>!\n$x\n"))
    yield ("a slot must start with a brace", 'print($"a$b")\n', exp(err=":1:11: interpolation slots start with"))
    yield ("hex digits may be upper case", 'print("' + bs + 'x4A' + bs + 'x7E" == "J~")\n', exp("true\n"))
    yield ("an unknown escape is an error at that character", 'print("' + bs + 't")\n', exp(err=":1:9: 't' is not a valid escape character"))
    yield ("an invalid hex digit is an error at that character", 'print("' + bs + 'x4g")\n', exp(err=":1:11: 'g' is not a valid hex character"))
    yield ("an unescaped dollar in a plain string is an error at that character", 'print("a$b")\n', exp(err=":1:9:"))
    import interp
    for x in interp.replays(failed):
        yield x
