"""V-ctl: control-flow plumbing of the statement evaluator (C07; located-ness clauses for C17).

Functions under contract, copied verbatim from /repo/src/eval/mod.rs on every run:
    eval_stmts_with_scope_stack, eval_stmt, eval_prog
Everything they call is external with an *uninterpreted deterministic* contract
(r, world') == sem_f(world, args): the proof holds for every behaviour of the callees."""
import re

import extract
import parts
from verus_engine import (Built, gen_clone_impls, parse_enum_variants, gen_selectors, SELECTOR_PRELUDE,
                          desugar_for, assemble)
from common import Undecided

NAME = "ctl"
RLIMIT = 80
TIMEOUT = 900

AST_CLONE = ["Prog", "Stmt", "Branch", "RawExpr", "BinaryOp", "ListItem", "PropItem"]

PRELUDE = r"""
use vstd::prelude::*;
use vstd::std_specs::iter::IteratorSpec;
use std::collections::HashSet;
use std::string::FromUtf8Error;
use std::num::TryFromIntError;
verus! {

// ---- D3: opaque types (fields these functions never touch) -------------------------------
#[verifier::external_type_specification]
#[verifier::external_body]
pub struct ExFromUtf8Error(FromUtf8Error);

#[verifier::external_body]
pub struct EvaluationContext { _p: () }
#[verifier::external_body]
pub struct ScopeStack { _p: () }
/*VALUE_ITEMS*/
pub type Result<T> = std::result::Result<T, Error>;

// The abstract world: everything an evaluation step can read or change (heap cells, scope
// chain).  Only uninterpreted functions observe it, so every proof below holds for *every*
// behaviour of the callees.
pub struct W { pub id: int }
impl ScopeStack {
    pub uninterp spec fn world(&self) -> W;
}
impl Clone for ScopeStack {
    #[verifier::external_body]
    fn clone(&self) -> (r: Self) ensures r.world() == self.world() { unimplemented!() }
}
// D5: `.clone()` on the tuple alias `Expr` (Verus: "built-in instance Misc")
#[verifier::external_body]
pub fn clone_expr(e: &Expr) -> (r: Expr) ensures r == *e { unimplemented!() }
#[verifier::external_body]
pub fn clone_exprs(e: &Vec<Expr>) -> (r: Vec<Expr>) ensures r@ == e@ { unimplemented!() }
// D5: iterator-adapter expression of eval_prog (attaches location (0,0) to the global bindings)
#[verifier::external_body]
pub fn locate_global_bindings(g: Vec<(RawExpr, SourcedValue)>) -> (r: Vec<(Expr, SourcedValue)>)
    ensures r@ == sem_global_bindings(g@)
{ unimplemented!() }
pub uninterp spec fn sem_global_bindings(g: Seq<(RawExpr, SourcedValue)>) -> Seq<(Expr, SourcedValue)>;
"""

CALLEES = r"""
// ---- D2: callees outside the unit: same signature, uninterpreted deterministic contract ----
pub uninterp spec fn sem_expr(w: W, e: Expr) -> (Result<SourcedValue>, W);
pub uninterp spec fn sem_bool(w: W, e: Expr) -> (Result<bool>, W);
pub uninterp spec fn sem_scoped(w: W, b: Seq<(Expr, SourcedValue)>, stmts: Block) -> (Result<Escape>, W);
pub uninterp spec fn sem_bind(w: W, lhs: Expr, rhs: SourcedValue, op: Option<(BinaryOp, Location)>, bt: BindType) -> (Result<()>, W);
pub uninterp spec fn sem_bind_name(w: W, name: Seq<char>, loc: Location, rhs: SourcedValue, bt: BindType) -> (Result<()>, W);
pub uninterp spec fn sem_validate(args: Seq<Expr>) -> Result<()>;
pub uninterp spec fn sem_pairs(v: Value) -> Result<Vec<(SourcedValue, SourcedValue)>>;
pub uninterp spec fn sem_new_list(items: Seq<SourcedValue>) -> SourcedValue;
pub uninterp spec fn sem_new_func(name: Option<String>, args: Seq<Expr>, collect_args: bool, stmts: Seq<Stmt>, closure: W) -> SourcedValue;

pub mod bind {
    use super::*;
    #[verifier::external_body]
    pub fn bind(context: &EvaluationContext, scopes: &mut ScopeStack, lhs: &Expr, rhs: SourcedValue, bind_type: BindType) -> (r: Result<()>)
        ensures (r, final(scopes).world()) == sem_bind(old(scopes).world(), *lhs, rhs, None, bind_type),
                r matches Err(e) ==> located(e),
    { unimplemented!() }
    #[verifier::external_body]
    pub fn bind_next(context: &EvaluationContext, scopes: &mut ScopeStack, names_in_binding: &mut HashSet<String>, lhs: &Expr, rhs: SourcedValue, op: Option<(BinaryOp, Location)>, bind_type: BindType) -> (r: Result<()>)
        ensures (r, final(scopes).world()) == sem_bind(old(scopes).world(), *lhs, rhs, op, bind_type),
                r matches Err(e) ==> located(e),
    { unimplemented!() }
    #[verifier::external_body]
    pub fn bind_name(scopes: &mut ScopeStack, name: &str, name_loc: &(usize, usize), rhs: SourcedValue, bind_type: BindType) -> (r: Result<()>)
        ensures (r, final(scopes).world()) == sem_bind_name(old(scopes).world(), name@, *name_loc, rhs, bind_type),
                r matches Err(e) ==> located(e),
    { unimplemented!() }
}
pub mod value {
    use super::*;
    #[verifier::external_body]
    pub fn new_list(list: Vec<SourcedValue>) -> (r: SourcedValue)
        ensures r == sem_new_list(list@)
    { unimplemented!() }
    #[verifier::external_body]
    pub fn new_func(name: Option<String>, args: Vec<Expr>, collect_args: bool, stmts: Block, closure: ScopeStack) -> (r: SourcedValue)
        ensures r == sem_new_func(name, args@, collect_args, stmts@, closure.world())
    { unimplemented!() }
}
#[verifier::external_body]
fn eval_expr(context: &EvaluationContext, scopes: &mut ScopeStack, expr: &Expr) -> (r: Result<SourcedValue>)
    ensures (r, final(scopes).world()) == sem_expr(old(scopes).world(), *expr),
            r matches Err(e) ==> located(e),
{ unimplemented!() }
#[verifier::external_body]
fn eval_expr_to_bool(context: &EvaluationContext, scopes: &mut ScopeStack, descr: &str, expr: &Expr) -> (r: Result<bool>)
    ensures (r, final(scopes).world()) == sem_bool(old(scopes).world(), *expr),
            r matches Err(e) ==> located(e),
{ unimplemented!() }
#[verifier::external_body]
pub fn eval_stmts(context: &EvaluationContext, scopes: &mut ScopeStack, new_bindings: Vec<(Expr, SourcedValue)>, stmts: &Block) -> (r: Result<Escape>)
    ensures (r, final(scopes).world()) == sem_scoped(old(scopes).world(), new_bindings@, *stmts),
            r matches Err(e) ==> located(e),
{ unimplemented!() }
#[verifier::external_body]
pub fn eval_stmts_in_new_scope(context: &EvaluationContext, outer_scopes: &mut ScopeStack, stmts: &Block) -> (r: Result<Escape>)
    ensures (r, final(outer_scopes).world()) == sem_scoped(old(outer_scopes).world(), Seq::empty(), *stmts),
            r matches Err(e) ==> located(e),
{ unimplemented!() }
#[verifier::external_body]
fn validate_args(args: &[Expr]) -> (r: Result<()>)
    ensures r == sem_validate(args@),
            r matches Err(e) ==> located(e),
{ unimplemented!() }
// value_to_pairs is itself under a Kani contract (unit c07_value_to_pairs_*); here: a function of
// the iterable's value at the time of the (single) call.
#[verifier::external_body]
fn value_to_pairs(v: &Value) -> (r: Result<Vec<(SourcedValue, SourcedValue)>>)
    ensures r == sem_pairs(*v),
{ unimplemented!() }
"""

SPEC = r"""
// =========================================================================================
// The control-flow reading of the property statement (C07), as spec functions.
// Outcome of a statement: None = failed with a diagnostic, Some(escape) otherwise.
// =========================================================================================
// "a `for` over a non-iterable is a reported error" - at the iterator expression (not at the loop target, not at the keyword)
pub open spec fn for_iter_error_at(w: W, stmt: Stmt, r: Result<Escape>) -> bool {
    match stmt {
        Stmt::For{lhs, iter, stmts} => match sem_expr(w, iter).0 {
            Ok(iv) => sem_pairs(iv.v) is Err ==> (r matches Err(e) && (e matches Error::AtLoc{source, line, col} && line == iter.1.0 && col == iter.1.1)),
            Err(_) => true,
        },
        _ => true,
    }
}
pub open spec fn out(r: Result<Escape>) -> Option<Escape> {
    match r { Ok(e) => Some(e), Err(_) => None }
}
pub open spec fn done<T>(r: Result<T>) -> Option<Escape> {
    match r { Ok(_) => Some(Escape::None), Err(_) => None }
}

// a block / branch body / loop body run in a fresh scope: whatever the inner sequence signals is
// what the construct sees
pub open spec fn run_block(w: W, b: Block) -> (Option<Escape>, W) {
    let (r, w1) = sem_scoped(w, Seq::empty(), b);
    (out(r), w1)
}

// if / else-if / else: conditions in order on successive states; exactly the first true branch
// (or the else) runs, and its signal is the statement's signal
pub open spec fn spec_if(w: W, branches: Seq<Branch>, else_stmts: Option<Block>, i: int) -> (Option<Escape>, W)
    decreases branches.len() - i
{
    if i < 0 || i >= branches.len() {
        match else_stmts {
            Some(b) => run_block(w, b),
            None => (Some(Escape::None), w),
        }
    } else {
        let (c, w1) = sem_bool(w, branches[i].cond);
        match c {
            Err(_) => (None, w1),
            Ok(true) => run_block(w1, branches[i].stmts),
            Ok(false) => spec_if(w1, branches, else_stmts, i + 1),
        }
    }
}

// one trip through `while`: condition first, then the body
pub enum Trip { Again(W), Stop(Option<Escape>, W) }

pub open spec fn while_trip(w: W, cond: Expr, body: Block) -> Trip {
    let (c, w1) = sem_bool(w, cond);
    match c {
        Err(_) => Trip::Stop(None, w1),
        Ok(false) => Trip::Stop(Some(Escape::None), w1),
        Ok(true) => {
            let (r, w2) = sem_scoped(w1, Seq::empty(), body);
            match r {
                Err(_) => Trip::Stop(None, w2),
                Ok(Escape::None) => Trip::Again(w2),
                Ok(Escape::Continue{loc}) => Trip::Again(w2),
                Ok(Escape::Break{loc}) => Trip::Stop(Some(Escape::None), w2),
                Ok(Escape::Return{value, loc}) => Trip::Stop(Some(Escape::Return{value, loc}), w2),
            }
        },
    }
}
// state after k complete trips (None: the loop had already stopped)
pub open spec fn while_prefix(w: W, cond: Expr, body: Block, k: nat) -> Option<W>
    decreases k
{
    if k == 0 { Some(w) } else {
        match while_prefix(w, cond, body, (k - 1) as nat) {
            Some(c) => match while_trip(c, cond, body) { Trip::Again(n) => Some(n), Trip::Stop(_, _) => None },
            None => None,
        }
    }
}
pub open spec fn while_stops_at(w: W, cond: Expr, body: Block, k: nat) -> bool {
    while_prefix(w, cond, body, k) is Some
    && while_trip(while_prefix(w, cond, body, k)->0, cond, body) is Stop
}
pub open spec fn spec_while(w: W, cond: Expr, body: Block) -> (Option<Escape>, W) {
    let k = choose|k: nat| while_stops_at(w, cond, body, k);
    match while_trip(while_prefix(w, cond, body, k)->0, cond, body) {
        Trip::Stop(o, w1) => (o, w1),
        Trip::Again(w1) => (None, w1),
    }
}
proof fn lemma_while_prefix_closed(w: W, cond: Expr, body: Block, k: nat, j: nat)
    requires while_prefix(w, cond, body, k) is Some, j <= k,
    ensures while_prefix(w, cond, body, j) is Some,
    decreases k
{
    if j < k {
        lemma_while_prefix_closed(w, cond, body, (k - 1) as nat, j);
    }
}
proof fn lemma_while_unique(w: W, cond: Expr, body: Block, k1: nat, k2: nat)
    requires while_stops_at(w, cond, body, k1), while_stops_at(w, cond, body, k2),
    ensures k1 == k2,
{
    if k1 < k2 {
        lemma_while_prefix_closed(w, cond, body, k2, k1 + 1);
    } else if k2 < k1 {
        lemma_while_prefix_closed(w, cond, body, k1, k2 + 1);
    }
}
proof fn lemma_while_result(w: W, cond: Expr, body: Block, k: nat)
    requires while_stops_at(w, cond, body, k),
    ensures spec_while(w, cond, body) == (match while_trip(while_prefix(w, cond, body, k)->0, cond, body) {
        Trip::Stop(o, w1) => (o, w1),
        Trip::Again(w1) => (None, w1),
    }),
{
    let k2 = choose|k2: nat| while_stops_at(w, cond, body, k2);
    lemma_while_unique(w, cond, body, k, k2);
}

proof fn lemma_while_stop_here(w: W, cond: Expr, body: Block, k: nat)
    requires while_prefix(w, cond, body, k) is Some,
    ensures while_trip(while_prefix(w, cond, body, k)->0, cond, body) matches Trip::Stop(o, w1)
                ==> spec_while(w, cond, body) == (o, w1),
{
    if while_trip(while_prefix(w, cond, body, k)->0, cond, body) is Stop {
        lemma_while_result(w, cond, body, k);
    }
}

// `for`: the pairs are fixed before the first iteration; visited in index order, each body run
// with the binding  target := [key, value]
pub open spec fn spec_for(w: W, lhs: Expr, pairs: Seq<(SourcedValue, SourcedValue)>, body: Block, i: int) -> (Option<Escape>, W)
    decreases pairs.len() - i
{
    if i < 0 || i >= pairs.len() { (Some(Escape::None), w) } else {
        let pair = sem_new_list(seq![pairs[i].0, pairs[i].1]);
        let (r, w1) = sem_scoped(w, seq![(lhs, pair)], body);
        match r {
            Err(_) => (None, w1),
            Ok(Escape::None) => spec_for(w1, lhs, pairs, body, i + 1),
            Ok(Escape::Continue{loc}) => spec_for(w1, lhs, pairs, body, i + 1),
            Ok(Escape::Break{loc}) => (Some(Escape::None), w1),
            Ok(Escape::Return{value, loc}) => (Some(Escape::Return{value, loc}), w1),
        }
    }
}

pub open spec fn spec_stmt(w: W, s: Stmt) -> (Option<Escape>, W) {
    match s {
        Stmt::Block{block} => run_block(w, block),
        Stmt::Expr{expr} => { let (r, w1) = sem_expr(w, expr); (done(r), w1) },
        Stmt::Declare{lhs, rhs} => {
            let (r, w1) = sem_expr(w, rhs);
            match r {
                Err(_) => (None, w1),
                Ok(v) => { let (b, w2) = sem_bind(w1, lhs, v, None, BindType::Declaration); (done(b), w2) },
            }
        },
        Stmt::Assign{lhs, rhs} => {
            let (r, w1) = sem_expr(w, rhs);
            match r {
                Err(_) => (None, w1),
                Ok(v) => { let (b, w2) = sem_bind(w1, lhs, v, None, BindType::Assignment); (done(b), w2) },
            }
        },
        Stmt::OpAssign{lhs, op, op_loc, rhs} => {
            let (r, w1) = sem_expr(w, rhs);
            match r {
                Err(_) => (None, w1),
                Ok(v) => { let (b, w2) = sem_bind(w1, lhs, v, Some((op, op_loc)), BindType::Assignment); (done(b), w2) },
            }
        },
        Stmt::If{branches, else_stmts} => spec_if(w, branches@, else_stmts, 0),
        Stmt::While{cond, stmts} => spec_while(w, cond, stmts),
        Stmt::For{lhs, iter, stmts} => {
            let (r, w1) = sem_expr(w, iter);
            match r {
                Err(_) => (None, w1),
                Ok(iv) => match sem_pairs(iv.v) {
                    Err(_) => (None, w1),
                    Ok(pairs) => spec_for(w1, lhs, pairs@, stmts, 0),
                },
            }
        },
        Stmt::Break{loc} => (Some(Escape::Break{loc}), w),
        Stmt::Continue{loc} => (Some(Escape::Continue{loc}), w),
        Stmt::Func{name, args, collect_args, stmts} => {
            match sem_validate(args@) {
                Err(_) => (None, w),
                Ok(_) => {
                    let f = sem_new_func(Some(name.0), args@, collect_args, stmts@, w);
                    let (b, w1) = sem_bind_name(w, name.0@, name.1, f, BindType::Declaration);
                    (done(b), w1)
                },
            }
        },
        Stmt::Return{loc, expr} => {
            let (r, w1) = sem_expr(w, expr);
            match r {
                Err(_) => (None, w1),
                Ok(v) => (Some(Escape::Return{value: v, loc}), w1),
            }
        },
    }
}

// a statement sequence: statements run in order; the first signal other than None (or the first
// failure) ends the sequence and no later statement runs
pub open spec fn spec_stmts(w: W, stmts: Seq<Stmt>, i: int) -> (Option<Escape>, W)
    decreases stmts.len() - i
{
    if i < 0 || i >= stmts.len() { (Some(Escape::None), w) } else {
        let (o, w1) = spec_stmt(w, stmts[i]);
        match o {
            Some(Escape::None) => spec_stmts(w1, stmts, i + 1),
            _ => (o, w1),
        }
    }
}

// program boundary: any signal that reaches it is an error at the keyword's own position
pub open spec fn prog_error(esc: Escape) -> Error {
    match esc {
        Escape::Break{loc} => Error::AtLoc{source: Box::new(Error::BreakOutsideLoop), line: loc.0, col: loc.1},
        Escape::Continue{loc} => Error::AtLoc{source: Box::new(Error::ContinueOutsideLoop), line: loc.0, col: loc.1},
        Escape::Return{value, loc} => Error::AtLoc{source: Box::new(Error::ReturnOutsideFunction), line: loc.0, col: loc.1},
        Escape::None => arbitrary(),
    }
}
"""


LEMMAS = r"""
// =========================================================================================
// L-escape: consequences of the unit contracts for ANY nesting depth (lemmas over contracts).
// Hypothesis h_scoped is exactly  V-scoped.ensures (a block runs its sequence in a pushed scope
// and forwards its signal)  composed with  V-ctl.ensures of eval_stmts_with_scope_stack.
// =========================================================================================
pub uninterp spec fn pushed(w: W) -> W;
pub open spec fn h_scoped() -> bool {
    forall|w: W, b: Block| out(#[trigger] sem_scoped(w, Seq::empty(), b).0) == spec_stmts(pushed(w), b@, 0).0
}
// `s` is `inner` wrapped in n bare blocks (each holding exactly that one statement)
pub open spec fn wraps(s: Stmt, inner: Stmt, n: nat) -> bool
    decreases n
{
    if n == 0 { s == inner } else {
        s matches Stmt::Block{block} && block@.len() == 1 && wraps(block@[0], inner, (n - 1) as nat)
    }
}
pub open spec fn push_n(w: W, n: nat) -> W
    decreases n
{
    if n == 0 { w } else { push_n(pushed(w), (n - 1) as nat) }
}
proof fn lemma_singleton_sequence(w: W, b: Seq<Stmt>)
    requires b.len() == 1,
    ensures spec_stmts(w, b, 0).0 == spec_stmt(w, b[0]).0,
{
    let (o, w1) = spec_stmt(w, b[0]);
    assert(spec_stmts(w1, b, 1) == (Some(Escape::None), w1));
}
// L-escape.1  whatever a statement signals (break / continue / return v / nothing / failure) is
// what it signals from inside any number of enclosing bare blocks
pub proof fn lemma_signal_crosses_blocks(w: W, s: Stmt, inner: Stmt, n: nat)
    requires h_scoped(), wraps(s, inner, n),
    ensures spec_stmt(w, s).0 == spec_stmt(push_n(w, n), inner).0,
    decreases n
{
    if n > 0 {
        match s {
            Stmt::Block{block} => {
                assert(spec_stmt(w, s).0 == out(sem_scoped(w, Seq::empty(), block).0));
                lemma_singleton_sequence(pushed(w), block@);
                lemma_signal_crosses_blocks(pushed(w), block@[0], inner, (n - 1) as nat);
            },
            _ => {},
        }
    }
}
// L-escape.2  a `break` that reaches the body of a `while` stops exactly that loop: the loop
// statement itself signals nothing, so the enclosing sequence goes on with its next statement
pub proof fn lemma_break_stops_innermost_while(w: W, cond: Expr, body: Block, k: nat)
    requires
        while_prefix(w, cond, body, k) is Some,
        ({
            let c = while_prefix(w, cond, body, k)->0;
            let (b, w1) = sem_bool(c, cond);
            b == Ok::<bool, Error>(true) && (sem_scoped(w1, Seq::empty(), body).0 matches Ok(Escape::Break{loc}))
        }),
    ensures
        spec_while(w, cond, body).0 == Some(Escape::None),
{
    lemma_while_stop_here(w, cond, body, k);
}
// L-escape.3  a `return v` that reaches the body of a loop leaves the loop unchanged (same value),
// to be consumed only by the call boundary (unit V-call)
pub proof fn lemma_return_crosses_while(w: W, cond: Expr, body: Block, k: nat, value: SourcedValue, loc: Location)
    requires
        while_prefix(w, cond, body, k) is Some,
        ({
            let c = while_prefix(w, cond, body, k)->0;
            let (b, w1) = sem_bool(c, cond);
            b == Ok::<bool, Error>(true) && sem_scoped(w1, Seq::empty(), body).0 == Ok::<Escape, Error>(Escape::Return{value, loc})
        }),
    ensures
        spec_while(w, cond, body).0 == Some(Escape::Return{value, loc}),
{
    lemma_while_stop_here(w, cond, body, k);
}
// L-escape.4  in a sequence, the first statement that signals ends the sequence with that signal
pub proof fn lemma_first_signal_wins(w: W, stmts: Seq<Stmt>, i: int)
    requires 0 <= i < stmts.len(), !(spec_stmt(w, stmts[i]).0 == Some(Escape::None)),
    ensures spec_stmts(w, stmts, i) == spec_stmt(w, stmts[i]),
{
}
"""


def located_spec(variants):
    """C17: `located(e)`: e is AtLoc, or a context wrapper (any variant carrying `source: Box<Error>`)
    around a located error.  Generated from the extracted enum on every run."""
    arms = []
    for name, fields in variants:
        f = dict(fields)
        if name == "AtLoc":
            arms.append("        Error::AtLoc{..} => true,")
        elif f.get("source") == "Box<Error>":
            arms.append(f"        Error::{name}{{source, ..}} => located(*source),")
    arms.append("        _ => false,")
    return ("pub open spec fn located(e: Error) -> bool\n    decreases e\n{\n    match e {\n"
            + "\n".join(arms) + "\n    }\n}\n")


SPEC_STMTS = r"""
    ensures
        (out(r), final(scopes).world()) == spec_stmts(old(scopes).world(), stmts@, 0), // [C07:sequence_stops_at_first_signal_and_runs_nothing_after_it]
        r matches Err(e) ==> located(e), // [C17:sequence_errors_are_located]
"""

LOOP_STMTS = {
    "before": "let ghost w0 = scopes.world();\nlet ghost mut i: int = 0;",
    "header": """    invariant
        0 <= i <= stmts@.len(),
        __it.remaining() == stmts@.map_values(|s: Stmt| &s).subrange(i, stmts@.len() as int),
        spec_stmts(w0, stmts@, 0) == spec_stmts(scopes.world(), stmts@, i),
    ensures
        spec_stmts(w0, stmts@, 0) == (Some(Escape::None), scopes.world()),
    decreases stmts@.len() - i""",
}

SPEC_STMT = r"""
    ensures
        stmt is Block ==> (out(r), final(scopes).world()) == spec_stmt(old(scopes).world(), *stmt), // [C07_C20:bare_block_runs_in_its_own_fresh_scope_and_forwards_the_signal_of_its_body]
        stmt is If ==> (out(r), final(scopes).world()) == spec_stmt(old(scopes).world(), *stmt), // [C07_C16_C20:if_chain_runs_exactly_the_first_true_branch_or_else_each_in_its_own_fresh_scope_conditions_are_checked_to_be_bool_and_it_forwards_its_signal]
        stmt is While ==> (out(r), final(scopes).world()) == spec_stmt(old(scopes).world(), *stmt), // [C07_C16:while_rechecks_condition_each_trip_the_condition_is_checked_to_be_bool_and_break_continue_return_reach_their_target]
        stmt is For ==> (out(r), final(scopes).world()) == spec_stmt(old(scopes).world(), *stmt), // [C07_C16_C20:for_walks_the_entry_snapshot_in_order_binds_its_target_on_every_trip_and_break_continue_return_reach_their_target]
        (stmt is Break || stmt is Continue || stmt is Return) ==> (out(r), final(scopes).world()) == spec_stmt(old(scopes).world(), *stmt), // [C07:break_continue_return_signal_with_their_own_position_and_value]
        (stmt is Expr || stmt is Declare || stmt is Assign || stmt is OpAssign) ==> (out(r), final(scopes).world()) == spec_stmt(old(scopes).world(), *stmt), // [C07_C20:simple_statement_completes_or_fails_and_never_signals_and_a_declaration_or_assignment_always_goes_through_the_binder]
        stmt is Func ==> (out(r), final(scopes).world()) == spec_stmt(old(scopes).world(), *stmt), // [C07_C13_C20:a_function_declaration_validates_all_its_parameters_then_declares_the_name_and_never_signals]
        (out(r), final(scopes).world()) == spec_stmt(old(scopes).world(), *stmt), // [C07:statement_signal_is_the_documented_one]
        for_iter_error_at(old(scopes).world(), *stmt, r), // [C16_C17_C18:a_for_over_a_non_iterable_is_reported_at_the_iterator_expression]
        r matches Err(e) ==> located(e), // [C17:statement_errors_are_located]
"""

SPEC_PROG = r"""
    ensures
        ({
            let (res, w1) = sem_scoped(old(scopes).world(), sem_global_bindings(global_bindings@), prog->stmts);
            &&& final(scopes).world() == w1
            &&& (res matches Ok(Escape::None) ==> r is Ok) // [C07:program_without_stray_signal_succeeds]
            &&& (res matches Ok(esc) ==> (!(esc is None) ==> r == Err::<(), Error>(prog_error(esc)))) // [C07:stray_break_continue_return_is_reported_at_its_keyword]
            &&& (res is Err ==> r is Err) // [C07:program_failure_is_reported]
        }),
        r matches Err(e) ==> located(e), // [C17:program_errors_are_located]
"""


def build(read):
    b = Built()
    ast_src = read("src/ast.rs")
    err_src = read("src/eval/error.rs")
    bind_src = read("src/eval/bind.rs")
    mod_src = read("src/eval/mod.rs")

    # ---- verbatim items
    ast_items = []
    for kind, name in [("enum", "Prog"), ("type", "Block"), ("enum", "Stmt"), ("struct", "Branch"),
                       ("type", "Location"), ("type", "Expr"), ("enum", "RawExpr"), ("enum", "BinaryOp"),
                       ("struct", "ListItem"), ("enum", "PropItem")]:
        t = extract.extract_item(ast_src, kind, name)
        b.copied.append((kind, name, "src/ast.rs", extract.item_line(ast_src, kind, name)))
        ast_items.append(extract.strip_comments(t))
    err_enum = extract.extract_item(err_src, "enum", "Error")
    b.copied.append(("enum", "Error", "src/eval/error.rs", extract.item_line(err_src, "enum", "Error")))
    err_enum, n_attr = extract.strip_attributes(extract.strip_comments(err_enum))
    b.edits.append(f"D1: {n_attr} #[snafu(..)] attributes removed from enum Error; #[derive(Clone, Debug, Snafu)] dropped")
    variants = parse_enum_variants(err_enum)
    bind_type = extract.extract_item(bind_src, "enum", "BindType")
    b.copied.append(("enum", "BindType", "src/eval/bind.rs", extract.item_line(bind_src, "enum", "BindType")))
    escape = extract.extract_item(mod_src, "enum", "Escape")
    b.copied.append(("enum", "Escape", "src/eval/mod.rs", extract.item_line(mod_src, "enum", "Escape")))

    fns = {}
    for name in ["eval_prog", "eval_stmts_with_scope_stack", "eval_stmt"]:
        fns[name] = extract.strip_comments(extract.extract_item(mod_src, "fn", name))
        b.copied.append(("fn", name, "src/eval/mod.rs", extract.item_line(mod_src, "fn", name)))
    b.edits.append("D1: derive attributes on AST types replaced by assumed structural Clone impls (" + ", ".join(AST_CLONE) + ")")

    # ---- selectors used by the three functions
    sels = sorted(set(re.findall(r"\.context\(\s*([A-Za-z0-9_]+)", "".join(fns.values()))))
    selectors = gen_selectors(variants, sels)
    b.edits.append(f"D4: {len(sels)} snafu context selectors generated from enum Error: {', '.join(sels)}")

    # ---- eval_prog: two site rewrites
    f = fns["eval_prog"]
    f = extract.rewrite_once(f, "    Prog::Body{stmts}: &Prog,\n", "    prog: &Prog,\n", "eval_prog: pattern parameter")
    hdr, body = extract.fn_header_body(f)
    old = """    let bindings =
        global_bindings
            .into_iter()
            .map(|(raw_expr, v)| ((raw_expr, (0, 0)), v))
            .collect();
"""
    body = extract.rewrite_once(body, old, "    let bindings = locate_global_bindings(global_bindings);\n",
                                "eval_prog: iterator adapter")
    body = "{\n    let Prog::Body{stmts} = prog;" + body[1:]
    f = hdr + body
    b.edits.append("D5: eval_prog: pattern parameter `Prog::Body{stmts}: &Prog` -> `prog: &Prog` + `let Prog::Body{stmts} = prog;`")
    b.edits.append("D5: eval_prog: `global_bindings.into_iter().map(..).collect()` -> external `locate_global_bindings` (dropped from verified text)")
    b.dropped.append("eval_prog: the iterator-adapter expression attaching (0,0) to global bindings")
    fns["eval_prog"] = extract.annotate_fn(f, spec=SPEC_PROG)

    # ---- eval_stmts_with_scope_stack: the `for` is desugared (ghost position needed)
    f = fns["eval_stmts_with_scope_stack"]
    hdr, body = extract.fn_header_body(f)
    body = desugar_for(body, 1)
    b.edits.append("D5: eval_stmts_with_scope_stack: `for stmt in stmts` -> Rust's own desugaring (into_iter/loop/match next)")
    loops = {1: dict(LOOP_STMTS)}
    loops[1]["body_start_after_first_stmt"] = True
    f = extract.annotate_fn(hdr + body, spec=SPEC_STMTS, attrs="#[verifier::exec_allows_no_decreases_clause]\n#[verifier::loop_isolation(false)]\n#[verifier::allow_complex_invariants]", loops={1: {"before": LOOP_STMTS["before"], "header": LOOP_STMTS["header"]}})
    # ghost position update: right after the element has been taken
    f = extract.rewrite_once(f, "Some(__x) => __x, None => break };\n",
                             "Some(__x) => __x, None => break };\n proof { i = i + 1; }\n", "stmts loop: ghost index")
    fns["eval_stmts_with_scope_stack"] = f

    # ---- eval_stmt
    f = fns["eval_stmt"]
    f = extract.rewrite_once(f, "vec![(lhs.clone(), pair)]", "vec![(clone_expr(lhs), pair)]", "eval_stmt: Expr clone")
    b.edits.append("D5: eval_stmt (For arm): `lhs.clone()` on the tuple alias Expr -> `clone_expr(lhs)` (assumed structural)")
    f = extract.rewrite_once(f, "                args.clone(),\n", "                clone_exprs(args),\n", "eval_stmt: Vec<Expr> clone")
    b.edits.append("D5: eval_stmt (Func arm): `args.clone()` on Vec<Expr> (tuple alias elements) -> `clone_exprs(args)` (assumed structural)")
    hdr, body = extract.fn_header_body(f)
    found = extract.find_loops(body)
    kinds = [k for k, _, _ in found]
    if kinds != ["for", "loop", "for"]:
        raise Undecided(f"eval_stmt: expected loops [for(If), loop(While), for(For)], found {kinds}")
    body = desugar_for(body, 3, "__itf")
    body = desugar_for(body, 1, "__itb")
    b.edits.append("D5: eval_stmt: the two `for` loops (If branches, For pairs) -> Rust's own desugaring")
    loops = {
        1: {"before": "let ghost w0 = scopes.world();\nlet ghost mut bi: int = 0;",
            "header": """    invariant
        0 <= bi <= branches@.len(),
        __itb.remaining() == branches@.map_values(|s: Branch| &s).subrange(bi, branches@.len() as int),
        spec_if(w0, branches@, *else_stmts, 0) == spec_if(scopes.world(), branches@, *else_stmts, bi),
    ensures
        bi == branches@.len(),
        spec_if(w0, branches@, *else_stmts, 0) == spec_if(scopes.world(), branches@, *else_stmts, bi),
    decreases branches@.len() - bi"""},
        2: {"before": "let ghost w0 = scopes.world();\nlet ghost mut k: nat = 0;",
            "header": """    invariant
        while_prefix(w0, *cond, *stmts, k) == Some(scopes.world()),
    ensures
        spec_while(w0, *cond, *stmts) == (Some(Escape::None), scopes.world()),""",
            "body_start": "proof { lemma_while_stop_here(w0, *cond, *stmts, k); }"},
        3: {"before": "let ghost w1 = scopes.world();\nlet ghost pairs0 = pairs@;\nlet ghost mut pi: int = 0;",
            "header": """    invariant
        0 <= pi <= pairs0.len(),
        __itf.remaining() == pairs0.subrange(pi, pairs0.len() as int),
        spec_for(w1, *lhs, pairs0, *stmts, 0) == spec_for(scopes.world(), *lhs, pairs0, *stmts, pi),
    ensures
        spec_for(w1, *lhs, pairs0, *stmts, 0) == (Some(Escape::None), scopes.world()),
    decreases pairs0.len() - pi"""},
    }
    f = extract.annotate_fn(hdr + body, spec=SPEC_STMT, attrs="#[verifier::exec_allows_no_decreases_clause]\n#[verifier::loop_isolation(false)]\n#[verifier::allow_complex_invariants]", loops=loops)
    f = extract.rewrite_once(f, "let Branch{cond, stmts} = match __itb.next() { Some(__x) => __x, None => break };\n",
                             "let Branch{cond, stmts} = match __itb.next() { Some(__x) => __x, None => break };\n proof { bi = bi + 1; }\n",
                             "if loop: ghost index")
    f = extract.rewrite_once(f, "let (key, value) = match __itf.next() { Some(__x) => __x, None => break };\n",
                             "let (key, value) = match __itf.next() { Some(__x) => __x, None => break };\n proof { pi = pi + 1; assert((key, value) == pairs0[pi - 1]); }\n",
                             "for loop: ghost index")
    # While: ghost trip counter, bumped once the body's signal is known; the uniqueness lemma
    # turns "stopped after k trips" into the value of spec_while
    f = extract.rewrite_once(
        f, ".context(EvalWhileStatementsFailed)?;\n",
        ".context(EvalWhileStatementsFailed)?;\n"
        "                proof { if escape is None || escape is Continue { k = k + 1; } }\n",
        "while loop: ghost trip counter")
    f = extract.rewrite_once(
        f, "let new_bindings = vec![(clone_expr(lhs), pair)];\n",
        "let new_bindings = vec![(clone_expr(lhs), pair)];\n"
        "                proof { assert(pair == sem_new_list(seq![pairs0[pi - 1].0, pairs0[pi - 1].1])); "
        "assert(new_bindings@ == seq![(*lhs, pair)]); }\n",
        "for loop: binding hint")
    fns["eval_stmt"] = f

    b.text = assemble([
        "// GENERATED on every run by /verif/verus/ctl.py from /repo's working tree - do not edit",
        PRELUDE.replace("/*VALUE_ITEMS*/", parts.value_items(b, read) + parts.value_model(True)),
        SELECTOR_PRELUDE,
        selectors,
        "// ---- verbatim from src/eval/error.rs (attributes stripped)",
        err_enum,
        located_spec(variants),
        "// ---- verbatim from src/ast.rs (derive attributes stripped)",
        "\n".join(extract.strip_attributes(t)[0] for t in ast_items),
        gen_clone_impls(AST_CLONE),
        "// ---- verbatim from src/eval/bind.rs",
        extract.strip_attributes(bind_type)[0],
        "// ---- verbatim from src/eval/mod.rs",
        escape,
        CALLEES,
        SPEC,
        "// ---- functions under contract (verbatim bodies; contract text inserted at anchors)",
        fns["eval_prog"],
        fns["eval_stmts_with_scope_stack"],
        fns["eval_stmt"],
        LEMMAS,
        "} // verus!\nfn main() {}",
    ])
    return b


# ---------------------------------------------------------------------------------------------
# Paired replay generator (Verus gives no counterexample): scripts derived from the case split
# of the contract; the first one whose behaviour on the real binary contradicts the property
# statement is the replay.
# ---------------------------------------------------------------------------------------------
def _expect_stdout(exp):
    def judge(rc, out, err):
        if rc not in (0, 103):
            return f"interpreter crashed (exit {rc})"
        if out != exp:
            return f"expected stdout {exp!r}"
        return None
    return judge


def _expect_error_exit(rc, out, err):
    if rc != 103:
        return f"expected a reported error (exit 103), got exit {rc} with stdout {out!r}"
    return None


def _expect_located_error(rc, out, err):
    import re as _re
    if rc != 103:
        return f"expected a reported error (exit 103), got exit {rc}"
    first = err.splitlines()[0] if err.splitlines() else ""
    if not _re.match(r"^\S+:\d+:\d+: ", first):
        return f"diagnostic has no <path>:<line>:<col>: position: {first!r}"
    if _re.search(r"\b[A-Z][a-z]+([A-Z][a-z]+)+\b", first):
        return f"diagnostic shows an internal identifier: {first!r}"
    return None


C07_SCRIPTS = [
    ("return inside a bare block ends the call", "fn f() {\n    {\n        return 1\n    }\n    return 2\n}\nprint(f())\n", "1\n"),
    ("break inside a bare block leaves the loop", "i := 0\nwhile i < 5 {\n    {\n        break\n    }\n    i += 1\n}\nprint(i)\n", "0\n"),
    ("continue inside a bare block skips the rest of the body",
     "for x in [1, 2] {\n    {\n        continue\n    }\n    print(x)\n}\nprint(0)\n", "0\n"),
    ("return inside if inside while inside call", "fn f() {\n    while true {\n        if true {\n            return 7\n        }\n    }\n    return 8\n}\nprint(f())\n", "7\n"),
    ("break reaches only the innermost loop", "n := 0\nfor x in [1, 2] {\n    while true {\n        break\n    }\n    n += 1\n}\nprint(n)\n", "2\n"),
    ("first true branch only", "if false {\n    print(1)\n} else if true {\n    print(2)\n} else if true {\n    print(3)\n} else {\n    print(4)\n}\n", "2\n"),
    ("statements after break do not run", "for x in [1, 2, 3] {\n    print(x[1])\n    break\n    print(9)\n}\n", "1\n"),
    ("a declaration in a taken else-branch does not outlive it", "if false {\n} else {\n    k := 1\n}\nk = 2\n", None),
    ("parameters share the scope of the body", "fn g(t) {\n    t := 0\n}\ng(1)\nprint(0)\n", None),
    ("for iterates a snapshot", "xs := [1, 2]\nn := 0\nfor x in xs {\n    xs = xs + [3]\n    n += 1\n}\nprint(n)\n", "2\n"),
    ("return inside a for body ends the call with its value",
     "fn f(xs) {\n    for p in xs {\n        if p[1] == 2 {\n            return \"found\"\n        }\n    }\n    return \"none\"\n}\nprint(f([1, 2, 3]))\nprint(f([5]))\n", "found\nnone\n"),
    ("return inside for inside while over an object", "fn f(o) {\n    while true {\n        for p in o {\n            return p[0]\n        }\n        return \"empty\"\n    }\n}\nprint(f({\"b\": 1, \"a\": 2}))\nprint(f({}))\n", "a\nempty\n"),
    ("while re-evaluates its condition after continue", "i := 0\nn := 0\nwhile i < 3 {\n    i += 1\n    if i == 2 {\n        continue\n    }\n    n += 1\n}\nprint(i)\nprint(n)\n", "3\n2\n"),
    ("conditions after the first true one are not evaluated", "fn t(x) {\n    print(x)\n    return true\n}\nif t(1) {\n    print(\"a\")\n} else if t(2) {\n    print(\"b\")\n}\n", "1\na\n"),
    ("a guarded later condition is not evaluated", "xs := []\nif xs == [] {\n    print(\"empty\")\n} else if xs[0] == 1 {\n    print(\"one\")\n}\n", "empty\n"),
    ("continue in a function called from a loop is an error, not a loop continue", "fn skip() {\n    continue\n}\nfor p in [1] {\n    skip()\n    print(9)\n}\n", None),
    ("break in a function called from a loop is an error", "fn stop() {\n    break\n}\nwhile true {\n    stop()\n}\n", None),
    ("for over a string walks bytes, over an object keys in order", "for p in \"ab\" {\n    print(p[1])\n}\nfor p in {\"b\": 1, \"a\": 2} {\n    print(p[0])\n}\n", "a\nb\na\nb\n"),
]
C17_SCRIPTS = [
    ("for over a non-iterable", "for x in 1 {\n    print(x)\n}\n"),
    ("error inside a return expression", "fn f() {\n    return 1 + \"a\"\n}\nf()\n"),
    ("break at top level", "break\n"),
    ("return at top level", "return 1\n"),
    ("undefined variable in while condition", "while zz {\n}\n"),
]


def _expect_first_line(sub):
    def judge(rc, out, err):
        first = err.splitlines()[0] if err.splitlines() else ""
        if rc != 103 or sub not in first:
            return f"expected a reported error whose first line contains {sub!r}, got exit {rc}: {first!r}"
        return None
    return judge


def replays(failed):
    if any("a_for_over_a_non_iterable" in f for f in failed):
        yield ("a `for` over a non-iterable is reported at the iterator expression", "fn total(n) {\n    for [i, x] in n {\n    }\n}\ntotal(5)\n", _expect_first_line(":2:19: "))
    want17 = any(":C17:" in f for f in failed)
    want07 = any(":C07" in f for f in failed) or not want17
    if want07:
        for title, script, exp in C07_SCRIPTS:
            yield title, script, (_expect_stdout(exp) if exp is not None else _expect_error_exit)
    if want17:
        for title, script in C17_SCRIPTS:
            yield title, script, _expect_located_error
