// L-div: meaning of the std primitives used by the integer arms of apply_binary_operation (C06).
// Pure lemma file (no text from /repo): the Kani units prove that the interpreter returns what
// checked_div / wrapping_rem return, operands in order; this file proves what those return.
use vstd::prelude::*;
use vstd::arithmetic::div_mod::*;
verus! {
pub open spec fn abs(x: int) -> int { if x < 0 { -x } else { x } }
// the property's definition: quotient truncated toward zero, remainder with the dividend's sign
pub open spec fn tdiv(a: int, b: int) -> int
{
    if (a >= 0) == (b > 0) { abs(a) / abs(b) } else { -(abs(a) / abs(b)) }
}
pub open spec fn trem(a: int, b: int) -> int { a - tdiv(a, b) * b }
pub open spec fn fits_i64(x: int) -> bool { i64::MIN <= x <= i64::MAX }

proof fn lemma_mod_bound_neg(x: int, b: int)
    requires b < 0,
    ensures 0 <= x % b < -b,
{
    assert(0 <= x % b < -b) by (nonlinear_arith) requires b < 0;
}
proof fn lemma_euclid_neg_divisor(x: int, b: int)
    requires x >= 0, b < 0,
    ensures x / b == -(x / (-b)),
{
    let y = x / b;
    let r = x % b;
    let z = x / (-b);
    let r2 = x % (-b);
    lemma_fundamental_div_mod(x, b);
    lemma_fundamental_div_mod(x, -b);
    lemma_mod_pos_bound(x, -b);
    lemma_mod_bound_neg(x, b);
    assert((y + z) * b == r2 - r) by (nonlinear_arith)
        requires x == b * y + r, x == (-b) * z + r2;
    assert(y + z == 0) by (nonlinear_arith)
        requires (y + z) * b == r2 - r, 0 <= r2 < -b, 0 <= r < -b, b < 0;
}

// L-div.1  the defining laws of tdiv / trem (what the property statement says)
pub proof fn lemma_trunc_laws(a: int, b: int)
    requires b != 0,
    ensures
        tdiv(a, b) * b + trem(a, b) == a,                       // (a/b)*b + a%b == a
        abs(trem(a, b)) < abs(b),
        trem(a, b) == 0 || (trem(a, b) > 0) == (a > 0),         // remainder takes the dividend's sign
        abs(tdiv(a, b)) <= abs(a),                              // truncation toward zero
        abs(tdiv(a, b)) * abs(b) <= abs(a),
{
    let q = abs(a) / abs(b);
    let r = abs(a) % abs(b);
    lemma_fundamental_div_mod(abs(a), abs(b));
    lemma_mod_pos_bound(abs(a), abs(b));
    assert(abs(a) == abs(b) * q + r);
    assert(q >= 0) by (nonlinear_arith) requires abs(a) == abs(b) * q + r, 0 <= r < abs(b), abs(a) >= 0, abs(b) > 0;
    assert(q * abs(b) <= abs(a)) by (nonlinear_arith) requires abs(a) == abs(b) * q + r, 0 <= r;
    assert(q <= abs(a)) by (nonlinear_arith) requires q * abs(b) <= abs(a), abs(b) >= 1, q >= 0;
    if (a >= 0) == (b > 0) {
        assert(tdiv(a, b) == q);
        if a >= 0 {
            assert(trem(a, b) == r) by (nonlinear_arith) requires trem(a, b) == a - q * b, a == b * q + r;
        } else {
            assert(trem(a, b) == -r) by (nonlinear_arith) requires trem(a, b) == a - q * b, -a == (-b) * q + r;
        }
    } else {
        assert(tdiv(a, b) == -q);
        if a >= 0 {
            assert(trem(a, b) == r) by (nonlinear_arith) requires trem(a, b) == a - (-q) * b, a == (-b) * q + r;
        } else {
            assert(trem(a, b) == -r) by (nonlinear_arith) requires trem(a, b) == a - (-q) * b, -a == b * q + r;
        }
    }
}

// L-div.2  the only pair for which the quotient does not fit 64 bits
pub proof fn lemma_quotient_fits(a: int, b: int)
    requires fits_i64(a), fits_i64(b), b != 0,
    ensures
        fits_i64(tdiv(a, b)) <==> !(a == i64::MIN && b == -1),
        fits_i64(trem(a, b)),
{
    lemma_trunc_laws(a, b);
    if a == i64::MIN && b == -1 {
        assert(abs(a) / 1 == abs(a)) by { lemma_div_basics(abs(a)); }
    } else if b == -1 || b == 1 {
        assert(abs(a) / 1 == abs(a)) by { lemma_div_basics(abs(a)); }
    } else {
        let q = abs(a) / abs(b);
        assert(q * abs(b) <= abs(a));
        assert(q >= 0) by (nonlinear_arith) requires abs(a) >= 0, abs(b) > 0, q == abs(a) / abs(b);
        assert(q * 2 <= abs(a)) by (nonlinear_arith) requires q * abs(b) <= abs(a), abs(b) >= 2, q >= 0;
    }
}

// vstd's reading of core's truncating `/` and `%` on signed machine integers
pub open spec fn vdiv(x: int, y: int) -> int { if x == 0 { 0 } else if x > 0 { x / y } else { -((-x) / y) } }
pub open spec fn vrem(x: int, y: int) -> int { if x == 0 { 0 } else if x > 0 { x % y } else { -((-x) % y) } }

pub proof fn lemma_vstd_div_is_trunc(a: int, b: int)
    requires b != 0,
    ensures vdiv(a, b) == tdiv(a, b), vrem(a, b) == trem(a, b),
{
    if a == 0 {
        assert(0int / abs(b) == 0) by (nonlinear_arith) requires abs(b) > 0;
        assert(tdiv(a, b) * b == 0) by (nonlinear_arith) requires tdiv(a, b) == 0;
    } else if a > 0 {
        lemma_fundamental_div_mod(a, b);
        if b < 0 { lemma_euclid_neg_divisor(a, b); }
        assert(a % b == a - (a / b) * b) by (nonlinear_arith) requires a == b * (a / b) + a % b;
    } else {
        lemma_fundamental_div_mod(-a, b);
        if b < 0 { lemma_euclid_neg_divisor(-a, b); }
        assert(-((-a) % b) == a - (-((-a) / b)) * b) by (nonlinear_arith) requires -a == b * ((-a) / b) + (-a) % b;
    }
}

// L-div.3  meaning of the std primitives the interpreter calls (vstd's specification of core)
pub fn checked_div_meaning(a: i64, b: i64) -> (r: Option<i64>)
    ensures
        r is None <==> (b == 0 || (a == i64::MIN && b == -1)),
        r matches Some(q) ==> q == tdiv(a as int, b as int),
{
    proof { if b != 0 { lemma_vstd_div_is_trunc(a as int, b as int); } }
    a.checked_div(b)
}
pub fn checked_rem_meaning(a: i64, b: i64) -> (r: Option<i64>)
    ensures
        r is None <==> (b == 0 || (a == i64::MIN && b == -1)),
        r matches Some(m) ==> m == trem(a as int, b as int),
{
    proof { if b != 0 { lemma_vstd_div_is_trunc(a as int, b as int); } }
    a.checked_rem(b)
}
// core's definition of i64::wrapping_rem:  if rhs == -1 { 0 } else { self % rhs }   (panics for rhs == 0)
pub fn wrapping_rem_meaning(a: i64, b: i64) -> (r: i64)
    requires b != 0,
    ensures r == trem(a as int, b as int),
{
    proof { lemma_vstd_div_is_trunc(a as int, b as int); lemma_trunc_laws(a as int, b as int); }
    if b == -1 { 0 } else { a % b }
}
} // verus!
fn main() {}
