"""V-rangeread: eval::get_str_range_index and eval::get_list_range_index (C11 range reads, C02).

Copied verbatim from /repo/src/eval/mod.rs; verified for sequences of every length and every
(optional) bound over the full usize domain - replaces the bounded Kani cells as the deciding unit."""
import extract
import parts
from verus_engine import Built, assemble

NAME = "range_read"
RLIMIT = 60

MODEL = parts.value_model(True) + r"""
// `s[a:b]`: defined exactly for 0 <= a <= b <= len, with an omitted bound meaning 0 / len
pub open spec fn lo(a: Option<usize>) -> int { match a { Some(x) => x as int, None => 0 } }
pub open spec fn hi(b: Option<usize>, len: int) -> int { match b { Some(x) => x as int, None => len } }
pub open spec fn in_range(a: Option<usize>, b: Option<usize>, len: int) -> bool {
    lo(a) <= hi(b, len) <= len
}
"""

SPEC_STR = r"""
    ensures
        in_range(maybe_start, maybe_end, s@.len() as int) ==> (r matches Ok(x) && x.source is None
            && (x.v matches Value::Str(o) && o@ == s@.subrange(lo(maybe_start), hi(maybe_end, s@.len() as int)))), // [C11_C15:string_range_read_inside_the_domain_has_length_b_minus_a_and_kth_byte_s_a_plus_k]
        !in_range(maybe_start, maybe_end, s@.len() as int) ==> (r matches Err(e)
            && e == (Error::RangeOutOfStringBounds{start: lo(maybe_start) as usize, end: hi(maybe_end, s@.len() as int) as usize})), // [C11_C15:string_range_read_outside_the_domain_is_a_reported_error_naming_the_bounds]
"""
SPEC_LIST = r"""
    ensures
        in_range(maybe_start, maybe_end, list.0.0@.len() as int) ==> (r matches Ok(x) && x.source is None
            && (x.v matches Value::List(o) && o.0.0@ == list.0.0@.subrange(lo(maybe_start), hi(maybe_end, list.0.0@.len() as int)))), // [C11_C14:list_range_read_inside_the_domain_has_length_b_minus_a_and_kth_element_s_a_plus_k_with_its_provenance]
        !in_range(maybe_start, maybe_end, list.0.0@.len() as int) ==> (r matches Err(e)
            && e == (Error::RangeOutOfListBounds{start: lo(maybe_start) as usize, end: hi(maybe_end, list.0.0@.len() as int) as usize})), // [C11:list_range_read_outside_the_domain_is_a_reported_error_naming_the_bounds]
"""


def build(read):
    b = Built()
    err_text, variants = parts.error_text(b, read)
    f1 = parts.copy_item(b, read, "src/eval/mod.rs", "fn", "get_str_range_index")
    f2 = parts.copy_item(b, read, "src/eval/mod.rs", "fn", "get_list_range_index")
    f1 = extract.annotate_fn(f1, spec=SPEC_STR, attrs="#[verifier::exec_allows_no_decreases_clause]\n")
    f2 = extract.annotate_fn(f2, spec=SPEC_LIST, attrs="#[verifier::exec_allows_no_decreases_clause]\n")
    b.edits.append("D3/D4: Arc / Mutex transparent (A-lock); std <[T]>::to_vec element-wise clone specification (assume_specification)")
    b.text = assemble([
        "// GENERATED on every run by /verif/verus/range_read.py from /repo's working tree - do not edit",
        parts.HEADER.replace("use std::collections::HashSet;\n", ""), parts.OPAQUE_SCOPES,
        err_text, parts.ast_text(b, read), parts.value_items(b, read), MODEL,
        parts.value_ctors(b, read, ["new_val_ref_with_no_source", "new_val_ref_with_source", "new_null", "new_bool", "new_int", "new_str", "new_list", "new_object"]),
        "// ---- functions under contract (verbatim bodies; contract text inserted at anchors)",
        f1, f2, parts.FOOTER,
    ])
    return b


def replays(failed):
    def exp(out=None, err=None):
        def judge(rc, o, e):
            if rc not in (0, 103):
                return f"interpreter crashed (exit {rc})"
            if out is not None and (rc != 0 or o != out):
                return f"expected stdout {out!r}"
            if err is not None and (rc != 103 or err not in e):
                return f"expected an error containing {err!r}"
            return None
        return judge
    yield ("empty ranges at the edges", "xs := [1, 2, 3]\nprint(xs[0:0] == [])\nprint(xs[3:3] == [])\nprint(xs[3:] == [])\nprint(xs[:0] == [])\n", exp("true\ntrue\ntrue\ntrue\n"))
    yield ("split and rejoin", "xs := [1, 2, 3]\nprint((xs[:1] + xs[1:]) == xs)\nprint((xs[:0] + xs[0:]) == xs)\nprint((xs[:3] + xs[3:]) == xs)\n", exp("true\ntrue\ntrue\n"))
    yield ("string ranges", "s := \"abc\"\nprint(s[1:2])\nprint(s[:2])\nprint(s[2:])\nprint(s[1:1] == \"\")\n", exp("b\nab\nc\ntrue\n"))
    yield ("end beyond the list", "xs := [1, 2, 3]\nprint(xs[1:4])\n", exp(err="outside the list bounds"))
    yield ("start after end", "xs := [1, 2, 3]\nprint(xs[2:1])\n", exp(err="outside the list bounds"))
    yield ("string end beyond", "s := \"abc\"\nprint(s[1:4])\n", exp(err="outside the string bounds"))
    yield ("the empty range at the end is defined", "s := \"abc\"\nprint(s[3:] == \"\")\nprint(s[3:3] == \"\")\nprint(\"\"[:] == \"\")\nxs := [1]\nprint(xs[1:] == [])\n", exp("true\ntrue\ntrue\ntrue\n"))
    yield ("one past the end is an error", "s := \"abc\"\nprint(s[4:])\n", exp(err="outside the string bounds"))
    yield ("start after end is an error", "xs := [1, 2, 3]\nprint(xs[2:1])\n", exp(err="outside the list bounds"))
