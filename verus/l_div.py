"""L-div (C06): Verus lemma file, not extracted from /repo (it is about core's primitives)."""
import os
from verus_engine import Built

NAME = "l_div"
RLIMIT = 60


def build(read):
    b = Built()
    b.text = open(os.path.join(os.path.dirname(os.path.abspath(__file__)), "l_div.rs")).read()
    b.edits.append("none: lemma file over vstd's specification of i64 `/`, `%`, checked_div, checked_rem")
    return b
