"""V-lexident: Lexer::next_keyword_or_ident (C03: scanning a word terminates, never slices the source inside a
character; C07 / C12 / C20: a word is a keyword exactly when it is one of the twelve reserved words - each mapped
to its own token - and otherwise the identifier with exactly the text written, case preserved).

Copied verbatim from /repo/src/lexer/mod.rs and verified over the abstract scanner of unit lex_int (text,
position, byte index = byte_off) for text of ANY length.  Verus has no support for matching a `&str` against
string-literal patterns, so the one `match t { "lit" => X, .. _ => Y }` is rewritten MECHANICALLY (edit D5, counted)
into Rust's own meaning of it: `if str_eq(t, "lit") { X } else if .. else { Y }`, arm by arm, in source order;
`str_eq` carries std's contract of `==` on `&str` (assumed)."""
import re

import extract
import parts
import lex_int
from verus_engine import Built, assemble
from common import Undecided

NAME = "lex_ident"
RLIMIT = 150

KEYWORDS = [("break", "Break"), ("continue", "Continue"), ("else", "Else"), ("false", "False"), ("fn", "Fn"), ("for", "For"),
            ("if", "If"), ("in", "In"), ("null", "Null"), ("return", "Return"), ("true", "True"), ("while", "While")]


def scanner_model():
    m = lex_int.MODEL.replace("GEOMETRY", lex_int.geometry())
    return m[:m.index("// ---- std (ASSUMED contracts)")]


def kw_spec():
    # the twelve reserved words of the language (the constructs docs/features.md uses), written out here, NOT read from the code
    s = "pub open spec fn keyword(raw: Seq<char>) -> Option<Token> {\n    "
    for lit, tok in KEYWORDS:
        s += f'if raw == "{lit}"@ {{ Some(Token::{tok}) }} else '
    s += "{ None::<Token> }\n}\n"
    s += "pub proof fn reveal_keywords()\n    ensures\n"
    for lit, _ in KEYWORDS:
        s += f'        "{lit}"@.len() == {len(lit)}, ' + ", ".join(f'"{lit}"@[{i}] == \'{c}\'' for i, c in enumerate(lit)) + ",\n"
    s += "{\n" + "".join(f'    reveal_strlit("{lit}");\n' for lit, _ in KEYWORDS) + "}\n"
    return s


MODEL2 = r"""
// ---- std (ASSUMED contracts)
pub open spec fn is_alnum(c: char) -> bool { ('0' <= c && c <= '9') || ('a' <= c && c <= 'z') || ('A' <= c && c <= 'Z') }
#[verifier::external_body]
pub fn char_is_ascii_alphanumeric(c: char) -> (r: bool) ensures r == is_alnum(c) { unimplemented!() }
// char::is_alphanumeric / is_alphabetic are the Unicode properties: every ASCII letter or digit has them, and so do other characters
pub uninterp spec fn unicode_alnum(c: char) -> bool;
#[verifier::external_body]
pub fn char_is_alphanumeric(c: char) -> (r: bool) ensures r == unicode_alnum(c), is_alnum(c) ==> r { unimplemented!() }
#[verifier::external_body]
pub fn str_to_string(s: &str) -> (r: String) ensures r@ == s@ { unimplemented!() }
pub open spec fn lower(c: char) -> char { if 'A' <= c && c <= 'Z' { ((c as u8) + 32) as char } else { c } }
pub open spec fn upper(c: char) -> char { if 'a' <= c && c <= 'z' { ((c as u8) - 32) as char } else { c } }
#[verifier::external_body]
pub fn str_to_ascii_lowercase(s: &str) -> (r: String) ensures r@ == s@.map_values(|c: char| lower(c)) { unimplemented!() }
#[verifier::external_body]
pub fn str_to_ascii_uppercase(s: &str) -> (r: String) ensures r@ == s@.map_values(|c: char| upper(c)) { unimplemented!() }
#[verifier::external_body]
pub fn string_as_str(s: &String) -> (r: &str) ensures r@ == s@ { unimplemented!() }
pub open spec fn trim_end(s: Seq<char>, c: char) -> Seq<char>
    decreases s.len()
{ if s.len() > 0 && s.last() == c { trim_end(s.drop_last(), c) } else { s } }
pub open spec fn trim_start(s: Seq<char>, c: char) -> Seq<char>
    decreases s.len()
{ if s.len() > 0 && s[0] == c { trim_start(s.subrange(1, s.len() as int), c) } else { s } }
#[verifier::external_body]
pub fn str_trim_end_matches(s: &str, c: char) -> (r: &str) ensures r@ == trim_end(s@, c) { unimplemented!() }
#[verifier::external_body]
pub fn str_trim_start_matches(s: &str, c: char) -> (r: &str) ensures r@ == trim_start(s@, c) { unimplemented!() }
#[verifier::external_body]
pub fn str_all_eq(s: &str, c: char) -> (r: bool) ensures r == (forall|i: int| 0 <= i < s@.len() ==> s@[i] == c) { unimplemented!() }
// `==` on &str / a string-literal pattern: equal exactly when the character sequences are
#[verifier::external_body]
pub fn str_eq(a: &str, b: &str) -> (r: bool) ensures r == (a@ == b@) { unimplemented!() }

// ---- the reading of the property: a word is the maximal run of ASCII letters, digits and `_`
pub open spec fn word_char(c: char) -> bool { is_alnum(c) || c == '_' }
pub open spec fn word_ok(t: Seq<char>, from: int, to: int) -> bool {
    0 <= from <= to <= t.len() && (forall|i: int| from <= i < to ==> word_char(#[trigger] t[i])) && (to < t.len() ==> !word_char(t[to]))
}
"""

SPEC = r"""
    requires
        old(self).scanner.wf(),
    ensures
        final(self).scanner.text() == old(self).scanner.text(), final(self).scanner.wf(),
        word_ok(old(self).scanner.text(), old(self).scanner.pos(), final(self).scanner.pos()), // [C03_C09_C20:a_word_is_the_maximal_run_of_ascii_letters_digits_and_underscores]
        ({
            let raw = old(self).scanner.text().subrange(old(self).scanner.pos(), final(self).scanner.pos());
            match keyword(raw) {
                Some(k) => r == k,
                None => r matches Token::Ident(s) && s@ == raw,
            }
        }), // [C03_C07_C12_C20:a_word_is_a_keyword_exactly_when_it_is_one_of_the_twelve_reserved_words_each_with_its_own_token_and_otherwise_the_identifier_with_exactly_the_text_written]
"""


def match_to_if_chain(f):
    """`match t { "lit" => X, ... _ => Y, }` -> if/else chain with str_eq, arm by arm in source order."""
    m = re.search(r"\bmatch ([^{};]+?) \{", f)
    if not m:
        raise Undecided("next_keyword_or_ident: `match <expr> {` not found")
    var = m.group(1)
    ob = m.end() - 1
    cb = extract.match_brace(f, ob)
    inner = f[ob + 1:cb]
    arms = [a.strip() for a in inner.split(",\n") if a.strip()]
    arms = [a.rstrip(",").strip() for a in arms]
    out = []
    default = None
    for a in arms:
        ma = re.fullmatch(r'"((?:[^"\\]|\\.)*)"\s*=>\s*(.+)', a, re.S)
        if ma:
            if default is not None:
                raise Undecided("next_keyword_or_ident: a literal arm after the default arm")
            out.append((f'str_eq(__m, "{ma.group(1)}")', ma.group(2).strip()))
            continue
        mg = re.fullmatch(r"_\s+if\s+(.+?)\s*=>\s*(.+)", a, re.S)
        if mg and default is None:
            out.append((mg.group(1).strip(), mg.group(2).strip()))      # `_ if cond => X`: taken exactly when no earlier arm matched and cond holds
            continue
        md = re.fullmatch(r"_\s*=>\s*(.+)", a, re.S)
        if md and default is None:
            default = md.group(1).strip()
            continue
        raise Undecided(f"next_keyword_or_ident: match arm outside the supported shape (string literal, `_ if cond` or `_`): {a[:60]!r}")
    if default is None:
        raise Undecided("next_keyword_or_ident: no default arm")
    chain = "{ let __m: &str = " + var + "; " + "".join(f'if {cond} {{ {body} }} else ' for cond, body in out) + "{ " + default + " } }"
    return f[:m.start()] + chain + f[cb + 1:], len(out)


def build(read):
    b = Built()
    src = read("src/lexer/mod.rs")
    f = extract.strip_comments(extract.extract_item(src, "fn", "next_keyword_or_ident"))
    b.copied.append(("fn", "next_keyword_or_ident", "src/lexer/mod.rs", extract.item_line(src, "fn", "next_keyword_or_ident")))
    tok = extract.strip_attributes(extract.strip_comments(extract.extract_item(src, "enum", "Token")))[0]
    b.copied.append(("enum", "Token", "src/lexer/mod.rs", extract.item_line(src, "enum", "Token")))
    b.edits.append("D1: derive attributes on Token removed")
    f = extract.rewrite_regex_once(f, r"while let Some\((\w+)\) = self\.scanner\.peek_char\(\) \{",
                                   r"loop {\n            let \1 = match self.scanner.peek_char() { Some(__x) => __x, None => break };", "next_keyword_or_ident: while-let")
    b.edits.append("D5: next_keyword_or_ident: `while let Some(c) = self.scanner.peek_char() {` -> `loop { let c = match .. { Some(__x) => __x, None => break };` (Rust's own desugaring)")
    f, k1 = re.subn(r"\b(\w+)\.is_ascii_alphanumeric\(\)", r"char_is_ascii_alphanumeric(\1)", f)
    f, k1u = re.subn(r"\b(\w+)\.is_alphanumeric\(\)", r"char_is_alphanumeric(\1)", f)
    if k1u:
        b.edits.append(f"D5: next_keyword_or_ident: {k1u}x `c.is_alphanumeric()` -> char_is_alphanumeric(c) (assumed std contract: the Unicode property)")
    f, k2 = re.subn(r"(\"(?:[^\"\\]|\\.)*\"|\b\w+)\.to_string\(\)", r"str_to_string(\1)", f)
    f, k8 = re.subn(r"\b(\w+)\.(?:bytes|chars)\(\)\.all\(\|(\w+)\| \2 == b?('(?:[^'\\]|\\.)')\)", r"str_all_eq(\1, \3)", f)
    if k8:
        b.edits.append(f"D5: next_keyword_or_ident: {k8}x `t.bytes()/chars().all(|x| x == 'c')` (c ASCII) -> str_all_eq(t, 'c') (std contract)")
    # case-mapping / view calls a change might introduce: std contracts, so such a change is judged instead of rejected
    f, k3 = re.subn(r"(self\.scanner\.range\([^()]*\)|\b\w+)\.to_ascii_lowercase\(\)", r"str_to_ascii_lowercase(\1)", f)
    f, k4 = re.subn(r"(self\.scanner\.range\([^()]*\)|\b\w+)\.to_ascii_uppercase\(\)", r"str_to_ascii_uppercase(\1)", f)
    f, k5 = re.subn(r"\b(\w+)\.as_str\(\)", r"string_as_str(&\1)", f)
    f, k6 = re.subn(r"\b(\w+)\.trim_end_matches\(('(?:[^'\\]|\\.)')\)", r"str_trim_end_matches(\1, \2)", f)
    f, k7 = re.subn(r"\b(\w+)\.trim_start_matches\(('(?:[^'\\]|\\.)')\)", r"str_trim_start_matches(\1, \2)", f)
    if k6 + k7:
        b.edits.append(f"D5: next_keyword_or_ident: {k6}x `.trim_end_matches(c)`, {k7}x `.trim_start_matches(c)` -> calls carrying the std contract")
    if k3 + k4 + k5:
        b.edits.append(f"D5: next_keyword_or_ident: {k3}x `.to_ascii_lowercase()`, {k4}x `.to_ascii_uppercase()`, {k5}x `.as_str()` -> calls carrying the std contract")
    b.edits.append(f"D5: next_keyword_or_ident: {k1}x `c.is_ascii_alphanumeric()` -> char_is_ascii_alphanumeric(c), {k2}x `t.to_string()` -> str_to_string(t) (assumed std contracts)")
    # the match on string literals: only the LAST `match` (the first one is the desugared while-let)
    head, sep, tail = f.rpartition("let end = self.scanner.index;")
    if not sep:
        raise Undecided("next_keyword_or_ident: anchor `let end = self.scanner.index;` not found")
    tail, n_arms = match_to_if_chain(tail)
    f = head + sep + tail
    b.edits.append(f"D5: next_keyword_or_ident: `match t {{ \"lit\" => X, .. _ => Y }}` ({n_arms} literal arms) -> `{{ let __m: &str = t; if str_eq(__m, \"lit\") {{ X }} else .. else {{ Y }} }}` "
                   "(arm by arm, in source order; string-literal patterns are outside Verus)")
    hdr, body = extract.fn_header_body(f)
    kinds = [k for k, _, _ in extract.find_loops(body)]
    if kinds != ["loop"]:
        raise Undecided(f"next_keyword_or_ident: expected one loop, found {kinds}")
    loops = {1: {"header": """            invariant
                self.scanner.text() == old(self).scanner.text(), self.scanner.wf(),
                old(self).scanner.pos() <= self.scanner.pos() <= self.scanner.text().len(),
                start == byte_off(self.scanner.text(), old(self).scanner.pos()),
                forall|i: int| old(self).scanner.pos() <= i < self.scanner.pos() ==> word_char(#[trigger] self.scanner.text()[i]), // [C03_C09_C20:a_word_is_the_maximal_run_of_ascii_letters_digits_and_underscores]
            ensures
                self.scanner.pos() < self.scanner.text().len() ==> !word_char(self.scanner.text()[self.scanner.pos()]), // [C03_C09_C20:a_word_is_the_maximal_run_of_ascii_letters_digits_and_underscores]
            decreases self.scanner.text().len() - self.scanner.pos(), // [C03:scanning_a_word_terminates]"""}}
    f = extract.annotate_fn(hdr + body, spec=SPEC, attrs="#[verifier::loop_isolation(false)]\n#[verifier::allow_complex_invariants]", loops=loops)
    # every plain string literal of the function body is revealed (its length and characters), so a comparison with one is decided either way
    lits = " ".join(f'reveal_strlit("{x}");' for x in sorted(set(re.findall(r'"([A-Za-z0-9_ ]*)"', body))))
    f = extract.rewrite_regex_once(f, r"(let end = self\.scanner\.index;)",
                                   r"\1\n        proof { let t = self.scanner.text(); lemma_idx_of(t, old(self).scanner.pos()); lemma_idx_of(t, self.scanner.pos()); "
                                   r"if old(self).scanner.pos() < self.scanner.pos() { lemma_byte_off_strict(t, old(self).scanner.pos(), self.scanner.pos()); } "
                                   r"reveal_keywords(); " + lits + r" }", "next_keyword_or_ident: proof hint")
    b.text = assemble([
        "// GENERATED on every run by /verif/verus/lex_ident.py from /repo's working tree - do not edit",
        scanner_model(), MODEL2, kw_spec(),
        "// ---- verbatim from src/lexer/mod.rs", tok,
        "pub struct Lexer { pub scanner: Scanner, last_token: Option<Token> }",
        "// ---- function under contract (verbatim body; contract text inserted at anchors)",
        "impl Lexer {\n" + f + "\n}",
        parts.FOOTER,
    ])
    return b


def replays(failed):
    def exp(out=None, err=None):
        def judge(rc, o, e):
            if rc not in (0, 103):
                return f"interpreter crashed (exit {rc})"
            if out is not None and (rc != 0 or o != out):
                return f"expected stdout {out!r}"
            if err is not None and (rc != 103 or err not in e.splitlines()[0]):
                return f"expected a first stderr line containing {err!r}"
            return None
        return judge
    yield ("every keyword does its own job",
           "fn f(xs) {\n for [i, x] in xs {\n if x == 2 { continue; } else if x == 4 { break; }\n print(x);\n }\n return null;\n}\n"
           "print(f([1, 2, 3, 4, 5]))\nn := 0\nwhile n < 2 { n += 1; }\nprint(n); print(true); print(false)\n", exp("1\n3\n<null>\n2\ntrue\nfalse\n"))
    yield ("identifiers keep their case", "o := {\"k\": 1, \"K\": 2}\nprint(o.k); print(o.K)\nAb := 3; aB := 4; print(Ab); print(aB)\n", exp("1\n2\n3\n4\n"))
    yield ("a keyword prefix or suffix is an identifier", "iff := 1; fn_ := 2; truee := 3; nulll := 4; inn := 5; For := 6\nprint(iff + fn_ + truee + nulll + inn + For)\n", exp("21\n"))
    yield ("digits and underscores continue a word", "a_1b := 7; _x9 := 8; print(a_1b); print(_x9)\n", exp("7\n8\n"))
    yield ("a name made of underscores only is its own name", "__ := 2; _ := 5; print(__)\n", exp("2\n"))
    yield ("a keyword followed or preceded by an underscore is an identifier", "break_ := 3; return__ := 4; _if := 5; print(break_ + return__ + _if)\n", exp("12\n"))
    yield ("a non-ASCII letter does not continue a word", "aé := 1\n", exp(err=":1:2:"))
    yield ("a keyword is not a name", "while := 1\n", exp(err=":1:"))
