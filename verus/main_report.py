"""V-main: main.rs::main, the reporting of a failure (C17 / C03: stderr is `<script path as given>:<rest>`,
exit status 103; a successful script writes nothing to stderr and exits 0).

`fn main` is copied verbatim from /repo/src/main.rs; its two EFFECTS are reified mechanically (edit D7) so
that a postcondition can speak about them: every `eprintln!(x)` appends `x` and a newline to a log,
every `process::exit(n)` returns `(log, n)`, falling off the end returns `(log, 0)`.  `run`,
`eval_err_to_stacktrace` and `render_parse_error` are external: the TEXT of a message after the
position is not under contract here (eval_err_to_stacktrace's structure is unit V-render's)."""
import re

import extract
import parts
import print_render as pr_unit
from verus_engine import Built, assemble
from common import Undecided

NAME = "main_report"
RLIMIT = 100

MODEL = r"""
use vstd::prelude::*;
verus! {
// ---- D3: std / crate types main only passes along: opaque
#[verifier::external_body] pub struct IoError { _p: () }
#[verifier::external_body] pub struct PathBuf { _p: () }
#[verifier::external_body] pub struct Path { _p: () }
#[verifier::external_body] pub struct EvalError { _p: () }
// lalrpop_util::ParseError (public definition of the dependency, version pinned by Cargo.lock): ASSUMED shape
pub enum ParseError<L, T, E> {
    InvalidToken{location: L},
    UnrecognizedEof{location: L, expected: Vec<String>},
    UnrecognizedToken{token: (L, T, L), expected: Vec<String>},
    ExtraToken{token: (L, T, L)},
    User{error: E},
}
pub struct StacktracedErrorMsg { pub stacktrace: Vec<String>, pub msg: String }
pub uninterp spec fn shown_usize(n: usize) -> Seq<char>;
pub uninterp spec fn shown_io_error(e: IoError) -> Seq<char>;
pub uninterp spec fn lossy(p: PathBuf) -> Seq<char>;
impl PathBuf {
    #[verifier::external_body]
    pub fn to_string_lossy(&self) -> (r: String) ensures r@ == lossy(*self) { unimplemented!() }
}
impl Path {
    pub uninterp spec fn of(&self) -> Seq<char>;
    #[verifier::external_body]
    pub fn new(s: &String) -> (r: &Path) ensures r.of() == s@ { unimplemented!() }
}
// ---- std::fmt (ASSUMED contracts), D6
pub trait Disp { spec fn shown(&self) -> Seq<char>; }
impl Disp for usize { open spec fn shown(&self) -> Seq<char> { shown_usize(*self) } }
impl Disp for String { open spec fn shown(&self) -> Seq<char> { self@ } }
impl Disp for &str { open spec fn shown(&self) -> Seq<char> { self@ } }
impl Disp for IoError { open spec fn shown(&self) -> Seq<char> { shown_io_error(*self) } }
impl<T: Disp> Disp for &T { open spec fn shown(&self) -> Seq<char> { (**self).shown() } }
#[verifier::external_body]
pub fn fmt_lit(s: &str) -> (r: String) ensures r@ == s@ { unimplemented!() }
#[verifier::external_body]
pub fn fmt_disp<T: Disp>(x: &T) -> (r: String) ensures r@ == x.shown() { unimplemented!() }
#[verifier::external_body]
pub fn fmt_cat(a: String, b: String) -> (r: String) ensures r@ == a@ + b@ { unimplemented!() }
pub open spec fn joined(v: Seq<String>, sep: Seq<char>, n: int) -> Seq<char>
    decreases n
{
    if n <= 0 || n > v.len() { Seq::empty() } else if n == 1 { v[0]@ } else { joined(v, sep, n - 1) + sep + v[n - 1]@ }
}
#[verifier::external_body]
pub fn join_strs(v: &Vec<String>, sep: &str) -> (r: String) ensures r@ == joined(v@, sep@, v@.len() as int) { unimplemented!() }
// ---- D7: the two effects of main, reified: what was written to stderr / stdout so far
pub struct Log { pub err: Seq<char>, pub out: Seq<char> }
#[verifier::external_body]
pub fn std_eprintln(log: &mut Ghost<Log>, s: String)
    ensures final(log)@ == (Log{err: old(log)@.err + s@ + "\n"@, out: old(log)@.out})
{ unimplemented!() }
#[verifier::external_body]
pub fn std_println(log: &mut Ghost<Log>, s: String)
    ensures final(log)@ == (Log{err: old(log)@.err, out: old(log)@.out + s@ + "\n"@})
{ unimplemented!() }
// ---- std::env::args() (external): the program name, then the script path as given
#[verifier::external_body] pub struct Args { _p: () }
pub uninterp spec fn argv() -> Seq<Seq<char>>;
impl Args {
    pub uninterp spec fn at(&self) -> int;
    #[verifier::external_body]
    pub fn next(&mut self) -> (r: Option<String>)
        ensures final(self).at() == old(self).at() + 1,
                (match r { Some(s) => old(self).at() < argv().len() && s@ == argv()[old(self).at()], None => old(self).at() >= argv().len() })
    { unimplemented!() }
}
#[verifier::external_body]
pub fn env_args() -> (r: Args) ensures r.at() == 0 { unimplemented!() }
// ---- the callees (external): uninterpreted results
pub uninterp spec fn sem_run(path: Seq<char>) -> std::result::Result<(), Error>;
#[verifier::external_body]
pub fn run(p: &Path) -> (r: std::result::Result<(), Error>) ensures r == sem_run(p.of()) { unimplemented!() }
pub uninterp spec fn sem_parse_error(e: ParseError<(usize, usize), Token, LexError>) -> ((usize, usize), String);
// (main sees render_parse_error only through this uninterpreted function; its own contract is below)
#[verifier::external_body]
pub fn render_parse_error_(e: ParseError<(usize, usize), Token, LexError>) -> (r: ((usize, usize), String)) ensures r == sem_parse_error(e) { unimplemented!() }
pub uninterp spec fn shown_char(c: char) -> Seq<char>;
pub uninterp spec fn debug_token(t: Token) -> Seq<char>;
impl Disp for char { open spec fn shown(&self) -> Seq<char> { shown_char(*self) } }
pub trait Dbg { spec fn debugged(&self) -> Seq<char>; }
impl Dbg for Token { open spec fn debugged(&self) -> Seq<char> { debug_token(*self) } }
impl<T: Dbg> Dbg for &T { open spec fn debugged(&self) -> Seq<char> { (**self).debugged() } }
#[verifier::external_body]
pub fn fmt_dbg<T: Dbg>(x: &T) -> (r: String) ensures r@ == x.debugged() { unimplemented!() }
#[verifier::external_body]
pub fn str_to_string(s: &str) -> (r: String) ensures r@ == s@ { unimplemented!() }
pub uninterp spec fn shown_i64(n: i64) -> Seq<char>;
impl Disp for i64 { open spec fn shown(&self) -> Seq<char> { shown_i64(*self) } }
// `&s[..n]` / `&s[a..]` on a String: std panics unless the bound is a character boundary (ASSUMED contract; no proof of that is possible without knowing the text)
pub uninterp spec fn on_char_boundary(s: Seq<char>, n: int) -> bool;
#[verifier::external_body]
pub fn string_prefix(s: &String, n: usize) -> (r: String)
    requires on_char_boundary(s@, n as int), // [C02_C03:the_text_of_a_diagnostic_is_only_sliced_at_character_boundaries]
{ unimplemented!() }
#[verifier::external_body]
pub fn string_len(s: &String) -> (r: usize) { unimplemented!() }
#[verifier::external_body]
pub fn join_strings(xs: &Vec<String>) -> String { unimplemented!() }
// "the position attached to a lexical error is that of the offending character, to a parse error that of the unexpected token"
pub open spec fn parse_error_position(e: ParseError<(usize, usize), Token, LexError>) -> (usize, usize) {
    match e {
        ParseError::InvalidToken{location} => location,
        ParseError::UnrecognizedEof{location, ..} => location,
        ParseError::UnrecognizedToken{token, ..} => token.0,      // where the unexpected token STARTS
        ParseError::ExtraToken{token} => token.0,
        ParseError::User{error} => match error {
            LexError::Unexpected(loc, _) => loc,
            LexError::IntOverflow(loc, _) => loc,
            LexError::UnescapedDollar(loc) => loc,
            LexError::InvalidInterpolationStart(loc, _) => loc,
            LexError::InvalidEscapeChar(loc, _) => loc,
            LexError::InvalidHexChar(loc, _) => loc,
        },
    }
}
pub uninterp spec fn sem_stacktrace(path: PathBuf, e: EvalError) -> StacktracedErrorMsg;
#[verifier::external_body]
pub fn eval_err_to_stacktrace(path: &PathBuf, func: Option<&str>, error: EvalError) -> (r: StacktracedErrorMsg)
    ensures func is None ==> r == sem_stacktrace(*path, error)
{ unimplemented!() }

// =========================================================================================
// The reading of the property: what a failure looks like on stderr
// =========================================================================================
// (the wording of the two I/O failures is not part of the property: only that the line starts with the path and a colon)
pub open spec fn failure_text(e: Error) -> Seq<char> {
    match e {
        // <line>:<col>: <message>
        Error::ParseFailed{src} => shown_usize(sem_parse_error(src).0.0) + ":"@ + shown_usize(sem_parse_error(src).0.1) + ": "@ + sem_parse_error(src).1@,
        // the rendered message (`<line>:<col>: [in '<function>': ]<message>`, unit V-render), then the stack trace, if any
        Error::EvalFailed{source, path} => {
            let st = sem_stacktrace(path, source);
            st.msg@ + (if st.stacktrace@.len() == 0 { Seq::<char>::empty() } else { "\nStacktrace:\n  "@ + joined(st.stacktrace@, "\n  "@, st.stacktrace@.len() as int) })
        },
        _ => Seq::empty(),
    }
}
pub open spec fn starts_with(s: Seq<char>, p: Seq<char>) -> bool { s.len() >= p.len() && s.subrange(0, p.len() as int) == p }
pub proof fn lemma_line(before: Seq<char>, p: Seq<char>, m: Seq<char>)
    requires before.len() == 0,
    ensures starts_with(before + ((p + ":"@) + m) + "\n"@, p + ":"@), (before + ((p + ":"@) + m) + "\n"@).last() == '\n',
{
    reveal_strlit("\n");
    reveal_strlit(":");
    let whole = before + ((p + ":"@) + m) + "\n"@;
    assert(whole.subrange(0, (p + ":"@).len() as int) =~= p + ":"@);
}
"""

SPEC = r"""
    ensures
        // a script path was given and the run succeeded: nothing on stderr, exit status 0
        (argv().len() >= 2 && sem_run(argv()[1]) is Ok) ==> r.1 == 0 && r.0@.err.len() == 0, // [C17:a_successful_script_writes_nothing_to_stderr_and_exits_0]
        // ... failed: exactly `<script path as given>:<failure text>` and a newline on stderr, exit status 103
        (argv().len() >= 2 && sem_run(argv()[1]) matches Err(e)) ==> r.1 == 103, // [C17_C03:a_reported_failure_exits_with_status_103]
        (argv().len() >= 2 && (sem_run(argv()[1]) matches Err(e) && (e is ParseFailed || e is EvalFailed)))
            ==> r.0@.err == argv()[1] + ":"@ + failure_text(sem_run(argv()[1])->Err_0) + "\n"@, // [C17_C03:stderr_is_the_script_path_as_given_then_a_colon_then_position_and_message_and_nothing_else]
        (argv().len() >= 2 && sem_run(argv()[1]) is Err)
            ==> starts_with(r.0@.err, argv()[1] + ":"@) && r.0@.err.last() == '\n', // [C17_C03:every_failure_line_starts_with_the_script_path_as_given_and_a_colon]
        // main itself writes nothing to stdout
        r.0@.out.len() == 0, // [C17_C03:the_reporting_code_writes_nothing_to_stdout]
"""


def build(read):
    b = Built()
    src = read("src/main.rs")
    f = extract.strip_comments(extract.extract_item(src, "fn", "main"))
    b.copied.append(("fn", "main", "src/main.rs", extract.item_line(src, "fn", "main")))
    err = extract.strip_attributes(extract.strip_comments(extract.extract_item(src, "enum", "Error")))[0]
    b.copied.append(("enum", "Error", "src/main.rs", extract.item_line(src, "enum", "Error")))
    b.edits.append("D1: derive / allow attributes on main.rs's enum Error removed; `pub` added (Verus: a spec function over it must see its constructors)")

    f, n = pr_unit.expand_format_macros(f, "main", ("format", "eprintln", "println"))
    f, k1 = re.subn(r"std_(eprintln|println)\(", r"std_\1(&mut log, ", f)
    f, k2 = re.subn(r"process::exit\((\d+)\);", r"return (log, \1);", f)
    if k2 == 0:
        raise Undecided("main: no `process::exit(n);` found")
    b.edits.append(f"D6: {n} `format!` / `eprintln!` invocations expanded by std::fmt's documented meaning")
    b.edits.append(f"D7: effects reified: {k1}x `eprintln!(x)` -> std_eprintln(&mut log, x) (appends x and a newline to the ghost log), "
                   f"{k2}x `process::exit(n);` -> `return (log, n);`, the end of main -> `(log, 0)`; signature `fn main()` -> `fn main() -> (Ghost<Log>, i32)`")
    f = extract.rewrite_once(f, "std::env::args()", "env_args()", "main: env::args")
    m_line = re.search(r"std_eprintln\(&mut log, fmt_cat\(fmt_cat\(fmt_disp\(&(\w+)\), fmt_lit\(\":\"\)\), fmt_disp\(&(\w+)\)\)\);", f)
    if m_line:
        f = f[:m_line.start()] + "let ghost __before = log@.err;\n        " + m_line.group(0) + \
            f"\n        proof {{ lemma_line(__before, {m_line.group(1)}@, {m_line.group(2)}@); }}" + f[m_line.end():]
        b.edits.append("annotation: a ghost snapshot and one lemma call around the `eprintln!(\"{path}:{msg}\")` of main")
    f, kj = re.subn(r"(\w+(?:\.\w+)*)\.join\((\"[^\"]*\")\)", r"join_strs(&\1, \2)", f)
    b.edits.append(f"D5: `std::env::args()` -> env_args(); {kj}x `v.join(sep)` -> join_strs(&v, sep) (assumed std contracts)")
    f = extract.rewrite_once(f, "render_parse_error(src)", "render_parse_error_(src)", "main: render_parse_error call")
    # ---- render_parse_error (C18)
    rpe = extract.strip_comments(extract.extract_item(src, "fn", "render_parse_error"))
    b.copied.append(("fn", "render_parse_error", "src/main.rs", extract.item_line(src, "fn", "render_parse_error")))
    lsrc = read("src/lexer/mod.rs")
    tok = extract.strip_attributes(extract.strip_comments(extract.extract_item(lsrc, "enum", "Token")))[0]
    lerr = extract.strip_attributes(extract.strip_comments(extract.extract_item(lsrc, "enum", "LexError")))[0]
    for k_, n_ in [("enum", "Token"), ("enum", "LexError")]:
        b.copied.append((k_, n_, "src/lexer/mod.rs", extract.item_line(lsrc, k_, n_)))
    rpe, n2 = pr_unit.expand_format_macros(rpe, "render_parse_error", ("format",))
    rpe, n3 = re.subn(r"(\"(?:[^\"\\\\]|\\\\.)*\")\.to_string\(\)", r"str_to_string(\1)", rpe)
    b.edits.append(f"D6: render_parse_error: {n2} `format!` invocations expanded, {n3}x `\"..\".to_string()` -> str_to_string(..)")
    # ---- render_token (no contract beyond Verus' own obligations: it must not be able to panic)
    rt = extract.strip_comments(extract.extract_item(src, "fn", "render_token"))
    b.copied.append(("fn", "render_token", "src/main.rs", extract.item_line(src, "fn", "render_token")))
    rt, n4 = pr_unit.expand_format_macros(rt, "render_token", ("format",))
    rt, n5 = re.subn(r"(\"(?:[^\"\\\\]|\\\\.)*\")\.to_string\(\)", r"str_to_string(\1)", rt)
    rt, n6 = re.subn(r"&(\w+)\[\s*\.\.\s*([^\]]+)\]", r"string_prefix(&\1, \2)", rt)
    rt, n7 = re.subn(r"\b(s)\.len\(\)", r"string_len(&\1)", rt)
    b.edits.append(f"D6: render_token: {n4} `format!` invocations expanded, {n5}x `\"..\".to_string()` -> str_to_string(..), {n6}x `&s[..n]` -> string_prefix(&s, n) "
                   f"(std slicing contract: the bound must be a character boundary), {n7}x `s.len()` -> string_len(&s)")
    rpe = extract.annotate_fn(rpe, spec="""
    ensures r.0 == parse_error_position(error), // [C09_C17_C18:the_position_of_a_syntax_error_is_where_the_offending_character_or_unexpected_token_starts]
""")
    hdr, body = extract.fn_header_body(f)
    if not re.match(r"\s*fn main\(\)\s*$", hdr):
        raise Undecided("main: unexpected signature")
    close = body.rstrip().rfind("}")
    body = "{ /*VACUITY_PROBE*/\n    let mut log: Ghost<Log> = Ghost(Log{err: Seq::empty(), out: Seq::empty()});\n" + body.strip()[1:close] .rstrip()
    body = body.rstrip()
    if body.endswith("}"):
        pass
    body = body + "\n    (log, 0)\n}"
    f = "fn main() -> (r: (Ghost<Log>, i32))\n" + SPEC + body
    b.text = assemble([
        "// GENERATED on every run by /verif/verus/main_report.py from /repo's working tree - do not edit",
        MODEL,
        "pub type Location = (usize, usize);\npub type InterpSlot = (usize, usize);\n// ---- verbatim from src/lexer/mod.rs", tok, lerr,
        "// ---- verbatim from src/main.rs", "pub " + err.lstrip(), rt, rpe,
        "// ---- function under contract (verbatim body apart from the listed edits; contract text inserted)",
        "pub mod seed_main {\n    use super::*;\n" + f + "\n}", parts.FOOTER,
    ])
    return b


def replays(failed):
    def exp(rc_exp, out, errline=None):
        def judge(rc, o, e):
            if rc != rc_exp:
                return f"expected exit status {rc_exp}, got {rc}"
            if o != out:
                return f"expected stdout {out!r}"
            if errline is None and e != "":
                return "expected nothing on stderr"
            if errline is not None and (not e.splitlines() or not e.splitlines()[0].startswith(errline)):
                return f"expected a first stderr line starting with {errline!r}"
            return None
        return judge
    yield ("success: nothing on stderr, exit 0", "print(1)\n", exp(0, "1\n"))
    yield ("evaluation error: path as given, position, message; exit 103", "print(1)\nprint(zz)\n", exp(103, "1\n", "replay.sd:2:7: 'zz' is not defined"))
    yield ("syntax error: path as given, position, message; exit 103; nothing ran", "print(1)\nprint(\n", exp(103, "", "replay.sd:3:0: unexpected EOF; expected "))
    yield ("an unexpected token is reported where it starts, a newline right after it", "x := 1\nprint(x))\n", exp(103, "", "replay.sd:2:9: unexpected ')'"))
    yield ("an unexpected multi-character token is reported where it starts", "authors := [\"a\" \"bcd\"]\n", exp(103, "", "replay.sd:1:17: unexpected '\"bcd\"'"))
    yield ("a lexical error is reported at the offending character", "x := 1\ny := x ? 2\n", exp(103, "", "replay.sd:2:8: unexpected '?'"))
