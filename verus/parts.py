"""Shared building blocks of the Verus units (prelude text, verbatim AST / Error items,
generated selectors, `located`)."""
import re

import extract
from verus_engine import gen_clone_impls, parse_enum_variants, gen_selectors, SELECTOR_PRELUDE

AST_ITEMS = [("enum", "Prog"), ("type", "Block"), ("enum", "Stmt"), ("struct", "Branch"),
             ("type", "Location"), ("type", "Expr"), ("enum", "RawExpr"), ("enum", "BinaryOp"),
             ("struct", "ListItem"), ("enum", "PropItem")]
AST_CLONE = ["Prog", "Stmt", "Branch", "RawExpr", "BinaryOp", "ListItem", "PropItem"]

HEADER = r"""
use vstd::prelude::*;
use vstd::std_specs::iter::IteratorSpec;
use std::collections::HashSet;
use std::string::FromUtf8Error;
use std::num::TryFromIntError;
verus! {

#[verifier::external_type_specification]
#[verifier::external_body]
pub struct ExFromUtf8Error(FromUtf8Error);

pub type Result<T> = std::result::Result<T, Error>;

// The abstract world: everything an evaluation step can read or change (heap cells, scope
// chain).  Only uninterpreted functions observe it, so every proof holds for *every*
// behaviour of the callees.
pub struct W { pub id: int }
"""

OPAQUE_CONTEXT = r"""
#[verifier::external_body]
pub struct EvaluationContext { _p: () }
"""

OPAQUE_SCOPES = r"""
#[verifier::external_body]
pub struct ScopeStack { _p: () }
impl ScopeStack {
    pub uninterp spec fn world(&self) -> W;
}
impl Clone for ScopeStack {
    #[verifier::external_body]
    fn clone(&self) -> (r: Self) ensures r.world() == self.world() { unimplemented!() }
}
"""

OPAQUE_VALUE = r"""
#[verifier::external_body]
pub struct Value { _p: () }
pub struct SourcedValue { pub v: Value, pub source: Option<Value> }
impl Clone for Value {
    #[verifier::external_body]
    fn clone(&self) -> (r: Self) ensures r == *self { unimplemented!() }
}
impl Clone for SourcedValue {
    #[verifier::external_body]
    fn clone(&self) -> (r: Self) ensures r == *self { unimplemented!() }
}
"""

CLONE_EXPR = r"""
// D5: `.clone()` on the tuple alias `Expr` / on Vec<Expr> (Verus: "built-in instance Misc")
#[verifier::external_body]
pub fn clone_expr(e: &Expr) -> (r: Expr) ensures r == *e { unimplemented!() }
#[verifier::external_body]
pub fn clone_exprs(e: &Vec<Expr>) -> (r: Vec<Expr>) ensures r@ == e@ { unimplemented!() }
"""

FOOTER = "} // verus!\nfn main() {}"


def ast_text(b, read):
    src = read("src/ast.rs")
    items = []
    for kind, name in AST_ITEMS:
        t = extract.extract_item(src, kind, name)
        b.copied.append((kind, name, "src/ast.rs", extract.item_line(src, kind, name)))
        items.append(extract.strip_attributes(extract.strip_comments(t))[0])
    b.edits.append("D1: derive attributes on AST types replaced by assumed structural Clone impls (" + ", ".join(AST_CLONE) + ")")
    return "// ---- verbatim from src/ast.rs (derive attributes stripped)\n" + "\n".join(items) + "\n" + gen_clone_impls(AST_CLONE)


def error_text(b, read):
    """Returns (text of enum Error, variants)."""
    src = read("src/eval/error.rs")
    t = extract.extract_item(src, "enum", "Error")
    b.copied.append(("enum", "Error", "src/eval/error.rs", extract.item_line(src, "enum", "Error")))
    t, n = extract.strip_attributes(extract.strip_comments(t))
    b.edits.append(f"D1: {n} #[snafu(..)] attributes removed from enum Error; #[derive(Clone, Debug, Snafu)] dropped")
    return "// ---- verbatim from src/eval/error.rs (attributes stripped)\n" + t + "\n", parse_enum_variants(t)


def selectors_text(b, variants, fn_texts):
    sels = sorted(set(re.findall(r"\.context\(\s*([A-Za-z0-9_]+)", "".join(fn_texts))))
    b.edits.append(f"D4: {len(sels)} snafu context selectors generated from enum Error: {', '.join(sels)}")
    return SELECTOR_PRELUDE + gen_selectors(variants, sels)


def located_spec(variants):
    """C17: `located(e)`: e is AtLoc, or a context wrapper (any variant carrying `source: Box<Error>`)
    around a located error.  Generated from the extracted enum on every run."""
    arms = []
    for name, fields in variants:
        f = dict(fields)
        if name == "AtLoc":
            arms.append("        Error::AtLoc{..} => true,")
        elif f.get("source") == "Box<Error>":
            arms.append(f"        Error::{name}{{source, ..}} => located(*source),")
    arms.append("        _ => false,")
    return ("pub open spec fn located(e: Error) -> bool\n    decreases e\n{\n    match e {\n"
            + "\n".join(arms) + "\n    }\n}\n")


def copy_item(b, read, rel, kind, name, strip=True):
    src = read(rel)
    t = extract.extract_item(src, kind, name)
    b.copied.append((kind, name, rel, extract.item_line(src, kind, name)))
    t = extract.strip_comments(t)
    if strip:
        t = extract.strip_attributes(t)[0]
    return t


def annotate_closure(fn_text, name, params, ret, ensures, label):
    """Contract on a local closure `let NAME = |p| {`: parameter types, named result, ensures."""
    m = re.search(r"let\s+" + re.escape(name) + r"\s*=\s*\|([^|]*)\|\s*\{", fn_text)
    if not m or len(re.findall(r"let\s+" + re.escape(name) + r"\s*=\s*\|", fn_text)) != 1:
        from common import Undecided
        raise Undecided(f"closure `{name}` not found exactly once ({label})")
    new = f"let {name} = |{params}| -> (r: {ret})\n        ensures {ensures}\n    {{"
    return fn_text[:m.start()] + new + fn_text[m.end():]
