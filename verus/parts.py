"""Shared building blocks of the Verus units (prelude text, verbatim AST / Error items,
generated selectors, `located`)."""
import re

import extract
from verus_engine import gen_clone_impls, parse_enum_variants, gen_selectors, SELECTOR_PRELUDE

AST_ITEMS = [("enum", "Prog"), ("type", "Block"), ("enum", "Stmt"), ("struct", "Branch"),
             ("type", "Location"), ("type", "Expr"), ("enum", "RawExpr"), ("enum", "BinaryOp"),
             ("struct", "ListItem"), ("enum", "PropItem")]
AST_CLONE = ["Prog", "Stmt", "Branch", "RawExpr", "BinaryOp", "ListItem", "PropItem"]

HEADER = r"""
use vstd::prelude::*;
use vstd::std_specs::iter::IteratorSpec;
use std::collections::HashSet;
use std::string::FromUtf8Error;
use std::num::TryFromIntError;
verus! {

#[verifier::external_type_specification]
#[verifier::external_body]
pub struct ExFromUtf8Error(FromUtf8Error);

pub type Result<T> = std::result::Result<T, Error>;

// The abstract world: everything an evaluation step can read or change (heap cells, scope
// chain).  Only uninterpreted functions observe it, so every proof holds for *every*
// behaviour of the callees.
pub struct W { pub id: int }
"""

OPAQUE_CONTEXT = r"""
#[verifier::external_body]
pub struct EvaluationContext { _p: () }
"""

OPAQUE_SCOPES = r"""
#[verifier::external_body]
pub struct ScopeStack { _p: () }
impl ScopeStack {
    pub uninterp spec fn world(&self) -> W;
}
impl Clone for ScopeStack {
    #[verifier::external_body]
    fn clone(&self) -> (r: Self) ensures r.world() == self.world() { unimplemented!() }
}
// scope.rs's two writers (under contract in unit V-name): here only their signature and an uninterpreted effect on the world
pub uninterp spec fn sem_scope_declare(w: W, name: Seq<char>, loc: (usize, usize), v: SourcedValue) -> (std::result::Result<(), (usize, usize)>, W);
pub uninterp spec fn sem_scope_assign(w: W, name: Seq<char>, v: SourcedValue) -> (bool, W);
impl ScopeStack {
    #[verifier::external_body]
    pub fn declare(&mut self, name: &str, loc: (usize, usize), v: SourcedValue) -> (r: std::result::Result<(), (usize, usize)>)
        ensures (r, final(self).world()) == sem_scope_declare(old(self).world(), name@, loc, v)
    { unimplemented!() }
    #[verifier::external_body]
    pub fn assign(&mut self, name: &str, v: SourcedValue) -> (r: bool)
        ensures (r, final(self).world()) == sem_scope_assign(old(self).world(), name@, v)
    { unimplemented!() }
}
"""

OPAQUE_VALUE = r"""
#[verifier::external_body]
pub struct Value { _p: () }
pub struct SourcedValue { pub v: Value, pub source: Option<Value> }
impl Clone for Value {
    #[verifier::external_body]
    fn clone(&self) -> (r: Self) ensures r == *self { unimplemented!() }
}
impl Clone for SourcedValue {
    #[verifier::external_body]
    fn clone(&self) -> (r: Self) ensures r == *self { unimplemented!() }
}
"""

VALUE_MODEL = r"""
// ---- A-lock model: Arc<Mutex<T>> is a transparent wrapper (locking always succeeds, no aliasing claim)
pub struct Mutex<T>(pub T);
pub struct Arc<T>(pub T);
impl<T> Mutex<T> { pub fn new(t: T) -> (r: Self) ensures r.0 == t { Mutex(t) } }
impl<T> Arc<T> { pub fn new(t: T) -> (r: Self) ensures r.0 == t { Arc(t) } }
macro_rules! lock_deref {
    ( $x:ident ) => { $x.0.0 };
}
pub type Str = Vec<u8>;
pub type List = Vec<SourcedValue>;
pub type ListRef = Arc<Mutex<List>>;
// D3: opaque
#[verifier::external_body]
pub struct ObjectRef { _p: () }
#[verifier::external_body]
pub struct BuiltinFunc { _p: () }

impl Clone for Value {
    #[verifier::external_body]
    fn clone(&self) -> (r: Self) ensures r == *self { unimplemented!() }
}
impl Clone for SourcedValue {
    #[verifier::external_body]
    fn clone(&self) -> (r: Self) ensures r == *self { unimplemented!() }
}
// std: <[T]>::to_vec clones every element
pub assume_specification<T: Clone> [<[T]>::to_vec] (s: &[T]) -> (r: Vec<T>)
    ensures r@.len() == s@.len(), forall|i: int| 0 <= i < s@.len() ==> call_ensures(T::clone, (&s@[i],), #[trigger] r@[i]);

"""

CLONE_EXPR = r"""
// D5: `.clone()` on the tuple alias `Expr` / on Vec<Expr> (Verus: "built-in instance Misc")
#[verifier::external_body]
pub fn clone_expr(e: &Expr) -> (r: Expr) ensures r == *e { unimplemented!() }
#[verifier::external_body]
pub fn clone_exprs(e: &Vec<Expr>) -> (r: Vec<Expr>) ensures r@ == e@ { unimplemented!() }
"""

FOOTER = "} // verus!\nfn main() {}"


def ast_text(b, read):
    src = read("src/ast.rs")
    items = []
    for kind, name in AST_ITEMS:
        t = extract.extract_item(src, kind, name)
        b.copied.append((kind, name, "src/ast.rs", extract.item_line(src, kind, name)))
        items.append(extract.strip_attributes(extract.strip_comments(t))[0])
    b.edits.append("D1: derive attributes on AST types replaced by assumed structural Clone impls (" + ", ".join(AST_CLONE) + ")")
    return "// ---- verbatim from src/ast.rs (derive attributes stripped)\n" + "\n".join(items) + "\n" + gen_clone_impls(AST_CLONE)


def error_text(b, read):
    """Returns (text of enum Error, variants)."""
    src = read("src/eval/error.rs")
    t = extract.extract_item(src, "enum", "Error")
    b.copied.append(("enum", "Error", "src/eval/error.rs", extract.item_line(src, "enum", "Error")))
    t, n = extract.strip_attributes(extract.strip_comments(t))
    b.edits.append(f"D1: {n} #[snafu(..)] attributes removed from enum Error; #[derive(Clone, Debug, Snafu)] dropped")
    return "// ---- verbatim from src/eval/error.rs (attributes stripped)\n" + t + "\n", parse_enum_variants(t)


def selectors_text(b, variants, fn_texts):
    sels = sorted(set(re.findall(r"\.context\(\s*([A-Za-z0-9_]+)", "".join(fn_texts))))
    b.edits.append(f"D4: {len(sels)} snafu context selectors generated from enum Error: {', '.join(sels)}")
    return SELECTOR_PRELUDE + gen_selectors(variants, sels)


def located_spec(variants):
    """C17: `located(e)`: e is AtLoc, or a context wrapper (any variant carrying `source: Box<Error>`)
    around a located error.  Generated from the extracted enum on every run."""
    arms = []
    for name, fields in variants:
        f = dict(fields)
        if name == "AtLoc":
            arms.append("        Error::AtLoc{..} => true,")
        elif f.get("source") == "Box<Error>":
            arms.append(f"        Error::{name}{{source, ..}} => located(*source),")
    arms.append("        _ => false,")
    # C18: the position a diagnostic SHOWS FIRST: the outermost AtLoc met when peeling the context wrappers
    parms = []
    for name, fields in variants:
        f = dict(fields)
        if name == "AtLoc":
            parms.append("        Error::AtLoc{line, col, ..} => Some((line, col)),")
        elif f.get("source") == "Box<Error>":
            parms.append(f"        Error::{name}{{source, ..}} => first_pos(*source),")
    parms.append("        _ => None,")
    return ("pub open spec fn located(e: Error) -> bool\n    decreases e\n{\n    match e {\n"
            + "\n".join(arms) + "\n    }\n}\n"
            + "pub open spec fn first_pos(e: Error) -> Option<(usize, usize)>\n    decreases e\n{\n    match e {\n"
            + "\n".join(parms) + "\n    }\n}\n")


def copy_item(b, read, rel, kind, name, strip=True):
    src = read(rel)
    t = extract.extract_item(src, kind, name)
    b.copied.append((kind, name, rel, extract.item_line(src, kind, name)))
    t = extract.strip_comments(t)
    if strip:
        t = extract.strip_attributes(t)[0]
    return t


def annotate_closure(fn_text, name, params, ret, ensures, label, tag=None):
    """Contract on a local closure `let NAME = |p| {`: parameter types, named result, ensures."""
    m = re.search(r"let\s+" + re.escape(name) + r"\s*=\s*\|([^|]*)\|\s*\{", fn_text)
    if not m or len(re.findall(r"let\s+" + re.escape(name) + r"\s*=\s*\|", fn_text)) != 1:
        from common import Undecided
        raise Undecided(f"closure `{name}` not found exactly once ({label})")
    tagtxt = f" // [{tag}]" if tag else ""
    new = f"let {name} = |{params}| -> (r: {ret})\n        ensures {ensures}{tagtxt}\n    {{"
    return fn_text[:m.start()] + new + fn_text[m.end():]


def value_items(b, read):
    """enum Value, struct SourcedValue, struct Func verbatim from src/eval/value.rs"""
    out = []
    for kind, name in [("enum", "Value"), ("struct", "SourcedValue"), ("struct", "Func")]:
        out.append(copy_item(b, read, "src/eval/value.rs", kind, name))
    return "// ---- verbatim from src/eval/value.rs\n" + "\n".join(out)


def value_ctors(b, read, names, ref_eq=False):
    import extract as _e
    ens = {"new_val_ref_with_no_source": "r == (SourcedValue{v, source: None})",
           "new_val_ref_with_source": "r == (SourcedValue{v, source: Some(source)})",
           "new_null": "r == (SourcedValue{v: Value::Null, source: None})",
           "new_bool": "r == (SourcedValue{v: Value::Bool(b), source: None})",
           "new_int": "r == (SourcedValue{v: Value::Int(n), source: None})",
           "new_str": "r == (SourcedValue{v: Value::Str(s), source: None})",
           "new_list": "r == (SourcedValue{v: Value::List(Arc(Mutex(list))), source: None})",
           "new_object": "r == (SourcedValue{v: Value::Object(Arc(Mutex(object))), source: None})",
           "new_str_from_string": "r.source is None && (r.v matches Value::Str(bytes) && bytes@ == string_bytes(s@))",
           "new_func": "r == (SourcedValue{v: Value::Func(Arc(Mutex(Func{name, args, collect_args, stmts, closure}))), source: None})"}
    out = []
    for n in names:
        t = copy_item(b, read, "src/eval/value.rs", "fn", n)
        if n == "new_str_from_string":
            # body is `s.into_bytes()` (UTF-8 bytes; outside Verus): kept as an external declaration
            hdr, _body = _e.fn_header_body(t)
            hdr, _ = _e.name_return(hdr.rstrip() + "\n")
            out.append("#[verifier::external_body]\n" + hdr + f"    ensures {ens[n]},\n{{ unimplemented!() }}")
            b.dropped.append("value::new_str_from_string body (`s.into_bytes()`): external, result = UTF-8 bytes of s (uninterpreted string_bytes)")
            continue
        out.append(_e.annotate_fn(t, spec=f"\n    ensures {ens[n]},\n"))
    pre = ""
    if ref_eq:
        # value::ref_eq (Arc::ptr_eq): identity of two cells, uninterpreted under the A-lock model
        pre = "pub uninterp spec fn same_cell<T>(a: Arc<Mutex<T>>, b: Arc<Mutex<T>>) -> bool;\n"
        out.append("#[verifier::external_body]\npub fn ref_eq<T>(a: &Arc<Mutex<T>>, b: &Arc<Mutex<T>>) -> (r: bool)\n    ensures r == same_cell(*a, *b)\n{ unimplemented!() }")
    return pre + "pub mod value {\n    use super::*;\n// ---- verbatim from src/eval/value.rs\n" + "\n".join(out) + "\n}"


# ---- object cells under A-lock: std BTreeMap<String, SourcedValue> replaced by an assumed map contract
OBJECT_MODEL = r"""
// D3: std::collections::BTreeMap<String, SourcedValue> replaced by an ASSUMED finite-map contract
// (get / get_mut / insert-replaces / len / ascending-key iteration is NOT modelled)
#[verifier::external_body]
#[verifier::reject_recursive_types(K)]
#[verifier::accept_recursive_types(V)]
pub struct BTreeMap<K, V> { _p: core::marker::PhantomData<(K, V)> }
impl BTreeMap<String, SourcedValue> {
    pub uninterp spec fn view(&self) -> Map<Seq<char>, SourcedValue>;
    #[verifier::external_body]
    pub fn new() -> (r: Self) ensures r@ == Map::<Seq<char>, SourcedValue>::empty() { unimplemented!() }
    #[verifier::external_body]
    pub fn len(&self) -> (r: usize) ensures r == self@.len(), self@.dom().finite() { unimplemented!() }
    #[verifier::external_body]
    pub fn is_empty(&self) -> (r: bool) ensures r == (self@.len() == 0), self@.dom().finite() { unimplemented!() }
    #[verifier::external_body]
    pub fn get(&self, k: &str) -> (r: Option<&SourcedValue>)
        ensures (match r { Some(v) => self@.contains_key(k@) && *v == self@[k@], None => !self@.contains_key(k@) })
    { unimplemented!() }
    #[verifier::external_body]
    pub fn insert(&mut self, k: String, v: SourcedValue) -> (r: Option<SourcedValue>)
        ensures final(self)@ == old(self)@.insert(k@, v),
                r == (if old(self)@.contains_key(k@) { Some(old(self)@[k@]) } else { None::<SourcedValue> }),
    { unimplemented!() }
}
impl Clone for BTreeMap<String, SourcedValue> {
    #[verifier::external_body]
    fn clone(&self) -> (r: Self) ensures r@ == self@ { unimplemented!() }
}
pub type Object = BTreeMap<String, SourcedValue>;
pub type ObjectRef = Arc<Mutex<Object>>;
"""


def value_model(object_transparent=False):
    if not object_transparent:
        return VALUE_MODEL
    return VALUE_MODEL.replace("#[verifier::external_body]\npub struct ObjectRef { _p: () }\n", "") + OBJECT_MODEL


def with_wrapper_ctors(model, b, read):
    """`model` declares its own `pub mod value { use super::*; ..`: value.rs's two generic wrappers
    (new_val_ref_with_no_source / new_val_ref_with_source) are copied verbatim into it, so a unit over an opaque
    Value still sees what happens to a value's provenance when the code re-wraps it."""
    t = value_ctors(b, read, ["new_val_ref_with_no_source", "new_val_ref_with_source"])
    head = "pub mod value {\n    use super::*;\n"
    if not t.startswith(head) or model.count(head) != 1:
        from common import Undecided
        raise Undecided("with_wrapper_ctors: the unit's `pub mod value` was not found as expected")
    inner = t[len(head):t.rstrip().rfind("}")]
    return model.replace(head, head + inner)


MATCH_EVAL_EXPR_TEMPLATE = """macro_rules! match_eval_expr {
    (
        ( $context:ident, $scopes:ident, $expr:expr )
        { $( $key:pat => $value:expr , )* }
    ) => {{
        let value = CALLEE($context, $scopes, $expr)
            .context(EvalExprFailed)?;
        match value.v {
            $( $key => $value , )*
        }
    }};
}"""


def expand_match_eval_expr(fn_text, macro_text, callee):
    """D4: the crate's own `match_eval_expr!` macro is expanded mechanically (what rustc does), so that
    ghost annotations can be placed inside its arms (Verus does not process syntax inside macro
    arguments).  The macro definition copied from /repo must be EXACTLY the known one; otherwise
    Undecided.  Returns (text, number of expansions)."""
    import re as _re
    from common import Undecided
    norm = lambda x: _re.sub(r"\s+", " ", x).strip()
    if norm(macro_text) != norm(MATCH_EVAL_EXPR_TEMPLATE.replace("CALLEE", callee)):
        raise Undecided("macro match_eval_expr differs from the definition the expander knows")
    n = 0
    while True:
        i = fn_text.find("match_eval_expr!(")
        if i < 0:
            break
        p0 = i + len("match_eval_expr!")
        p1 = extract.match_brace(fn_text, p0)            # closing ')' of the invocation
        inner = fn_text[p0 + 1:p1]
        a = inner.index("(")
        bclose = extract.match_brace(inner, a)
        args = [x.strip() for x in inner[a + 1:bclose].split(",")]
        if len(args) != 3:
            raise Undecided("match_eval_expr!: unexpected argument list")
        c = inner.index("{", bclose)
        cclose = extract.match_brace(inner, c)
        arms = inner[c + 1:cclose]
        exp = ("{\n let value = " + callee + f"({args[0]}, {args[1]}, {args[2]})\n            .context(EvalExprFailed)?;\n"
               " match value.v {" + arms + "}\n}")
        fn_text = fn_text[:i] + exp + fn_text[p1 + 1:]
        n += 1
    return fn_text, n
