"""V-object: bind::bind_object and bind::bind_object_prop (C13 object destructuring with rename,
`_`, and `..rest`; C17).

Copied verbatim from /repo/src/eval/bind.rs.  Object cells are modelled under A-lock with an assumed
finite-map contract for BTreeMap; bind_next / bind_next_name / eval_expr_to_str are external with
uninterpreted deterministic contracts."""
import extract
import parts
import name_bind
from verus_engine import Built, assemble, desugar_for

NAME = "object_bind"
RLIMIT = 120

HASHSET = name_bind.MODEL[name_bind.MODEL.index("// ---- D3: std::collections::HashSet"):name_bind.MODEL.index("// ---- abstract view of the scope chain")]

MODEL = r"""
impl HashSet<String> {
    #[verifier::external_body]
    pub fn remove(&mut self, k: &String) -> (r: bool) ensures final(self)@ == old(self)@.remove(k@), r == old(self)@.contains(k@) { unimplemented!() }
}
// D5: the two iterator-adapter expressions of bind_object, as std contracts
//   lock_deref!(rhs).keys().cloned().collect::<HashSet<String>>()
#[verifier::external_body]
pub fn key_set(m: &Object) -> (r: HashSet<String>) ensures r@ == m@.dom() { unimplemented!() }
//   remaining_keys.iter().map(|k| (k.clone(), lock_deref!(rhs)[k].clone())).collect()
#[verifier::external_body]
pub fn restrict_to(m: &Object, keys: &HashSet<String>) -> (r: Object)
    requires keys@.subset_of(m@.dom()),     // `m[k]` panics for a key that is absent
    ensures r@ == m@.restrict(keys@)
{ unimplemented!() }

pub uninterp spec fn sem_str(w: W, e: Expr) -> (Result<String>, W);
pub uninterp spec fn sem_bind_next(w: W, names: Set<Seq<char>>, lhs: Expr, rhs: SourcedValue, op: Option<(BinaryOp, Location)>, bt: BindType)
    -> (Result<()>, W, Set<Seq<char>>);
pub uninterp spec fn sem_bind_name(w: W, names: Set<Seq<char>>, name: Seq<char>, loc: Location, rhs: SourcedValue, bt: BindType)
    -> (Result<()>, W, Set<Seq<char>>);
pub uninterp spec fn sem_new_object(m: Map<Seq<char>, SourcedValue>) -> SourcedValue;

pub mod eval {
    use super::*;
    #[verifier::external_body]
    pub fn eval_expr_to_str(context: &EvaluationContext, scopes: &mut ScopeStack, descr: &str, expr: &Expr) -> (r: Result<String>)
        ensures (r, final(scopes).world()) == sem_str(old(scopes).world(), *expr),
                r matches Err(e) ==> located(e),
    { unimplemented!() }
}
#[verifier::external_body]
pub fn bind_next(context: &EvaluationContext, scopes: &mut ScopeStack, names_in_binding: &mut HashSet<String>, lhs: &Expr, rhs: SourcedValue, op: Option<(BinaryOp, Location)>, bind_type: BindType) -> (r: Result<()>)
    ensures (r, final(scopes).world(), final(names_in_binding)@) == sem_bind_next(old(scopes).world(), old(names_in_binding)@, *lhs, rhs, op, bind_type),
            r matches Err(e) ==> located(e),
{ unimplemented!() }
// under contract in unit V-name
#[verifier::external_body]
fn bind_next_name(scopes: &mut ScopeStack, names_in_binding: &mut HashSet<String>, name: &str, name_loc: &(usize, usize), rhs: SourcedValue, op: Option<(BinaryOp, Location)>, bind_type: BindType) -> (r: Result<()>)
    ensures op is None ==> (r, final(scopes).world(), final(names_in_binding)@) == sem_bind_name(old(scopes).world(), old(names_in_binding)@, name@, *name_loc, rhs, bind_type),
            r matches Err(e) ==> located(e),
{ unimplemented!() }
pub mod value {
    use super::*;
    #[verifier::external_body]
    pub fn new_object(object: Object) -> (r: SourcedValue) ensures r == sem_new_object(object@) { unimplemented!() }
}

// ---- the reading of the property (C13) for `{a, "k": b, ..rest} := o`
pub struct St { pub ok: bool, pub w: W, pub names: Set<Seq<char>>, pub rem: Set<Seq<char>> }

// one named property: `_` discards (and does not even require the property); otherwise the
// property must exist and its value is bound to the (possibly nested) pattern
pub open spec fn bind_prop(w: W, names: Set<Seq<char>>, lhs: Expr, m: Map<Seq<char>, SourcedValue>, key: Seq<char>, bt: BindType)
    -> (bool, W, Set<Seq<char>>)
{
    if key == "_"@ { (true, w, names) }
    else if !m.contains_key(key) { (false, w, names) }
    else {
        let (r, w1, n1) = sem_bind_next(w, names, lhs, m[key], None, bt);
        (r is Ok, w1, n1)
    }
}
pub open spec fn obj_items(s: St, items: Seq<PropItem>, m: Map<Seq<char>, SourcedValue>, bt: BindType, i: int) -> St
    decreases items.len() - i
{
    if !s.ok || i < 0 || i >= items.len() { s } else {
        match items[i] {
            PropItem::Single{expr, is_spread, collect} => {
                if is_spread { St{ok: false, ..s} }
                else {
                    match expr.0 {
                        RawExpr::Var{name} => {
                            if collect {
                                if i != items.len() - 1 { St{ok: false, ..s} }
                                else {
                                    // `..rest` receives EXACTLY the properties not named before it, as a fresh object
                                    let (r, w1, n1) = sem_bind_name(s.w, s.names, name@, expr.1, sem_new_object(m.restrict(s.rem)), bt);
                                    St{ok: r is Ok, w: w1, names: n1, rem: s.rem}
                                }
                            } else {
                                let (ok, w1, n1) = bind_prop(s.w, s.names, expr, m, name@, bt);
                                let s1 = St{ok, w: w1, names: n1, rem: s.rem.remove(name@)};
                                if !ok { s1 } else { obj_items(s1, items, m, bt, i + 1) }
                            }
                        },
                        _ => St{ok: false, ..s},
                    }
                }
            },
            PropItem::Pair{name, value} => {
                let (rk, w1) = sem_str(s.w, name);
                match rk {
                    Err(_) => St{ok: false, w: w1, ..s},
                    Ok(k) => {
                        let (ok, w2, n2) = bind_prop(w1, s.names, value, m, k@, bt);
                        let s2 = St{ok, w: w2, names: n2, rem: s.rem.remove(k@)};
                        if !ok { s2 } else { obj_items(s2, items, m, bt, i + 1) }
                    },
                }
            },
        }
    }
}
"""

SPEC_OBJ = r"""
    ensures
        ({
            let m = rhs.0.0@;
            let s = obj_items(St{ok: true, w: old(scopes).world(), names: old(names_in_binding)@, rem: m.dom()}, lhs@, m, bind_type, 0);
            &&& (r is Ok) == s.ok // [C13_C20:object_pattern_binds_named_properties_and_rest_gets_exactly_the_remaining_ones_shape_errors_are_reported]
            &&& (r is Ok ==> final(scopes).world() == s.w && final(names_in_binding)@ == s.names)
        }),
        r matches Err(e) ==> located(e), // [C17:object_destructuring_errors_are_located]
"""
SPEC_PROP = r"""
    ensures
        (r is Ok, final(scopes).world(), final(names_in_binding)@)
            == bind_prop(old(scopes).world(), old(names_in_binding)@, *lhs, rhs.0.0@, prop_name.0@, bind_type), // [C13_C14_C20:a_named_property_must_exist_unless_the_target_is_underscore_and_its_value_is_bound_to_the_pattern]
        prop_name.0@ != "_"@ && !rhs.0.0@.contains_key(prop_name.0@) ==> r is Err
            && (r->Err_0 matches Error::AtLoc{source, line, col} && line == prop_name.1.0 && col == prop_name.1.1
                && (*source matches Error::PropNotFound{name} && name@ == prop_name.0@)), // [C13:missing_property_is_reported_at_the_property_name]
        r matches Err(e) ==> located(e), // [C17:object_destructuring_errors_are_located]
"""


def build(read):
    b = Built()
    err_text, variants = parts.error_text(b, read)
    f1 = parts.copy_item(b, read, "src/eval/bind.rs", "fn", "bind_object")
    f2 = parts.copy_item(b, read, "src/eval/bind.rs", "fn", "bind_object_prop")
    bt = parts.copy_item(b, read, "src/eval/bind.rs", "enum", "BindType")
    sel = parts.selectors_text(b, variants, [f1, f2])

    f1 = extract.rewrite_regex_once(
        f1, r"lock_deref!\(rhs\)\s*\.keys\(\)\s*\.cloned\(\)\s*\.collect::<HashSet<String>>\(\)",
        "key_set(&lock_deref!(rhs))", "bind_object: key set")
    f1 = extract.rewrite_regex_once(
        f1, r"remaining_keys\s*\.iter\(\)\s*\.map\(\|k\| \(\s*k\.clone\(\),\s*lock_deref!\(rhs\)\[k\]\.clone\(\),\s*\)\)\s*\.collect\(\)",
        "restrict_to(&lock_deref!(rhs), &remaining_keys)", "bind_object: restrict")
    b.edits.append("D5: bind_object: `lock_deref!(rhs).keys().cloned().collect::<HashSet<String>>()` -> `key_set(&lock_deref!(rhs))` (std contract: the key set)")
    b.edits.append("D5: bind_object: `remaining_keys.iter().map(|k| (k.clone(), lock_deref!(rhs)[k].clone())).collect()` -> "
                   "`restrict_to(&lock_deref!(rhs), &remaining_keys)` (std contract: restriction; the panic condition of `m[k]` is a checked precondition)")
    b.dropped.append("bind_object: the two iterator-adapter expressions (replaced by their std contracts)")
    hdr, body = extract.fn_header_body(f1)
    body = desugar_for(body, 1)
    b.edits.append("D5: bind_object: `for prop_item in lhs` (contains `continue`) -> Rust's own desugaring")
    # closure inside the loop
    f1 = hdr + body
    f1 = parts.annotate_closure(
        f1, "new_loc_err", "source: Error", "Result<()>",
        "r == Err::<(), Error>(Error::AtLoc{source: Box::new(source), line: prop_name_loc.0, col: prop_name_loc.1})", "bind_object")
    loops = {1: {"before": "let ghost m = lock_deref!(rhs)@;\n    let ghost s0 = St{ok: true, w: scopes.world(), names: names_in_binding@, rem: m.dom()};\n    let ghost mut gi: int = 0;",
                 "header": """        invariant
            0 <= gi <= lhs@.len(),
            gi == i || (gi == lhs@.len() && i == gi - 1),
            __it.remaining() == lhs@.map_values(|s: PropItem| &s).subrange(gi, lhs@.len() as int),
            remaining_keys@.subset_of(m.dom()),
            obj_items(s0, lhs@, m, bind_type, 0)
                == obj_items(St{ok: true, w: scopes.world(), names: names_in_binding@, rem: remaining_keys@}, lhs@, m, bind_type, gi),
        ensures
            obj_items(s0, lhs@, m, bind_type, 0) == (St{ok: true, w: scopes.world(), names: names_in_binding@, rem: remaining_keys@}),
        decreases lhs@.len() - gi"""}}
    f1 = extract.annotate_fn(f1, spec=SPEC_OBJ, attrs="#[verifier::exec_allows_no_decreases_clause]\n#[verifier::loop_isolation(false)]\n#[verifier::allow_complex_invariants]", loops=loops)
    f1 = extract.rewrite_once(f1, "let prop_item = match __it.next() { Some(__x) => __x, None => break };\n",
                              "let prop_item = match __it.next() { Some(__x) => __x, None => break };\n proof { gi = gi + 1; }\n", "bind_object: ghost index")
    f2 = parts.annotate_closure(
        f2, "new_loc_err", "source: Error", "Result<()>",
        "r == Err::<(), Error>(Error::AtLoc{source: Box::new(source), line: prop_name.1.0, col: prop_name.1.1})", "bind_object_prop")
    f2 = extract.annotate_fn(f2, spec=SPEC_PROP, attrs="#[verifier::exec_allows_no_decreases_clause]\n")
    # bind_name (the public entry with a FRESH name set): copied and verified too, so that a pattern which binds a
    # name through it (and so forgets the names bound so far) is seen
    f3 = parts.copy_item(b, read, "src/eval/bind.rs", "fn", "bind_name")
    f3 = extract.annotate_fn(f3, spec="""
    ensures
        ({ let x = sem_bind_name(old(scopes).world(), Set::<Seq<char>>::empty(), name@, *name_loc, rhs, bind_type);
           r == x.0 && final(scopes).world() == x.1 }),
        r matches Err(e) ==> located(e),
""", attrs="#[verifier::exec_allows_no_decreases_clause]\n")
    b.edits.append("annotation: closures `new_loc_err` given parameter type, named result and literal postcondition")
    b.edits.append("D3: std HashSet<String> / BTreeMap<String, SourcedValue> replaced by assumed set / finite-map contracts")

    b.text = assemble([
        "// GENERATED on every run by /verif/verus/object_bind.py from /repo's working tree - do not edit",
        parts.HEADER.replace("use std::collections::HashSet;\n", ""), parts.OPAQUE_CONTEXT, parts.OPAQUE_SCOPES,
        sel, err_text, parts.located_spec(variants), parts.ast_text(b, read),
        parts.value_items(b, read), parts.value_model(True), HASHSET,
        "// ---- verbatim from src/eval/bind.rs", bt,
        "impl Clone for BindType { #[verifier::external_body] fn clone(&self) -> (r: Self) ensures r == *self { unimplemented!() } }\nimpl Copy for BindType {}",
        parts.with_wrapper_ctors(MODEL, b, read),
        "// ---- functions under contract (verbatim bodies; contract text inserted at anchors)",
        f1, f2, f3,
        parts.FOOTER,
    ])
    return b


def _expect(exp_out=None, err_sub=None):
    def judge(rc, out, err):
        if rc not in (0, 103):
            return f"interpreter crashed (exit {rc})"
        if exp_out is not None and (rc != 0 or out != exp_out):
            return f"expected success with stdout {exp_out!r}"
        if err_sub is not None and (rc != 103 or err_sub not in err):
            return f"expected a reported error containing {err_sub!r}"
        return None
    return judge


def replays(failed):
    yield ("rest is exactly the remaining properties", "o := {\"a\": 1, \"b\": 2, \"c\": 3}\n{a, ..r} := o\nprint(r == {\"b\": 2, \"c\": 3})\n", _expect("true\n"))
    yield ("round trip", "o := {\"a\": 1, \"k\": 2, \"z\": 3}\n{a, \"k\": b, ..rest} := o\nprint({\"a\": a, \"k\": b, rest..} == o)\n", _expect("true\n"))
    yield ("rename", "{\"x\": y} := {\"x\": 5}\nprint(y)\n", _expect("5\n"))
    yield ("missing property", "{a} := {\"b\": 1}\n", _expect(err_sub="1:2:"))
    yield ("underscore discards", "{\"a\": _, b} := {\"a\": 1, \"b\": 2}\nprint(b)\n", _expect("2\n"))
    yield ("collect must be last", "{..r, a} := {\"a\": 1}\n", _expect(err_sub="only the last item"))
    yield ("non-object source", "{a} := 1\n", _expect(err_sub="1:1:"))
    yield ("assigning through a pattern needs every target, also the collector, to be declared",
           "o := {\"a\": 1, \"b\": 2}\na := 0\n{a, ..others} = o\nprint(a)\n", _expect(err_sub="'others' is not defined"))
    yield ("assigning through a pattern updates the outer variables, also the collector",
           "o := {\"a\": 1, \"b\": 2}\na := 0\nrest := null\n{\n    {a, ..rest} = o\n}\nprint(a)\nprint(rest == {\"b\": 2})\n", _expect("1\ntrue\n"))
    yield ("a rest key named like the collector stays in the rest", "{a, ..rest} := {\"a\": 1, \"rest\": 2, \"z\": 3}\nprint(rest == {\"rest\": 2, \"z\": 3})\n", _expect("true\n"))
    yield ("a discarded pair still needs its property", "{\"host\": _, port} := {\"port\": 80}\n", _expect(err_sub="doesn't contain property 'host'"))
