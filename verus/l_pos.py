"""L-pos (C18): Verus lemma file lifting the scanner's one-step Kani contract to the closed form."""
import os
from verus_engine import Built

NAME = "l_pos"
RLIMIT = 60


def build(read):
    b = Built()
    b.text = open(os.path.join(os.path.dirname(os.path.abspath(__file__)), "l_pos.rs")).read()
    b.edits.append("none: lemma file over the ensures clauses of Kani units c18_scanner_new_base / c18_next_char_step")
    return b
