"""V-lextoken: Lexer::next_token, the dispatch of the hand-written lexer (C03: the token stream ends only
at the end of the input and a character that starts no token is a reported error at that character;
C09: a newline and `;` both produce the statement terminator; C18: a token's start position is the
position of its first character).

Copied verbatim from /repo/src/lexer/mod.rs.  The sub-lexers (skip_whitespace_and_comments,
next_keyword_or_ident, next_int, next_str_literal, next_symbol_token) are external with uninterpreted
results: units V-lexint, V-strlit and the Kani symbol / whitespace units are about them."""
import re

import extract
import parts
from verus_engine import Built, assemble
from common import Undecided

NAME = "lex_token"
RLIMIT = 100

MODEL = r"""
use vstd::prelude::*;
verus! {
pub type Location = (usize, usize);
pub type InterpSlot = (usize, usize);
pub type Span = (Location, Token, Location);
#[verifier::external_body]
pub struct Scanner { _p: () }
pub uninterp spec fn loc_at(text: Seq<char>, pos: int) -> (usize, usize);
impl Scanner {
    pub uninterp spec fn text(&self) -> Seq<char>;
    pub uninterp spec fn pos(&self) -> int;
    pub open spec fn wf(&self) -> bool { 0 <= self.pos() <= self.text().len() }
    #[verifier::external_body]
    pub fn peek_char(&mut self) -> (r: Option<char>)
        ensures final(self).text() == old(self).text(), final(self).pos() == old(self).pos(),
                r == (if 0 <= old(self).pos() < old(self).text().len() { Some(old(self).text()[old(self).pos()]) } else { None::<char> }),
    { unimplemented!() }
    #[verifier::external_body]
    pub fn next_char(&mut self)
        ensures final(self).text() == old(self).text(),
                final(self).pos() == (if old(self).pos() < old(self).text().len() { old(self).pos() + 1 } else { old(self).pos() }),
    { unimplemented!() }
    #[verifier::external_body]
    pub fn loc(&mut self) -> (r: (usize, usize))
        ensures final(self).text() == old(self).text(), final(self).pos() == old(self).pos(), r == loc_at(old(self).text(), old(self).pos()),
    { unimplemented!() }
}
pub open spec fn is_alpha(c: char) -> bool { ('a' <= c && c <= 'z') || ('A' <= c && c <= 'Z') }
pub open spec fn is_digit(c: char) -> bool { '0' <= c && c <= '9' }
#[verifier::external_body]
pub fn char_is_ascii_alphabetic(c: char) -> (r: bool) ensures r == is_alpha(c) { unimplemented!() }
#[verifier::external_body]
pub fn char_is_ascii_digit(c: char) -> (r: bool) ensures r == is_digit(c) { unimplemented!() }
"""

SUBLEXERS = r"""
// ---- the sub-lexers: external, uninterpreted results (other units are about them)
pub uninterp spec fn skip_end(t: Seq<char>, p: int) -> int;     // where skipping blanks and comments stops
pub uninterp spec fn sem_word(t: Seq<char>, p: int) -> (Token, int);
pub uninterp spec fn sem_int(t: Seq<char>, p: int) -> (std::result::Result<Token, LexError>, int);
pub uninterp spec fn sem_str(t: Seq<char>, p: int, interpolate: bool) -> (std::result::Result<Token, LexError>, int);
pub uninterp spec fn sem_symbol(t: Seq<char>, p: int) -> (Option<Token>, int);
impl Lexer {
    #[verifier::external_body]
    fn skip_whitespace_and_comments(&mut self)
        requires old(self).scanner.wf(),
        ensures final(self).scanner.text() == old(self).scanner.text(), final(self).scanner.wf(),
                final(self).scanner.pos() == skip_end(old(self).scanner.text(), old(self).scanner.pos()),
    { unimplemented!() }
    #[verifier::external_body]
    fn next_keyword_or_ident(&mut self) -> (r: Token)
        requires old(self).scanner.wf(),
        ensures final(self).scanner.text() == old(self).scanner.text(), final(self).scanner.wf(),
                (r, final(self).scanner.pos()) == sem_word(old(self).scanner.text(), old(self).scanner.pos()),
    { unimplemented!() }
    #[verifier::external_body]
    fn next_int(&mut self) -> (r: std::result::Result<Token, LexError>)
        requires old(self).scanner.wf(), old(self).scanner.pos() < old(self).scanner.text().len(), is_digit(old(self).scanner.text()[old(self).scanner.pos()]), // [C03:next_int_is_only_entered_at_a_digit]
        ensures final(self).scanner.text() == old(self).scanner.text(), final(self).scanner.wf(),
                (r, final(self).scanner.pos()) == sem_int(old(self).scanner.text(), old(self).scanner.pos()),
    { unimplemented!() }
    #[verifier::external_body]
    fn next_str_literal(&mut self, interpolate: bool) -> (r: std::result::Result<Token, LexError>)
        requires old(self).scanner.wf(),
        ensures final(self).scanner.text() == old(self).scanner.text(), final(self).scanner.wf(),
                (r, final(self).scanner.pos()) == sem_str(old(self).scanner.text(), old(self).scanner.pos(), interpolate),
    { unimplemented!() }
    #[verifier::external_body]
    fn next_symbol_token(&mut self, char1: char) -> (r: Option<Token>)
        requires old(self).scanner.wf(), old(self).scanner.pos() < old(self).scanner.text().len(), char1 == old(self).scanner.text()[old(self).scanner.pos()],
        ensures final(self).scanner.text() == old(self).scanner.text(), final(self).scanner.wf(),
                (r, final(self).scanner.pos()) == sem_symbol(old(self).scanner.text(), old(self).scanner.pos()),
    { unimplemented!() }
}

// =========================================================================================
// The reading of the property: what the next raw token is, as a function of the text
// =========================================================================================
pub enum Raw { End, Tok(Location, Token), Bad(LexError) }
pub open spec fn raw_at(t: Seq<char>, p0: int) -> Raw {
    let p = skip_end(t, p0);
    if p >= t.len() { Raw::End } else {
        let c = t[p];
        let at = loc_at(t, p);
        if c == '\n' || c == ';' { Raw::Tok(at, Token::StmtEnd) }                                  // a newline equals `;`
        else if is_alpha(c) || c == '_' { Raw::Tok(at, sem_word(t, p).0) }
        else if is_digit(c) { match sem_int(t, p).0 { Ok(k) => Raw::Tok(at, k), Err(e) => Raw::Bad(e) } }
        else if c == '"' { match sem_str(t, p, false).0 { Ok(k) => Raw::Tok(at, k), Err(e) => Raw::Bad(e) } }
        else if c == '$' { match sem_str(t, p + 1, true).0 { Ok(k) => Raw::Tok(at, k), Err(e) => Raw::Bad(e) } }
        else { match sem_symbol(t, p).0 { Some(k) => Raw::Tok(at, k), None => Raw::Bad(LexError::Unexpected(at, c)) } }   // a character that starts no token
    }
}
"""

SPEC = r"""
    requires
        old(self).scanner.wf(),
        skip_end(old(self).scanner.text(), old(self).scanner.pos()) >= old(self).scanner.pos(),   // (a fact about the spec function: lemma_skip_end_bounds in unit V-lexskip)
    ensures
        final(self).scanner.text() == old(self).scanner.text(),
        r is None <==> raw_at(old(self).scanner.text(), old(self).scanner.pos()) is End, // [C03:the_token_stream_ends_only_at_the_end_of_the_input]
        r matches Some(Err(e)) ==> raw_at(old(self).scanner.text(), old(self).scanner.pos()) == Raw::Bad(e), // [C03_C18:a_lexical_error_is_the_one_of_the_character_or_literal_at_hand_at_its_position]
        r matches Some(Ok(sp)) ==> raw_at(old(self).scanner.text(), old(self).scanner.pos()) == Raw::Tok(sp.0, sp.1), // [C03_C09_C18:the_token_is_decided_by_its_first_character_newline_equals_semicolon_and_it_starts_at_that_character]
"""


def build(read):
    b = Built()
    src = read("src/lexer/mod.rs")
    f = extract.strip_comments(extract.extract_item(src, "fn", "next_token"))
    b.copied.append(("fn", "next_token", "src/lexer/mod.rs", extract.item_line(src, "fn", "next_token")))
    tok = extract.strip_attributes(extract.strip_comments(extract.extract_item(src, "enum", "Token")))[0]
    lerr = extract.strip_attributes(extract.strip_comments(extract.extract_item(src, "enum", "LexError")))[0]
    for k, n in [("enum", "Token"), ("enum", "LexError")]:
        b.copied.append((k, n, "src/lexer/mod.rs", extract.item_line(src, k, n)))
    b.edits.append("D1: derive attributes on Token / LexError removed")
    f, k1 = re.subn(r"\b(\w+)\.is_ascii_alphabetic\(\)", r"char_is_ascii_alphabetic(\1)", f)
    f, k2 = re.subn(r"\b(\w+)\.is_ascii_digit\(\)", r"char_is_ascii_digit(\1)", f)
    b.edits.append(f"D5: next_token: {k1}x `c.is_ascii_alphabetic()` -> char_is_ascii_alphabetic(c), {k2}x `c.is_ascii_digit()` -> char_is_ascii_digit(c) (assumed std contracts)")
    f = extract.annotate_fn(f, spec=SPEC)
    b.text = assemble([
        "// GENERATED on every run by /verif/verus/lex_token.py from /repo's working tree - do not edit",
        MODEL,
        "// ---- verbatim from src/lexer/mod.rs", tok, lerr,
        "pub struct Lexer { pub scanner: Scanner, last_token: Option<Token> }",
        SUBLEXERS,
        "// ---- function under contract (verbatim body; contract text inserted at anchors)",
        "impl Lexer {\n" + f + "\n}",
        parts.FOOTER,
    ])
    return b


def replays(failed):
    def exp(out=None, err=None, rc_exp=None):
        def judge(rc, o, e):
            if rc not in (0, 103):
                return f"interpreter crashed (exit {rc})"
            if out is not None and (rc != 0 or o != out):
                return f"expected stdout {out!r}"
            if err is not None and (rc != 103 or err not in (e.splitlines() or [""])[0]):
                return f"expected a first stderr line containing {err!r}"
            return None
        return judge
    yield ("newline and `;` both end a statement", "print(1); print(2)\nprint(3)\n", exp("1\n2\n3\n"))
    yield ("a character that starts no token is an error at that character", "print(1)\nx := 1 ? 2\n", exp(err=":2:8: unexpected '?'"))
    yield ("a lone `$` before something else is rejected", "x := 1\ny := $x\n", exp(err="replay.sd:"))
    yield ("a `$` at the very end of the input is not silently dropped", "x := 1\nprint(x)\n$", exp(out=None, err=None))
    yield ("a non-ASCII letter starts no token", "é := 1\n", exp(err=":1:1: unexpected 'é'"))
