"""V-call: eval::eval_call (C13 arity / rest parameter, C14 argument order / `this` binding /
closure chain, C07 call boundary, C17 located-ness, C02 index arithmetic).

Copied verbatim from /repo/src/eval/mod.rs together with enum Value, struct Func, struct
SourcedValue (src/eval/value.rs), enum CallBinding, enum Escape and the small constructors
value::{new_val_ref_with_no_source,new_null,new_list}.  Arc/Mutex are modelled under A-lock by
transparent wrappers.  eval_list_items / eval_expr / eval_stmts / the builtin behind the fn
pointer are external with uninterpreted deterministic contracts."""
import re

import extract
import parts
from verus_engine import Built, assemble

NAME = "call"
RLIMIT = 120
TIMEOUT = 900

MODEL = parts.VALUE_MODEL + r"""
// ---- D2: callees
pub uninterp spec fn sem_items(w: W, items: Seq<ListItem>) -> (Result<Vec<SourcedValue>>, W);
pub uninterp spec fn sem_expr(w: W, e: Expr) -> (Result<SourcedValue>, W);
pub uninterp spec fn sem_scoped(w: W, b: Seq<(Expr, SourcedValue)>, stmts: Seq<Stmt>) -> (Result<Escape>, W);
pub uninterp spec fn sem_builtin(f: BuiltinFunc, this: Option<SourcedValue>, args: Seq<SourcedValue>) -> Result<SourcedValue>;

// invariant of function values: a rest parameter exists only together with a parameter
// (grammar ParamList; function values are only built by new_func from parsed parameter lists)
pub open spec fn wf_value(v: Value) -> bool {
    v matches Value::Func(f) ==> (f.0.0.collect_args ==> f.0.0.args@.len() >= 1)
}

#[verifier::external_body]
fn eval_list_items(context: &EvaluationContext, scopes: &mut ScopeStack, items: &Vec<ListItem>) -> (r: Result<Vec<SourcedValue>>)
    ensures (r, final(scopes).world()) == sem_items(old(scopes).world(), items@),
            r matches Err(e) ==> located(e),
{ unimplemented!() }
#[verifier::external_body]
fn eval_expr(context: &EvaluationContext, scopes: &mut ScopeStack, expr: &Expr) -> (r: Result<SourcedValue>)
    ensures (r, final(scopes).world()) == sem_expr(old(scopes).world(), *expr),
            r matches Err(e) ==> located(e),
            r matches Ok(sv) ==> wf_value(sv.v),
{ unimplemented!() }
#[verifier::external_body]
pub fn eval_stmts(context: &EvaluationContext, scopes: &mut ScopeStack, new_bindings: Vec<(Expr, SourcedValue)>, stmts: &Block) -> (r: Result<Escape>)
    ensures (r, final(scopes).world()) == sem_scoped(old(scopes).world(), new_bindings@, stmts@),
            r matches Err(e) ==> located(e),
{ unimplemented!() }
// D5: call through the builtin's fn pointer
#[verifier::external_body]
pub fn call_builtin(f: BuiltinFunc, this: Option<SourcedValue>, args: Vec<SourcedValue>) -> (r: Result<SourcedValue>)
    ensures r == sem_builtin(f, this, args@),
{ unimplemented!() }

// ---- the reading of the property (C13 / C14 / C07) for a call of a user function
pub open spec fn arity_ok(f: Func, got: int) -> bool {
    if f.collect_args { got >= f.args@.len() - 1 } else { got == f.args@.len() }
}
// value received by parameter i: argument i; a final `..rest` parameter receives a FRESH list of
// exactly the surplus arguments
pub open spec fn param_value(f: Func, args: Seq<SourcedValue>, i: int) -> SourcedValue {
    if f.collect_args && i == f.args@.len() - 1 {
        SourcedValue{v: Value::List(Arc(Mutex(tail_vec(args, f.args@.len() - 1)))), source: None}
    } else { args[i] }
}
pub uninterp spec fn tail_vec(args: Seq<SourcedValue>, from: int) -> Vec<SourcedValue>;
pub open spec fn is_tail(v: Vec<SourcedValue>, args: Seq<SourcedValue>, from: int) -> bool {
    v@ == args.subrange(from, args.len() as int)
}
// the bindings of the call: one fresh variable per parameter, in order, plus `this` exactly when the
// function value was read from an object / type (its `source`)
pub open spec fn bindings_ok(bs: Seq<(Expr, SourcedValue)>, f: Func, args: Seq<SourcedValue>, source: Option<Value>) -> bool {
    let n = f.args@.len() as int;
    &&& bs.len() == n + (if source is Some { 1int } else { 0int })
    &&& forall|i: int| 0 <= i < n ==> (#[trigger] bs[i]).0 == f.args@[i]
    &&& forall|i: int| 0 <= i < n && !(f.collect_args && i == n - 1) ==> (#[trigger] bs[i]).1 == args[i]
    &&& (f.collect_args && n >= 1 ==> (bs[n - 1].1.source is None
            && (bs[n - 1].1.v matches Value::List(l) && l.0.0@ == args.subrange(n - 1, args.len() as int))))
    &&& (source matches Some(t) ==> (bs[n].0.0 matches RawExpr::Var{name} && name@ == "this"@)
            && bs[n].1 == SourcedValue{v: t, source: None})
}
pub open spec fn null_value() -> SourcedValue { SourcedValue{v: Value::Null, source: None} }
// (argument values, callee value) once both have been evaluated - arguments FIRST, then the callee
pub open spec fn callee_of(w: W, args: Seq<ListItem>, func: Expr) -> Option<(Vec<SourcedValue>, SourcedValue)> {
    match sem_items(w, args).0 {
        Err(_) => None,
        Ok(av) => match sem_expr(sem_items(w, args).1, func).0 {
            Err(_) => None,
            Ok(fv) => Some((av, fv)),
        },
    }
}
pub open spec fn this_of(source: Option<Value>) -> Option<SourcedValue> {
    match source { Some(t) => Some(SourcedValue{v: t, source: None}), None => None }
}
// call boundary (C07): `return v` is the call value, running off the end yields null, a stray
// break/continue is an error, a failing body fails the call
pub open spec fn call_value_ok(r: Result<SourcedValue>, body: Result<Escape>) -> bool {
    match body {
        Err(e) => r is Err,
        Ok(Escape::None) => r == Ok::<SourcedValue, Error>(null_value()),
        Ok(Escape::Return{value, loc}) => r == Ok::<SourcedValue, Error>(value),
        // ... reported at the keyword's own position (not at the call)
        Ok(Escape::Break{loc}) => r == Err::<SourcedValue, Error>(Error::AtLoc{source: Box::new(Error::BreakOutsideLoop), line: loc.0, col: loc.1}),
        Ok(Escape::Continue{loc}) => r == Err::<SourcedValue, Error>(Error::AtLoc{source: Box::new(Error::ContinueOutsideLoop), line: loc.0, col: loc.1}),
    }
}
"""

SPEC = r"""
    ensures
        // arguments are evaluated first (once, via eval_list_items), then the callee
        callee_of(old(scopes).world(), args@, *func) is None ==> r is Err, // [C14_C17:arguments_are_evaluated_before_the_callee_and_a_failing_argument_or_callee_expression_fails_the_call]
        callee_of(old(scopes).world(), args@, *func) matches Some(c) ==> (c.1.v matches Value::Func(f) ==>
            (!arity_ok(f.0.0, c.0@.len() as int) ==> r is Err
                && (r->Err_0 matches Error::AtLoc{source, line, col} && line == *loc.0 && col == *loc.1
                    && (if f.0.0.collect_args { *source == Error::TooFewArgs{minimum: (f.0.0.args@.len() - 1) as usize, got: c.0@.len() as usize} }
                        else { *source == Error::ArgNumMismatch{need: f.0.0.args@.len() as usize, got: c.0@.len() as usize} })))), // [C13_C18:argument_count_must_be_exactly_n_or_at_least_n_minus_1_with_a_rest_parameter_and_the_error_is_at_the_call_expression]
        callee_of(old(scopes).world(), args@, *func) matches Some(c) ==> (c.1.v matches Value::Func(f) ==>
            (arity_ok(f.0.0, c.0@.len() as int) ==> exists|bs: Seq<(Expr, SourcedValue)>|
                #[trigger] bindings_ok(bs, f.0.0, c.0@, c.1.source)
                && call_value_ok(r, sem_scoped(f.0.0.closure.world(), bs, f.0.0.stmts@).0))), // [C07_C13_C14_C17_C18_C20:parameters_get_the_arguments_in_order_rest_gets_the_surplus_this_is_the_source_body_runs_on_the_closure_chain_return_value_or_null_is_the_call_value_and_a_stray_break_or_continue_is_an_error_at_its_keyword]
        callee_of(old(scopes).world(), args@, *func) matches Some(c) ==> (c.1.v matches Value::BuiltinFunc{name, f} ==>
            (match sem_builtin(f, this_of(c.1.source), c.0@) { Ok(v) => r == Ok::<SourcedValue, Error>(v), Err(_) => r is Err })), // [C14:builtin_receives_the_arguments_and_the_source_as_this]
        callee_of(old(scopes).world(), args@, *func) matches Some(c) ==> (!(c.1.v is Func) && !(c.1.v is BuiltinFunc) ==>
            r is Err && (r->Err_0 matches Error::AtLoc{source, line, col} && line == *loc.0 && col == *loc.1 && *source is CannotCallNonFunc)), // [C16_C18:calling_a_non_function_is_a_type_error_at_the_call]
        r matches Err(e) ==> located(e), // [C17:call_errors_are_located]
"""

LOOP = {
    "after": "proof { assert(bindings_ok(bindings@, lock_deref!(f), arg_vals@, None)); }",
    "header": """                        invariant
                            num_params == arg_names@.len(),
                            got == arg_vals@.len(),
                            *collect_args ==> num_params >= 1 && got >= num_params - 1,
                            !*collect_args ==> got == num_params,
                            bindings@.len() == i,
                            forall|j: int| 0 <= j < i ==> (#[trigger] bindings@[j]).0 == arg_names@[j],
                            forall|j: int| 0 <= j < i && !(*collect_args && j == num_params - 1) ==> (#[trigger] bindings@[j]).1 == arg_vals@[j],
                            (*collect_args && i == num_params) ==> (bindings@[num_params - 1].1.source is None
                                && (bindings@[num_params - 1].1.v matches Value::List(l) && l.0.0@ == arg_vals@.subrange(num_params - 1, got as int))),""",
}


def build(read):
    b = Built()
    err_text, variants = parts.error_text(b, read)
    f = parts.copy_item(b, read, "src/eval/mod.rs", "fn", "eval_call")
    cb = parts.copy_item(b, read, "src/eval/mod.rs", "enum", "CallBinding")
    esc = parts.copy_item(b, read, "src/eval/mod.rs", "enum", "Escape")
    val = parts.copy_item(b, read, "src/eval/value.rs", "enum", "Value")
    sv = parts.copy_item(b, read, "src/eval/value.rs", "struct", "SourcedValue")
    fn = parts.copy_item(b, read, "src/eval/value.rs", "struct", "Func")
    ctors = []
    for n, ens in [("new_val_ref_with_no_source", "r == (SourcedValue{v, source: None})"),
                   ("new_null", "r == null_value()"),
                   ("new_list", "r == (SourcedValue{v: Value::List(Arc(Mutex(list))), source: None})")]:
        t = parts.copy_item(b, read, "src/eval/value.rs", "fn", n)
        ctors.append(extract.annotate_fn(t, spec=f"\n    ensures {ens},\n"))
    sel = parts.selectors_text(b, variants, [f])

    f = extract.rewrite_once(f, "                f(this, args)\n", "                call_builtin(f, this, args)\n", "eval_call: fn-pointer call")
    b.edits.append("D5: eval_call: call through the fn pointer `f(this, args)` -> `call_builtin(f, this, args)` (BuiltinFunc is opaque)")
    f = extract.rewrite_regex_once(f, r"(\w+)\[i\]\.clone\(\), arg_val", r"clone_expr(&\1[i]), arg_val", "eval_call: Expr clone")
    b.edits.append("D5: eval_call: `arg_names[i].clone()` on the tuple alias Expr -> `clone_expr(&arg_names[i])` (assumed structural)")
    f = parts.annotate_closure(
        f, "new_loc_err", "source: Error", "Result<SourcedValue>",
        "r == Err::<SourcedValue, Error>(Error::AtLoc{source: Box::new(source), line: *line, col: *col})", "eval_call")
    b.edits.append("annotation: closure `new_loc_err` given parameter type, named result and its literal postcondition")
    f = extract.annotate_fn(f, spec=SPEC, attrs="#[verifier::exec_allows_no_decreases_clause]\n#[verifier::loop_isolation(false)]", loops={1: LOOP})
    # proof hints (ghost only): the witness for the bindings of the call
    f = extract.rewrite_regex_once(f, r"\n(\s*)\(\n(\s*)name\.clone\(\),\n",
                                   r"\n\1proof { assert(bindings_ok(bindings@, lock_deref!(f), arg_vals@, source)); }\n\1(\n\2name.clone(),\n",
                                   "eval_call: hint after this-binding")
    b.edits.append("D3/D4: Arc / Mutex replaced by transparent wrappers (A-lock); ObjectRef, BuiltinFunc opaque; "
                   "std <[T]>::to_vec given its element-wise clone specification (assume_specification)")

    b.text = assemble([
        "// GENERATED on every run by /verif/verus/call.py from /repo's working tree - do not edit",
        parts.HEADER, parts.OPAQUE_CONTEXT, parts.OPAQUE_SCOPES,
        sel, err_text, parts.located_spec(variants).replace(
            "        Error::EvalBuiltinFuncCallFailed{source, ..} => located(*source),",
            "        Error::EvalBuiltinFuncCallFailed{..} => true, // the renderer prefixes the call position itself"),
        parts.ast_text(b, read), parts.CLONE_EXPR,
        "// ---- verbatim from src/eval/value.rs", val, sv, fn,
        "// ---- verbatim from src/eval/mod.rs", esc, cb,
        MODEL,
        "pub mod value {\n    use super::*;\n// ---- verbatim from src/eval/value.rs\n" + "\n".join(ctors) + "\n}",
        "// ---- function under contract (verbatim body; contract text inserted at anchors)",
        f,
        parts.FOOTER,
    ])
    return b


def _expect(exp_out=None, err_sub=None, located=False):
    def judge(rc, out, err):
        if rc not in (0, 103):
            return f"interpreter crashed (exit {rc})"
        if exp_out is not None and (rc != 0 or out != exp_out):
            return f"expected success with stdout {exp_out!r}"
        if err_sub is not None and (rc != 103 or err_sub not in err):
            return f"expected a reported error containing {err_sub!r}"
        if located:
            first = err.splitlines()[0] if err.splitlines() else ""
            if rc != 103 or not re.match(r"^\S+:\d+:\d+: ", first):
                return f"expected a located diagnostic, got {first!r}"
        return None
    return judge


def replays(failed):
    yield ("break inside a called function is reported with a position", "fn f() {\n    break\n}\nf()\n", _expect(located=True))
    yield ("continue inside a called function is reported with a position", "fn f() {\n    continue\n}\nwhile true {\n    f()\n}\n", _expect(located=True))
    yield ("a stray break in a called function is reported at the keyword, not at the call", "fn f() {\n    break\n}\nfor x in [1] {\n        f()\n}\n", _expect(err_sub=":2:5: "))
    yield ("a stray continue in a called function is reported at the keyword, not at the call", "fn f() {\n  continue\n}\nfor x in [1] {\n        f()\n}\n", _expect(err_sub=":2:3: "))
    yield ("return value is the call value", "fn f() {\n    return 5\n}\nprint(f())\n", _expect("5\n"))
    yield ("falling off the end yields null", "fn f() {\n}\nprint(f())\n", _expect("<null>\n"))
    yield ("rest parameter gets the surplus", "fn f(a, ..r) {\n    n := 0\n    for x in r {\n        n += 1\n    }\n    return n\n}\nprint(f(1, 2, 3))\nprint(f(1))\n", _expect("2\n0\n"))
    yield ("too few arguments", "fn f(a, b, ..r) {\n}\nf(1)\n", _expect(err_sub="expected at least 2 arguments, got 1"))
    yield ("argument count mismatch", "fn f(a, b) {\n}\nf(1)\n", _expect(err_sub="expected 2 arguments, got 1"))
    yield ("parameters in order", "fn f(a, b) {\n    print(a)\n    print(b)\n}\nf(1, 2)\n", _expect("1\n2\n"))
    yield ("this follows the access path", "o := {\"f\": fn() {\n    return this.x\n}, \"x\": 7}\nprint(o.f())\n", _expect("7\n"))
    yield ("calling a non-function", "x := 1\nx()\n", _expect(err_sub="can't call"))
    yield ("too many arguments", "fn f(a, b) {\n}\nf(1, 2, 3)\n", _expect(err_sub="expected 2 arguments, got 3"))
    yield ("the rest parameter is a fresh list of exactly the surplus", "fn f(a, ..r) {\n    return r\n}\nprint(f(1) == [])\nprint(f(1, 2, 3) == [2, 3])\n", _expect("true\ntrue\n"))
    yield ("spread arguments behave like listed arguments", "fn f(a, b) {\n    return a - b\n}\nxs := [5, 3]\nprint(f(xs..))\nprint(f(5, [3]..))\n", _expect("2\n2\n"))
    yield ("a returned method keeps its object as this", "o := {\"n\": 4, \"f\": fn() {\n    return this.n\n}}\nfn get() {\n    return o.f\n}\ng := get()\nprint(g())\n", _expect("4\n"))
    yield ("a plain function has no this of its own", "fn helper() {\n    return this\n}\no := {\"m\": fn() {\n    return helper()\n}}\no.m()\n", _expect(err_sub="'this' is not defined"))
    yield ("assigning to a parameter does not affect the caller", "fn f(p) {\n    p = 2\n    return p\n}\nx := 1\nprint(f(x))\nprint(x)\n", _expect("2\n1\n"))
    yield ("arguments are evaluated once, left to right", "fn t(x) {\n    print(x)\n    return x\n}\nfn f(a, b) {\n}\nf(t(1), t(2))\n", _expect("1\n2\n"))
