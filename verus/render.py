"""V-render: main.rs::eval_err_to_stacktrace (C17).

The renderer peels an explicit, hand-maintained or-pattern of ~60 context wrappers; an error that
travels through a wrapper missing from that list is printed as raw internal Display text without
position or stack trace.  The contract is generated from the extracted `enum Error` on every run:
EVERY variant carrying `source: Box<Error>` is either one of the three special wrappers
(AtLoc, EvalFuncCallFailed, EvalBuiltinFuncCallFailed) or must be transparent."""
import extract
import parts
from verus_engine import Built, assemble

NAME = "render"
RLIMIT = 60

SPECIAL = ("AtLoc", "EvalFuncCallFailed", "EvalBuiltinFuncCallFailed")

PRE = r"""
pub type EvalError = Error;
// D3: std::path::Path as an opaque type with the one method used
#[verifier::external_body]
pub struct Path { _p: () }
impl Path {
    pub uninterp spec fn lossy(&self) -> Seq<char>;
    #[verifier::external_body]
    pub fn to_string_lossy(&self) -> (r: String) ensures r@ == self.lossy() { unimplemented!() }
}
// D6: format! is expanded piece by piece (std::fmt, ASSUMED contracts)
pub uninterp spec fn shown_usize(n: usize) -> Seq<char>;
pub uninterp spec fn shown_error(e: Error) -> Seq<char>;       // snafu's Display of a leaf error: the message text itself is not under contract
pub trait Disp { spec fn shown(&self) -> Seq<char>; }
impl Disp for usize { open spec fn shown(&self) -> Seq<char> { shown_usize(*self) } }
impl Disp for String { open spec fn shown(&self) -> Seq<char> { self@ } }
impl Disp for &str { open spec fn shown(&self) -> Seq<char> { self@ } }
impl Disp for Error { open spec fn shown(&self) -> Seq<char> { shown_error(*self) } }
impl<T: Disp> Disp for &T { open spec fn shown(&self) -> Seq<char> { (**self).shown() } }
#[verifier::external_body]
pub fn fmt_lit(s: &str) -> (r: String) ensures r@ == s@ { unimplemented!() }
#[verifier::external_body]
pub fn fmt_disp<T: Disp>(x: &T) -> (r: String) ensures r@ == x.shown() { unimplemented!() }
#[verifier::external_body]
pub fn fmt_cat(a: String, b: String) -> (r: String) ensures r@ == a@ + b@ { unimplemented!() }
#[verifier::external_body]
pub fn str_to_string(s: &str) -> (r: String) ensures r@ == s@ { unimplemented!() }
"""


def frames_spec(variants):
    arms = []
    transparent = []
    for name, fields in variants:
        f = dict(fields)
        if f.get("source") != "Box<Error>":
            continue
        if name == "EvalFuncCallFailed":
            arms.append(f"        Error::{name}{{source, ..}} => frames(*source) + 1, // one stack-trace line per active user call")
        elif name in SPECIAL:
            arms.append(f"        Error::{name}{{source, ..}} => frames(*source),")
        else:
            transparent.append(name)
            arms.append(f"        Error::{name}{{source, ..}} => frames(*source), // transparent[{name}]")
    arms.append("        _ => 0,")
    txt = ("// Number of `Stacktrace:` lines the renderer must produce for an error: context wrappers are\n"
           "// invisible, every user-call wrapper contributes exactly one line, innermost first.\n"
           "pub open spec fn frames(e: Error) -> nat\n    decreases e\n{\n    match e {\n" + "\n".join(arms) + "\n    }\n}\n")
    # per-wrapper transparency: rendering a wrapper has as many frames as rendering what it wraps
    clauses = []
    for name in transparent:
        clauses.append(f"        error is {name} ==> r.stacktrace@.len() == frames(error), // [C17_C18:transparent[{name}]_wrapper_is_invisible_to_the_renderer]")
    # the TEXT the renderer must produce (C17: `<line>:<col>: [in '<function>': ]<message>`; one trace line per active call)
    marms, tarms = [], []
    for name, fields in variants:
        f = dict(fields)
        if f.get("source") != "Box<Error>":
            continue
        if name == "AtLoc":
            marms.append("        Error::AtLoc{source, line, col} => shown_usize(line) + \":\"@ + shown_usize(col) + \":\"@ + sep(func) + \" \"@ + msg_of(func, *source),")
            tarms.append("        Error::AtLoc{source, ..} => trace_of(path, func, *source),")
        elif name == "EvalBuiltinFuncCallFailed":
            marms.append("        Error::EvalBuiltinFuncCallFailed{source, func_name, call_loc} => shown_usize(call_loc.0) + \":\"@ + shown_usize(call_loc.1) + \":\"@ + sep(func) + \" \"@ "
                         "+ msg_of(Some(callee_name(func_name)), *source),")
            tarms.append("        Error::EvalBuiltinFuncCallFailed{source, func_name, ..} => trace_of(path, Some(callee_name(func_name)), *source),")
        elif name == "EvalFuncCallFailed":
            marms.append("        Error::EvalFuncCallFailed{source, func_name, ..} => msg_of(Some(callee_name(func_name)), *source),")
            tarms.append("        Error::EvalFuncCallFailed{source, func_name, call_loc} => trace_of(path, Some(callee_name(func_name)), *source).push(\n"
                         "            path + \":\"@ + shown_usize(call_loc.0) + \":\"@ + shown_usize(call_loc.1) + \": in '\"@ + (match func { Some(f) => f, None => \"<root>\"@ }) + \"'\"@),")
        else:
            marms.append(f"        Error::{name}{{source, ..}} => msg_of(func, *source),")
            tarms.append(f"        Error::{name}{{source, ..}} => trace_of(path, func, *source),")
    txt += ("pub open spec fn sep(func: Option<Seq<char>>) -> Seq<char> { match func { Some(f) => \" in '\"@ + f + \"':\"@, None => Seq::empty() } }\n"
            "pub open spec fn callee_name(n: Option<String>) -> Seq<char> { match n { Some(s) => s@, None => \"<unnamed function>\"@ } }\n"
            "pub open spec fn msg_of(func: Option<Seq<char>>, e: Error) -> Seq<char>\n    decreases e\n{\n    match e {\n" + "\n".join(marms) + "\n        _ => shown_error(e),\n    }\n}\n"
            "pub open spec fn trace_of(path: Seq<char>, func: Option<Seq<char>>, e: Error) -> Seq<Seq<char>>\n    decreases e\n{\n    match e {\n" + "\n".join(tarms) + "\n        _ => Seq::empty(),\n    }\n}\n"
            "pub open spec fn fview(func: Option<&str>) -> Option<Seq<char>> { match func { Some(f) => Some(f@), None => None } }\n"
            "pub open spec fn lines(v: Seq<String>) -> Seq<Seq<char>> { v.map_values(|s: String| s@) }\n")
    return txt, transparent, "\n".join(clauses)


def build(read):
    b = Built()
    err_text, variants = parts.error_text(b, read)
    f = parts.copy_item(b, read, "src/main.rs", "fn", "eval_err_to_stacktrace")
    st = parts.copy_item(b, read, "src/main.rs", "struct", "StacktracedErrorMsg")
    fr, transparent, clauses = frames_spec(variants)
    spec = ("\n    ensures\n" + clauses + "\n"
            "        (error is AtLoc || error is EvalBuiltinFuncCallFailed) ==> r.stacktrace@.len() == frames(error), // [C17:position_wrappers_add_no_stack_frame]\n"
            "        error is EvalFuncCallFailed ==> r.stacktrace@.len() == frames(error), // [C17_C18:each_user_call_adds_exactly_one_stack_frame_after_the_inner_ones]\n"
            "        r.stacktrace@.len() == frames(error), // [C17_C18:stack_trace_has_one_line_per_active_call]\n"
            "        r.msg@ == msg_of(fview(func), error), // [C17_C18:the_message_is_line_colon_col_colon_optional_in_function_then_the_text_with_the_position_of_the_innermost_failure_first]\n"
            "        lines(r.stacktrace@) == trace_of(path.lossy(), fview(func), error), // [C17_C18:each_stack_line_is_path_line_col_in_caller_innermost_call_first]\n"
            "    decreases error\n")
    import re
    import print_render as pr_unit
    f, nfmt = pr_unit.expand_format_macros(f, "eval_err_to_stacktrace", ("format",))
    f, ncl = re.subn(r"\|\| (\"[^\"]*\")\.to_string\(\)", r"|| -> (r: String) ensures r@ == \1@ { str_to_string(\1) }", f)
    f = extract.annotate_fn(f, spec=spec, body_start="    broadcast use vstd::std_specs::vec::group_vec_axioms;\n")
    f, npush = re.subn(r"(\n)(\s*)(st\.stacktrace\.push\(([^;]*)\);)",
                       r"\1\2let ghost __t0 = st.stacktrace@;\n\2\3\n\2proof { assert(lines(st.stacktrace@) =~= lines(__t0).push(st.stacktrace@.last()@)); }", f)
    b.edits.append(f"D6: {nfmt} `format!` invocations expanded (std::fmt assumed); {ncl} closures `|| \"..\".to_string()` given their literal postcondition; "
                   f"{npush} ghost snapshots around `st.stacktrace.push(..)`; std::path::Path replaced by an opaque struct with `to_string_lossy`")
    b.edits.append(f"generated: frames() and {len(transparent)} transparency clauses from the {len(variants)} variants of enum Error")
    b.text = assemble([
        "// GENERATED on every run by /verif/verus/render.py from /repo's working tree - do not edit",
        parts.HEADER, parts.OPAQUE_VALUE, PRE, err_text, parts.ast_text(b, read), fr,
        "// ---- verbatim from src/main.rs", st, f, parts.FOOTER,
    ])
    return b


def _located(rc, out, err):
    import re
    if rc != 103:
        return f"expected a reported error (exit 103), got exit {rc}"
    first = err.splitlines()[0] if err.splitlines() else ""
    if not re.match(r"^\S+:\d+:\d+: ", first):
        return f"diagnostic has no <path>:<line>:<col>: position: {first!r}"
    if re.search(r"\b[A-Z][a-z]+([A-Z][a-z]+)+\b", first):
        return f"diagnostic shows an internal identifier: {first!r}"
    return None


def _traced(rc, out, err):
    r = _located(rc, out, err)
    if r:
        return r
    if "Stacktrace:" not in err:
        return "failure inside a user function call printed no Stacktrace"
    return None


SCRIPTS = {
    "EvalReturnExprFailed": ("error inside a return expression", "fn f() {\n    return 1 + \"a\"\n}\nf()\n", _traced),
    "EvalBlockFailed": ("error inside a bare block in a call", "fn f() {\n    {\n        x := 1 + \"a\"\n    }\n}\nf()\n", _traced),
    "EvalWhileConditionFailed": ("error in while condition in a call", "fn f() {\n    while 1 + \"a\" {\n    }\n}\nf()\n", _traced),
    "EvalForIterFailed": ("error in for iterable in a call", "fn f() {\n    for x in 1 + \"a\" {\n    }\n}\nf()\n", _traced),
    "EvalIfConditionFailed": ("error in if condition in a call", "fn f() {\n    if 1 + \"a\" {\n    }\n}\nf()\n", _traced),
    "EvalPropValueFailed": ("error in object literal value in a call", "fn f() {\n    return {\"a\": 1 + \"a\"}\n}\nf()\n", _traced),
    "EvalRangeStartFailed": ("error in range start", "fn f() {\n    return (1 + \"a\") .. 3\n}\nf()\n", _traced),
    "EvalElseStatementsFailed": ("error inside an else block in a call", "fn f() {\n    if false {\n    } else {\n        x := 1 + \"a\"\n    }\n}\nf()\n", _traced),
    "EvalIfStatementsFailed": ("error inside an if block in a call", "fn f() {\n    if true {\n        x := 1 + \"a\"\n    }\n}\nf()\n", _traced),
    "EvalWhileStatementsFailed": ("error inside a while body in a call", "fn f() {\n    while true {\n        x := 1 + \"a\"\n    }\n}\nf()\n", _traced),
    "EvalForStatementsFailed": ("error inside a for body in a call", "fn f() {\n    for p in [1] {\n        x := 1 + \"a\"\n    }\n}\nf()\n", _traced),
    "ConvertForIterToPairsFailed": ("for over a non-iterable in a call", "fn f() {\n    for p in 1 {\n    }\n}\nf()\n", _traced),
    "EvalDeclarationRhsFailed": ("error in a declaration's right-hand side in a call", "fn f() {\n    x := 1 + \"a\"\n}\nf()\n", _traced),
    "EvalAssignmentRhsFailed": ("error in an assignment's right-hand side in a call", "fn f() {\n    x := 1\n    x = 1 + \"a\"\n}\nf()\n", _traced),
    "OpAssignmentBindFailed": ("error in an op-assignment in a call", "fn f() {\n    x := 1\n    x += \"a\"\n}\nf()\n", _traced),
    "DeclarationBindFailed": ("declaring a name twice in a call", "fn f() {\n    x := 1\n    x := 2\n}\nf()\n", _traced),
    "AssignmentBindFailed": ("assigning an undeclared name in a call", "fn f() {\n    zz = 2\n}\nf()\n", _traced),
    "EvalBinOpLhsFailed": ("error in a left operand in a call", "fn f() {\n    return (1 + \"a\") + 1\n}\nf()\n", _traced),
    "EvalBinOpRhsFailed": ("error in a right operand in a call", "fn f() {\n    return 1 + (1 + \"a\")\n}\nf()\n", _traced),
    "EvalListItemFailed": ("error in a list item in a call", "fn f() {\n    return [1 + \"a\"]\n}\nf()\n", _traced),
    "EvalCallArgsFailed": ("error in a call argument in a call", "fn f() {\n    return f(1 + \"a\")\n}\nf()\n", _traced),
    "EvalCallFuncFailed": ("error in the callee expression in a call", "fn f() {\n    return (1 + \"a\")()\n}\nf()\n", _traced),
    "EvalSourceExprFailed": ("error in an indexed expression in a call", "fn f() {\n    return (1 + \"a\")[0]\n}\nf()\n", _traced),
    "EvalIndexToI64Failed": ("non-integer index in a call", "fn f() {\n    return [1][\"a\"]\n}\nf()\n", _traced),
    "EvalStartIndexFailed": ("error in a range start index in a call", "fn f() {\n    return [1][1 + \"a\":]\n}\nf()\n", _traced),
    "EvalEndIndexFailed": ("error in a range end index in a call", "fn f() {\n    return [1][:1 + \"a\"]\n}\nf()\n", _traced),
    "EvalListRangeIndexFailed": ("range read out of bounds in a call", "fn f() {\n    return [1][0:5]\n}\nf()\n", _traced),
    "EvalStringRangeIndexFailed": ("string range read out of bounds in a call", "fn f() {\n    return \"a\"[0:5]\n}\nf()\n", _traced),
    "EvalRangeEndFailed": ("error in a range end in a call", "fn f() {\n    return 1 .. (1 + \"a\")\n}\nf()\n", _traced),
    "EvalPropNameFailed": ("non-string computed property name in a call", "fn f() {\n    return {(1): 2}\n}\nf()\n", _traced),
    "EvalPropFailed": ("error in the object of a property access in a call", "fn f() {\n    return (1 + \"a\").a\n}\nf()\n", _traced),
    "InterpolateStringEvalExprFailed": ("error inside an interpolation slot in a call", "fn f() {\n    return $\"a${1 + []}\"\n}\nf()\n", _traced),
    "ValidateArgsFailed": ("invalid parameter list of a nested function in a call", "fn f() {\n    fn g(1) {\n    }\n}\nf()\n", _traced),
    "BindListItemFailed": ("error binding a nested list pattern in a call", "fn f() {\n    [[a]] := [1]\n}\nf()\n", _traced),
    "BindObjectPairFailed": ("error binding a nested object pattern in a call", "fn f() {\n    {\"k\": [a]} := {\"k\": 1}\n}\nf()\n", _traced),
    "EvalObjectIndexFailed": ("error in the index expression of an object index in a call", "fn f() {\n    o := {\"a\": 1}\n    return o[zz]\n}\nf()\n", _traced),
    "EvalListIndexFailed": ("error in the index expression of a list index in a call", "fn f() {\n    xs := [1]\n    return xs[zz]\n}\nf()\n", _traced),
    "EvalStringIndexFailed": ("error in the index expression of a string index in a call", "fn f() {\n    s := \"a\"\n    return s[zz]\n}\nf()\n", _traced),
    "BinOpAssignListIndexFailed": ("failing op-assignment on a list element in a call", "fn f() {\n    xs := [1]\n    xs[0] += \"a\"\n}\nf()\n", _traced),
    "BinOpAssignObjectIndexFailed": ("failing op-assignment on an object element in a call", "fn f() {\n    o := {\"a\": 1}\n    o[\"a\"] += \"a\"\n}\nf()\n", _traced),
    "BinOpAssignPropFailed": ("failing op-assignment on a property in a call", "fn f() {\n    o := {\"a\": 1}\n    o.a += \"a\"\n}\nf()\n", _traced),
    "AssertArgsFailed": ("wrong argument count for print in a call", "fn f() {\n    print(1, 2)\n}\nf()\n", _traced),
}


def replays(failed):
    import re
    names = []
    for fl in failed:
        m = re.search(r"transparent\[([A-Za-z0-9_]+)\]", fl)
        if m:
            names.append(m.group(1))
    done = set()
    for n in names:
        if n in SCRIPTS and n not in done:
            done.add(n)
            yield SCRIPTS[n]
    for n, s in SCRIPTS.items():
        if n not in done:
            yield s
