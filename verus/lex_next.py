"""V-lexnext: <Lexer as Iterator>::next - the statement-terminator rule (C09: a newline or `;` ends a
statement, except directly after a binary or assignment operator, a comma, a `.` or an opening
bracket; blank lines and repeated terminators are ignored).

Copied verbatim from /repo/src/lexer/mod.rs.  `next_token` is external: it hands out the items of an
abstract token stream one by one (what it produces for a given text is the Kani lexer units'
subject).  The contract is stated over that stream, of ANY length: which of the raw tokens the
parser gets to see."""
import re

import extract
import parts
from verus_engine import Built, assemble, gen_clone_impls
from common import Undecided

NAME = "lex_next"
RLIMIT = 100

MODEL = r"""
use vstd::prelude::*;
verus! {
pub type Location = (usize, usize);
pub type InterpSlot = (usize, usize);
pub type Span = (Location, Token, Location);
pub type Item = std::result::Result<Span, LexError>;
#[verifier::external_body]
pub struct Scanner { _p: () }
"""

SPEC_MODEL = r"""
// ---- the raw token stream (what next_token produces, one item per call) - abstract
// (a function of the scanner: assigning `last_token` does not touch it)
impl Scanner {
    pub uninterp spec fn stream(&self) -> Seq<Item>;
    pub uninterp spec fn at(&self) -> int;
}
impl Lexer {
    pub open spec fn stream(&self) -> Seq<Item> { self.scanner.stream() }
    pub open spec fn at(&self) -> int { self.scanner.at() }
    #[verifier::external_body]
    fn next_token(&mut self) -> (r: Option<Item>)
        ensures
            final(self).stream() == old(self).stream(),
            final(self).last_token == old(self).last_token,
            0 <= old(self).at() <= old(self).stream().len() ==> (
                if old(self).at() < old(self).stream().len() { r == Some(old(self).stream()[old(self).at()]) && final(self).at() == old(self).at() + 1 }
                else { r is None && final(self).at() == old(self).at() }),
    { unimplemented!() }
}
// D5: `*t != Token::StmtEnd` (derived PartialEq on Token: structural equality)
#[verifier::external_body]
pub fn token_ne(a: &Token, b: &Token) -> (r: bool) ensures r == (*a != *b) { unimplemented!() }

// =========================================================================================
// The reading of the property
// =========================================================================================
// "a line break directly after a binary or assignment operator (+ - * / % == != < <= > >= && || = := += -= *= /= %=),
//  a comma, a `.` or an opening `(`, `[`, `{` continues the statement"; "repeated terminators ... are ignored"
pub open spec fn continues(t: Token) -> bool {
    t is Sum || t is Sub || t is Mul || t is Div || t is Mod
    || t is EqualsEquals || t is BangEquals || t is LessThan || t is LessThanEquals || t is GreaterThan || t is GreaterThanEquals
    || t is AmpAmp || t is PipePipe
    || t is Equals || t is ColonEquals || t is SumEquals || t is SubEquals || t is MulEquals || t is DivEquals || t is ModEquals
    || t is Comma || t is Dot || t is ParenOpen || t is BracketOpen || t is BraceOpen
    || t is StmtEnd
}
pub open spec fn is_end(i: Item) -> bool { i matches Ok(sp) && sp.1 is StmtEnd }
// the token before raw item k, as the lexer sees it: its own memory for the first one, then the stream
pub open spec fn prev(last0: Option<Token>, s: Seq<Item>, at0: int, k: int) -> Option<Token> {
    if k <= at0 { last0 } else { match s[k - 1] { Ok(sp) => Some(sp.1), Err(_) => None } }
}
// a terminator the parser does NOT get to see: at the very start of the input, or right after a continuing token
pub open spec fn dropped(last0: Option<Token>, s: Seq<Item>, at0: int, k: int) -> bool {
    is_end(s[k]) && (match prev(last0, s, at0, k) { None => true, Some(t) => continues(t) })
}
"""

SPEC = r"""
    requires
        0 <= old(self).at() <= old(self).stream().len(),
    ensures
        final(self).stream() == old(self).stream(),
        // everything skipped is a dropped terminator
        forall|k: int| old(self).at() <= k < final(self).at() - (if r is Some { 1int } else { 0int })
            ==> dropped(old(self).last_token, old(self).stream(), old(self).at(), k), // [C09:only_terminators_at_the_start_or_directly_after_an_operator_comma_dot_or_opening_bracket_or_another_terminator_are_skipped]
        // what is handed to the parser is the next raw item that is not a dropped terminator
        r matches Some(x) ==> old(self).at() < final(self).at() <= old(self).stream().len() && x == old(self).stream()[final(self).at() - 1]
            && !dropped(old(self).last_token, old(self).stream(), old(self).at(), final(self).at() - 1), // [C09:every_token_and_every_terminator_that_ends_a_statement_reaches_the_parser_in_order]
        r is None ==> final(self).at() == old(self).stream().len(), // [C09:the_token_stream_is_read_to_its_end]
        // the lexer remembers the last raw token it produced
        r matches Some(Ok(sp)) ==> final(self).last_token == Some(sp.1),
"""


def build(read):
    b = Built()
    src = read("src/lexer/mod.rs")
    tok = extract.strip_attributes(extract.strip_comments(extract.extract_item(src, "enum", "Token")))[0]
    lerr = extract.strip_attributes(extract.strip_comments(extract.extract_item(src, "enum", "LexError")))[0]
    for k, n in [("enum", "Token"), ("enum", "LexError")]:
        b.copied.append((k, n, "src/lexer/mod.rs", extract.item_line(src, k, n)))
    b.edits.append("D1: derive attributes on Token / LexError replaced by an assumed structural Clone for Token")
    # the `next` of `impl Iterator for Lexer<'_>`
    m = re.search(r"impl Iterator for Lexer<'_> \{", src)
    if not m:
        raise Undecided("impl Iterator for Lexer<'_> not found")
    blk_end = extract.match_brace(src, m.end() - 1)
    impl_text = src[m.start():blk_end + 1]
    f = extract.strip_comments(extract.extract_item(impl_text, "fn", "next"))
    b.copied.append(("fn", "<Lexer as Iterator>::next", "src/lexer/mod.rs", src[:m.start()].count("\n") + 1 + extract.item_line(impl_text, "fn", "next") - 1))
    f = extract.rewrite_once(f, "Option<Self::Item>", "Option<Item>", "next: associated type")
    b.edits.append("D5: `Option<Self::Item>` -> `Option<Item>` (the associated type, written out); the method is placed in an inherent impl")
    f, k = re.subn(r"\*t != (Token::\w+)", r"token_ne(t, &\1)", f)
    b.edits.append(f"D5: {k}x `*t != Token::StmtEnd` -> token_ne(t, &Token::StmtEnd) (derived PartialEq: structural)")
    hdr, body = extract.fn_header_body(f)
    kinds = [k for k, _, _ in extract.find_loops(body)]
    if kinds != ["loop"]:
        raise Undecided(f"next: expected one loop, found {kinds}")
    loops = {1: {"header": """            invariant
                self.stream() == old(self).stream(),
                old(self).at() <= self.at() <= self.stream().len(),
                forall|k: int| old(self).at() <= k < self.at() ==> dropped(old(self).last_token, old(self).stream(), old(self).at(), k), // [C09:only_terminators_at_the_start_or_directly_after_an_operator_comma_dot_or_opening_bracket_or_another_terminator_are_skipped]
                self.last_token == prev(old(self).last_token, old(self).stream(), old(self).at(), self.at()), // [C09:the_lexer_remembers_the_token_before_the_current_one]
            decreases self.stream().len() - self.at(), // [C03:withholding_terminators_terminates]"""}}
    f = extract.annotate_fn(hdr + body, spec=SPEC, attrs="#[verifier::loop_isolation(false)]", loops=loops)
    b.text = assemble([
        "// GENERATED on every run by /verif/verus/lex_next.py from /repo's working tree - do not edit",
        MODEL,
        "// ---- verbatim from src/lexer/mod.rs", tok, lerr, gen_clone_impls(["Token"]),
        "pub struct Lexer { pub scanner: Scanner, pub last_token: Option<Token> }",
        SPEC_MODEL,
        "// ---- function under contract (verbatim body; contract text inserted at anchors)",
        "impl Lexer {\n" + f + "\n}",
        parts.FOOTER,
    ])
    return b


def replays(failed):
    def exp(out=None, err=None):
        def judge(rc, o, e):
            if rc not in (0, 103):
                return f"interpreter crashed (exit {rc})"
            if out is not None and (rc != 0 or o != out):
                return f"expected stdout {out!r}"
            if err is not None and (rc != 103 or err not in e):
                return f"expected an error containing {err!r}"
            return None
        return judge
    ops = ["+", "-", "*", "/", "%"]
    yield ("a line break after an arithmetic operator continues the statement",
           "".join(f"print(7 {o}\n  2)\n" for o in ops), exp("9\n5\n14\n3\n1\n"))
    yield ("a line break after a comparison / logical operator continues the statement",
           "print(1 ==\n 1)\nprint(1 !=\n 1)\nprint(1 <\n 2)\nprint(1 <=\n 2)\nprint(1 >\n 2)\nprint(1 >=\n 2)\nprint(true &&\n false)\nprint(true ||\n false)\n",
           exp("true\nfalse\ntrue\ntrue\nfalse\nfalse\nfalse\ntrue\n"))
    yield ("a line break after an assignment operator continues the statement",
           "x :=\n 1\nx =\n 2\nx +=\n 1\nx -=\n 1\nx *=\n 3\nx /=\n 2\nx %=\n 2\nprint(x)\n", exp("1\n"))
    yield ("comma, dot and opening brackets continue the statement",
           "o := {\n\"a\": [\n1,\n2]}\nprint(o.\na[\n1])\nprint(\no.a[0])\n", exp("2\n1\n"))
    yield ("blank lines and repeated terminators are ignored", "\n\n;;\nprint(1);;;\n\n\nprint(2)\n;\n", exp("1\n2\n"))
    yield ("a line break after an operand ends the statement", "x := 1\nprint(x)\n- 1\n", exp(out=None, err=None))
    yield ("a line break after `)` ends the statement", "print(1)\n(2)\n", exp("1\n"))
