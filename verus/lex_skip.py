"""V-lexskip: Lexer::skip_whitespace_and_comments (C09: spaces, tabs, carriage returns and `#` comments to
the end of the line are ignored; a newline is NOT skipped - it is the statement terminator).

Copied verbatim from /repo/src/lexer/mod.rs and verified over the abstract scanner (text, position)
for text of ANY length: the scanner stops exactly at `skip_end`, the first position that holds a
newline or a character that is neither blank nor inside a comment."""
import re

import extract
import parts
from verus_engine import Built, assemble
from common import Undecided

NAME = "lex_skip"
RLIMIT = 100

MODEL = r"""
use vstd::prelude::*;
verus! {
pub type Location = (usize, usize);
pub type InterpSlot = (usize, usize);
#[verifier::external_body]
pub struct Scanner { _p: () }
impl Scanner {
    pub uninterp spec fn text(&self) -> Seq<char>;
    pub uninterp spec fn pos(&self) -> int;
    pub open spec fn wf(&self) -> bool { 0 <= self.pos() <= self.text().len() }
    #[verifier::external_body]
    pub fn peek_char(&mut self) -> (r: Option<char>)
        ensures final(self).text() == old(self).text(), final(self).pos() == old(self).pos(),
                r == (if 0 <= old(self).pos() < old(self).text().len() { Some(old(self).text()[old(self).pos()]) } else { None::<char> }),
    { unimplemented!() }
    #[verifier::external_body]
    pub fn next_char(&mut self)
        ensures final(self).text() == old(self).text(),
                final(self).pos() == (if old(self).pos() < old(self).text().len() { old(self).pos() + 1 } else { old(self).pos() }),
    { unimplemented!() }
}
// std char::is_ascii_whitespace (ASSUMED, its documented definition): space, tab, line feed, form feed, carriage return
pub open spec fn is_ws(c: char) -> bool { c == ' ' || c == '\t' || c == '\n' || c == '\x0C' || c == '\r' }
#[verifier::external_body]
pub fn char_is_ascii_whitespace(c: char) -> (r: bool) ensures r == is_ws(c) { unimplemented!() }

// =========================================================================================
// The reading of the property
// =========================================================================================
// end of the line that position p is on: the next newline, or the end of the text
pub open spec fn line_end(t: Seq<char>, p: int) -> int
    decreases t.len() - p
{
    if p < 0 || p >= t.len() { p } else if t[p] == '\n' { p } else { line_end(t, p + 1) }
}
pub proof fn lemma_line_end(t: Seq<char>, p: int)
    requires 0 <= p <= t.len(),
    ensures p <= line_end(t, p) <= t.len(), line_end(t, p) < t.len() ==> t[line_end(t, p)] == '\n',
            forall|i: int| p <= i < line_end(t, p) ==> #[trigger] t[i] != '\n',
    decreases t.len() - p
{
    if p < t.len() && t[p] != '\n' { lemma_line_end(t, p + 1); }
}
// where skipping stops: blanks (not newlines) and comments are passed over, everything else stops the skip
pub open spec fn skip_end(t: Seq<char>, p: int) -> int
    decreases t.len() - p
{
    if p < 0 || p >= t.len() { p }
    else if t[p] == '#' { let e = line_end(t, p); if p < e <= t.len() { skip_end(t, e) } else { p } }   // (e > p always: lemma_line_end)
    else if t[p] == '\n' || !is_ws(t[p]) { p }
    else { skip_end(t, p + 1) }
}
// (the precondition `skip_end(t, p) >= p` that unit V-lextoken states for next_token)
pub proof fn lemma_skip_end_bounds(t: Seq<char>, p: int)
    requires 0 <= p <= t.len(),
    ensures p <= skip_end(t, p) <= t.len(),
    decreases t.len() - p
{
    if p < t.len() {
        if t[p] == '#' {
            lemma_line_end(t, p);
            let e = line_end(t, p);
            if p < e && e <= t.len() { lemma_skip_end_bounds(t, e); }
        } else if !(t[p] == '\n' || !is_ws(t[p])) {
            lemma_skip_end_bounds(t, p + 1);
        }
    }
}
"""

SPEC = r"""
    requires
        old(self).scanner.wf(),
    ensures
        final(self).scanner.text() == old(self).scanner.text(),
        final(self).scanner.pos() == skip_end(old(self).scanner.text(), old(self).scanner.pos()), // [C09:blanks_and_comments_to_the_end_of_the_line_are_skipped_and_a_newline_or_any_other_character_stops_the_skip]
        final(self).scanner.wf(),
"""


def build(read):
    b = Built()
    src = read("src/lexer/mod.rs")
    f = extract.strip_comments(extract.extract_item(src, "fn", "skip_whitespace_and_comments"))
    b.copied.append(("fn", "skip_whitespace_and_comments", "src/lexer/mod.rs", extract.item_line(src, "fn", "skip_whitespace_and_comments")))
    tok = extract.strip_attributes(extract.strip_comments(extract.extract_item(src, "enum", "Token")))[0]
    b.copied.append(("enum", "Token", "src/lexer/mod.rs", extract.item_line(src, "enum", "Token")))
    n = 0
    while True:
        m = re.search(r"while let Some\((\w+)\) = self\.scanner\.peek_char\(\) \{", f)
        if not m:
            break
        f = f[:m.start()] + f"loop {{\n let {m.group(1)} = match self.scanner.peek_char() {{ Some(__x) => __x, None => break }};" + f[m.end():]
        n += 1
    if n < 1:
        raise Undecided(f"skip_whitespace_and_comments: expected `while let` loops, found {n}")
    b.edits.append(str(n) + "x `while let Some(c) = self.scanner.peek_char() {` -> `loop { let c = match .. { Some(__x) => __x, None => break };` (D5: Rust's own desugaring)")
    f, k = re.subn(r"\b(\w+)\.is_ascii_whitespace\(\)", r"char_is_ascii_whitespace(\1)", f)
    b.edits.append(f"D5: {k}x `c.is_ascii_whitespace()` -> char_is_ascii_whitespace(c) (assumed std contract)")
    hdr, body = extract.fn_header_body(f)
    kinds = [k for k, _, _ in extract.find_loops(body)]
    if kinds not in (["loop", "loop"], ["loop", "while"]):
        raise Undecided(f"skip_whitespace_and_comments: expected an outer loop and the comment loop, found {kinds}")
    loops = {
        1: {"header": """            invariant
                self.scanner.text() == old(self).scanner.text(), self.scanner.wf(),
                skip_end(old(self).scanner.text(), old(self).scanner.pos()) == skip_end(self.scanner.text(), self.scanner.pos()), // [C09:blanks_and_comments_to_the_end_of_the_line_are_skipped_and_a_newline_or_any_other_character_stops_the_skip]
            ensures
                self.scanner.pos() == self.scanner.text().len(),
            decreases self.scanner.text().len() - self.scanner.pos(), // [C03:skipping_blanks_and_comments_terminates_every_iteration_consumes_a_character]"""},
        2: {"before": "let ghost c0 = self.scanner.pos();\n                proof { lemma_line_end(self.scanner.text(), c0); }",
            "header": """                    invariant
                        self.scanner.text() == old(self).scanner.text(), self.scanner.wf(),
                        c0 <= self.scanner.pos() <= line_end(self.scanner.text(), c0), // [C09:a_comment_ends_at_the_end_of_its_line_and_nowhere_else]
                        skip_end(old(self).scanner.text(), old(self).scanner.pos()) == skip_end(self.scanner.text(), c0),
                        c0 < self.scanner.text().len() && self.scanner.text()[c0] == '#',
                    ensures
                        self.scanner.pos() == line_end(self.scanner.text(), c0),
                    decreases self.scanner.text().len() - self.scanner.pos(), // [C03:skipping_a_comment_terminates_also_at_the_end_of_the_input]""",
            "after": "proof { assert(line_end(self.scanner.text(), c0) > c0); }"},
    }
    f = extract.annotate_fn(hdr + body, spec=SPEC, attrs="#[verifier::loop_isolation(false)]\n#[verifier::allow_complex_invariants]", loops=loops)
    b.text = assemble([
        "// GENERATED on every run by /verif/verus/lex_skip.py from /repo's working tree - do not edit",
        MODEL,
        "// ---- verbatim from src/lexer/mod.rs", tok,
        "pub struct Lexer { pub scanner: Scanner, last_token: Option<Token> }",
        "// ---- function under contract (verbatim body; contract text inserted at anchors)",
        "impl Lexer {\n" + f + "\n}",
        parts.FOOTER,
    ])
    return b


def replays(failed):
    def exp(out=None, err=None):
        def judge(rc, o, e):
            if rc not in (0, 103):
                return f"interpreter crashed (exit {rc})"
            if out is not None and (rc != 0 or o != out):
                return f"expected stdout {out!r}"
            if err is not None and (rc != 103 or err not in e):
                return f"expected an error containing {err!r}"
            return None
        return judge
    yield ("spaces, tabs and carriage returns are ignored", "print(\t1  +\r 2 )\r\n\t print( 3 )\r\n", exp("3\n3\n"))
    yield ("a comment runs to the end of its line, whatever it contains", "print(1) # ; print(9) \" $ {\nprint(2)# last\n# only a comment\n", exp("1\n2\n"))
    yield ("a comment does not swallow the newline that ends the statement", "x := 1 # one\ny := 2\nprint(x + y)\n", exp("3\n"))
    yield ("a newline after blanks still ends the statement", "x := 1   \n  print(x)\n", exp("1\n"))
