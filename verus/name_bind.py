"""V-name: bind::bind_next_name and bind::bind_name (C20; op-assign clause of C06; located-ness C17).

Copied verbatim from /repo/src/eval/bind.rs.  ScopeStack::{declare,get,assign} are external with the
contract read off scope.rs, stated over an abstract view Seq<Map<name,(value,loc)>> (innermost
last); std's HashSet<String> is replaced by an assumed set contract."""
import extract
import parts
from verus_engine import Built, assemble

NAME = "name_bind"
RLIMIT = 80

MODEL = r"""
// ---- D3: std::collections::HashSet<String> replaced by an assumed mathematical-set contract
#[verifier::external_body]
#[verifier::reject_recursive_types(T)]
pub struct HashSet<T> { _p: core::marker::PhantomData<T> }
impl HashSet<String> {
    pub uninterp spec fn view(&self) -> Set<Seq<char>>;
    #[verifier::external_body]
    pub fn new() -> (r: Self) ensures r@ == Set::<Seq<char>>::empty() { unimplemented!() }
    #[verifier::external_body]
    pub fn contains(&self, k: &str) -> (r: bool) ensures r == self@.contains(k@) { unimplemented!() }
    #[verifier::external_body]
    pub fn insert(&mut self, k: String) -> (r: bool) ensures final(self)@ == old(self)@.insert(k@), r == !old(self)@.contains(k@) { unimplemented!() }
}
impl Clone for HashSet<String> {
    #[verifier::external_body]
    fn clone(&self) -> (r: Self) ensures r@ == self@ { unimplemented!() }
}

// ---- abstract view of the scope chain: innermost scope LAST
pub type Frame = Map<Seq<char>, (SourcedValue, Location)>;
#[verifier::external_body]
pub struct ScopeStack { _p: () }
// index of the innermost frame below position i that has `name`, or -1
pub open spec fn find(fr: Seq<Frame>, name: Seq<char>, i: int) -> int
    decreases i
{
    if i <= 0 { -1 } else if fr[i - 1].contains_key(name) { i - 1 } else { find(fr, name, i - 1) }
}
pub open spec fn innermost(fr: Seq<Frame>, name: Seq<char>) -> int { find(fr, name, fr.len() as int) }
pub open spec fn set_in(fr: Seq<Frame>, k: int, name: Seq<char>, v: SourcedValue, loc: Location) -> Seq<Frame> {
    fr.update(k, fr[k].insert(name, (v, loc)))
}
// contracts read off src/eval/scope.rs (ASSUMED here; HashMap + Arc<Mutex> are outside both engines)
impl ScopeStack {
    pub uninterp spec fn frames(&self) -> Seq<Frame>;

    #[verifier::external_body]
    pub fn declare(&mut self, name: &str, loc: Location, v: SourcedValue) -> (r: std::result::Result<(), Location>)
        requires old(self).frames().len() > 0,
        ensures ({
            let fr = old(self).frames();
            let top = fr.len() - 1;
            if fr[top].contains_key(name@) {
                r == Err::<(), Location>(fr[top][name@].1) && final(self).frames() == fr
            } else {
                r is Ok && final(self).frames() == set_in(fr, top, name@, v, loc)
            }
        }),
    { unimplemented!() }

    #[verifier::external_body]
    pub fn get(&self, name: &String) -> (r: Option<SourcedValue>)
        ensures ({
            let k = innermost(self.frames(), name@);
            if k < 0 { r is None } else { r == Some(self.frames()[k][name@].0) }
        }),
    { unimplemented!() }

    #[verifier::external_body]
    pub fn assign(&mut self, name: &str, v: SourcedValue) -> (r: bool)
        ensures ({
            let fr = old(self).frames();
            let k = innermost(fr, name@);
            if k < 0 { !r && final(self).frames() == fr }
            else { r && final(self).frames() == set_in(fr, k, name@, v, fr[k][name@].1) }
        }),
    { unimplemented!() }
}

pub uninterp spec fn sem_apply(op: BinaryOp, op_loc: Location, lhs: Value, rhs: Value) -> Result<Value>;
pub mod eval {
    use super::*;
    // apply_binary_operation is itself under Kani contracts (C06 / C16); here: a pure function of its arguments
    #[verifier::external_body]
    pub fn apply_binary_operation(op: &BinaryOp, op_loc: &Location, lhs: &Value, rhs: &Value) -> (r: Result<Value>)
        ensures r == sem_apply(*op, *op_loc, *lhs, *rhs),
                r matches Err(e) ==> located(e),
    { unimplemented!() }
}

// error shapes named by the property
pub open spec fn at(e: Error, loc: Location) -> bool {
    e matches Error::AtLoc{source, line, col} && line == loc.0 && col == loc.1
}
pub open spec fn inner(e: Error) -> Error {
    match e { Error::AtLoc{source, line, col} => *source, _ => e }
}
"""

SPEC_NEXT = r"""
    requires
        old(scopes).frames().len() > 0,
    ensures
        name@ == "_"@ ==> r is Ok && final(scopes).frames() == old(scopes).frames()
            && final(names_in_binding)@ == old(names_in_binding)@, // [C20:underscore_discards_without_declaring_anything]
        name@ != "_"@ && old(names_in_binding)@.contains(name@) ==> r is Err && at(r->Err_0, *name_loc)
            && (inner(r->Err_0) matches Error::AlreadyInBinding{name: n} && n@ == name@)
            && final(scopes).frames() == old(scopes).frames(), // [C20:a_name_is_bound_at_most_once_per_pattern]
        name@ != "_"@ && !old(names_in_binding)@.contains(name@) ==> final(names_in_binding)@ == old(names_in_binding)@.insert(name@), // [C13:every_bound_name_is_recorded_in_the_pattern_name_set]
        // ---- := declares in the current (innermost) scope only; same scope twice is an error citing the earlier position
        name@ != "_"@ && !old(names_in_binding)@.contains(name@) && bind_type is Declaration && op is None
            && old(scopes).frames().last().contains_key(name@)
            ==> r is Err && at(r->Err_0, *name_loc)
                && (inner(r->Err_0) matches Error::AlreadyInScope{name: n, prev_line, prev_col}
                    && n@ == name@ && (prev_line, prev_col) == old(scopes).frames().last()[name@].1)
                && final(scopes).frames() == old(scopes).frames(), // [C20:redeclaring_in_the_same_scope_is_an_error_citing_the_earlier_position]
        name@ != "_"@ && !old(names_in_binding)@.contains(name@) && bind_type is Declaration && op is None
            && !old(scopes).frames().last().contains_key(name@)
            ==> r is Ok && final(scopes).frames() == set_in(old(scopes).frames(), old(scopes).frames().len() - 1, name@, rhs, *name_loc), // [C20:declaration_introduces_the_name_in_the_current_scope_only_even_if_an_outer_scope_has_it]
        name@ != "_"@ && !old(names_in_binding)@.contains(name@) && bind_type is Declaration && op is Some
            ==> r is Err && final(scopes).frames() == old(scopes).frames(),
        // ---- = assigns the nearest enclosing declaration; none is an error at the name
        name@ != "_"@ && !old(names_in_binding)@.contains(name@) && bind_type is Assignment
            && innermost(old(scopes).frames(), name@) < 0
            ==> r is Err && at(r->Err_0, *name_loc)
                && (inner(r->Err_0) matches Error::Undefined{name: n} && n@ == name@)
                && final(scopes).frames() == old(scopes).frames(), // [C18_C20:assigning_or_op_assigning_an_undeclared_name_is_an_error_at_that_name]
        name@ != "_"@ && !old(names_in_binding)@.contains(name@) && bind_type is Assignment && op is None
            && innermost(old(scopes).frames(), name@) >= 0
            ==> r is Ok && ({
                let fr = old(scopes).frames();
                let k = innermost(fr, name@);
                final(scopes).frames() == set_in(fr, k, name@, rhs, fr[k][name@].1)
            }), // [C20:assignment_updates_the_nearest_enclosing_declaration_and_nothing_else]
        // ---- x op= y is x = x op y  (C06): one application of the operator to (current x, y), in this order
        name@ != "_"@ && !old(names_in_binding)@.contains(name@) && bind_type is Assignment && op is Some
            && innermost(old(scopes).frames(), name@) >= 0
            ==> ({
                let fr = old(scopes).frames();
                let k = innermost(fr, name@);
                let cur = fr[k][name@].0;
                match sem_apply(op.unwrap().0, op.unwrap().1, cur.v, rhs.v) {
                    Ok(v) => r is Ok && final(scopes).frames() == set_in(fr, k, name@, SourcedValue{v, source: None}, fr[k][name@].1),
                    Err(e) => r is Err && final(scopes).frames() == fr,
                }
            }), // [C06:op_assign_on_a_variable_applies_the_operator_once_to_current_value_then_rhs_and_stores_the_result]
        r matches Err(e) ==> located(e), // [C17:name_binding_errors_are_located]
"""

SPEC_NAME = r"""
    requires
        old(scopes).frames().len() > 0,
    ensures
        name@ == "_"@ ==> r is Ok && final(scopes).frames() == old(scopes).frames(), // [C20:underscore_discards_without_declaring_anything]
        name@ != "_"@ && bind_type is Declaration && old(scopes).frames().last().contains_key(name@)
            ==> r is Err && final(scopes).frames() == old(scopes).frames(), // [C20:redeclaring_in_the_same_scope_is_an_error_citing_the_earlier_position]
        name@ != "_"@ && bind_type is Declaration && !old(scopes).frames().last().contains_key(name@)
            ==> r is Ok && final(scopes).frames() == set_in(old(scopes).frames(), old(scopes).frames().len() - 1, name@, rhs, *name_loc), // [C20:declaration_introduces_the_name_in_the_current_scope_only_even_if_an_outer_scope_has_it]
        r matches Err(e) ==> located(e), // [C17:name_binding_errors_are_located]
"""


def build(read):
    b = Built()
    err_text, variants = parts.error_text(b, read)
    f_next = parts.copy_item(b, read, "src/eval/bind.rs", "fn", "bind_next_name")
    f_name = parts.copy_item(b, read, "src/eval/bind.rs", "fn", "bind_name")
    bind_type = parts.copy_item(b, read, "src/eval/bind.rs", "enum", "BindType")
    new_val = parts.copy_item(b, read, "src/eval/value.rs", "fn", "new_val_ref_with_no_source")
    sel = parts.selectors_text(b, variants, [f_next, f_name])

    f_next = parts.annotate_closure(
        f_next, "new_loc_error", "source: Error", "Result<()>",
        "r == Err::<(), Error>(Error::AtLoc{source: Box::new(source), line: name_loc.0, col: name_loc.1})",
        "bind_next_name")
    b.edits.append("annotation: closure `new_loc_error` given parameter type, named result and its literal postcondition")
    f_next = extract.annotate_fn(f_next, spec=SPEC_NEXT, attrs="#[verifier::exec_allows_no_decreases_clause]\n")
    f_name = extract.annotate_fn(f_name, spec=SPEC_NAME, attrs="#[verifier::exec_allows_no_decreases_clause]\n")
    new_val = extract.annotate_fn(new_val, spec="\n    ensures r == (SourcedValue{v, source: None}),\n")
    b.edits.append("D3: std HashSet<String> replaced by an assumed mathematical-set contract (new/contains/insert)")

    b.text = assemble([
        "// GENERATED on every run by /verif/verus/name_bind.py from /repo's working tree - do not edit",
        parts.HEADER.replace("use std::collections::HashSet;\n", ""),
        sel, err_text, parts.located_spec(variants), parts.ast_text(b, read), parts.value_items(b, read), parts.value_model(True),
        MODEL,
        "// ---- verbatim from src/eval/bind.rs", bind_type,
        "impl Clone for BindType { #[verifier::external_body] fn clone(&self) -> (r: Self) ensures r == *self { unimplemented!() } }\nimpl Copy for BindType {}",
        parts.value_ctors(b, read, ["new_val_ref_with_no_source", "new_val_ref_with_source", "new_null", "new_bool", "new_int", "new_str", "new_list", "new_object"]),
        "// ---- functions under contract (verbatim bodies; contract text inserted at anchors)",
        f_name, f_next,
        parts.FOOTER,
    ])
    return b


def _expect(exp_out=None, err_sub=None):
    def judge(rc, out, err):
        if rc not in (0, 103):
            return f"interpreter crashed (exit {rc})"
        if exp_out is not None and (rc != 0 or out != exp_out):
            return f"expected success with stdout {exp_out!r}"
        if err_sub is not None and (rc != 103 or err_sub not in err):
            return f"expected a reported error containing {err_sub!r}"
        return None
    return judge


def replays(failed):
    yield ("underscore can be repeated and never becomes readable", "_ := 1\n_ := 2\nprint(_)\n", _expect(err_sub="'_' is not defined"))
    yield ("underscore repeated in one pattern", "[_, _] := [1, 2]\nprint(0)\n", _expect(exp_out="0\n"))
    yield ("redeclaration cites the earlier position", "x := 1\nx := 2\n", _expect(err_sub="2:1: 'x' is already defined in the current scope at [1:1]"))
    yield ("same name in an inner scope is allowed", "x := 1\n{\n    x := 2\n    print(x)\n}\nprint(x)\n", _expect(exp_out="2\n1\n"))
    yield ("assignment updates the nearest enclosing declaration", "x := 1\n{\n    x = 2\n}\nprint(x)\n", _expect(exp_out="2\n"))
    yield ("assigning an undeclared name", "y = 1\n", _expect(err_sub="1:1: 'y' is not defined"))
    yield ("op-assigning an undeclared name", "y += 1\n", _expect(err_sub="1:1: 'y' is not defined"))
    yield ("name bound twice in one pattern", "[a, a] := [1, 2]\n", _expect(err_sub="bound multiple times"))
    yield ("op-assign equals assign of op", "x := 7\nx -= 2\nprint(x)\n", _expect(exp_out="5\n"))
