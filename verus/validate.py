"""V-validate: eval::validate_args, the definition-time check of a `fn name(params)` parameter list
(C13: a name may be bound only once per pattern, spread in the wrong place is a reported error,
patterns nest, `_` may be repeated; C20: only variables and list/object patterns can be bound;
C17: the error is located).

Copied verbatim from /repo/src/eval/mod.rs.  The function walks the patterns breadth-first through a
queue; the contract is stated over the pattern TREES (any nesting depth, any number of parameters):
the multiset of names and the shape predicate `target_ok` are recursive over the AST."""
import re

import extract
import parts
from verus_engine import Built, assemble, desugar_for
from common import Undecided

NAME = "validate"
RLIMIT = 200
TIMEOUT = 900

MODEL = r"""
use vstd::multiset::Multiset;
// ---- D3: std VecDeque<Expr> / HashMap<String, Location> replaced by assumed sequence / finite-map contracts
#[verifier::external_body]
#[verifier::reject_recursive_types(T)]
pub struct VecDeque<T> { _p: core::marker::PhantomData<T> }
impl VecDeque<Expr> {
    pub uninterp spec fn view(&self) -> Seq<Expr>;
    #[verifier::external_body]
    pub fn from(v: Vec<Expr>) -> (r: Self) ensures r@ == v@ { unimplemented!() }
    #[verifier::external_body]
    pub fn pop_front(&mut self) -> (r: Option<Expr>)
        ensures (match r {
            Some(x) => old(self)@.len() > 0 && x == old(self)@[0] && final(self)@ == old(self)@.skip(1),
            None => old(self)@.len() == 0 && final(self)@ == old(self)@,
        })
    { unimplemented!() }
    #[verifier::external_body]
    pub fn push_back(&mut self, x: Expr) ensures final(self)@ == old(self)@.push(x) { unimplemented!() }
}
#[verifier::external_body]
#[verifier::reject_recursive_types(K)]
#[verifier::reject_recursive_types(V)]
pub struct HashMap<K, V> { _p: core::marker::PhantomData<(K, V)> }
impl HashMap<String, Location> {
    pub uninterp spec fn view(&self) -> Map<Seq<char>, Location>;
    #[verifier::external_body]
    pub fn new() -> (r: Self) ensures r@ == Map::<Seq<char>, Location>::empty() { unimplemented!() }
    #[verifier::external_body]
    pub fn get(&self, k: &String) -> (r: Option<&Location>)
        ensures (match r { Some(v) => self@.contains_key(k@) && *v == self@[k@], None => !self@.contains_key(k@) })
    { unimplemented!() }
    #[verifier::external_body]
    pub fn insert(&mut self, k: String, v: Location) -> (r: Option<Location>)
        ensures final(self)@ == old(self)@.insert(k@, v),
                r == (if old(self)@.contains_key(k@) { Some(old(self)@[k@]) } else { None::<Location> }),
    { unimplemented!() }
}
// D5: `args.to_owned()` (slice -> Vec, element-wise clone)
#[verifier::external_body]
pub fn to_owned_exprs(e: &[Expr]) -> (r: Vec<Expr>) ensures r@ == e@ { unimplemented!() }
// D5: `name == "_"` with name: String (std PartialEq<&str> for String: text equality)
#[verifier::external_body]
pub fn string_is(a: &String, b: &str) -> (r: bool) ensures r == (a@ == b@) { unimplemented!() }
#[verifier::external_body]
pub fn str_to_string(s: &str) -> (r: String) ensures r@ == s@ { unimplemented!() }

// =========================================================================================
// The reading of the property, over the pattern trees
// =========================================================================================
// a bindable parameter pattern: a variable, or a list / object pattern of such, without spread
pub open spec fn target_ok(e: Expr) -> bool
    decreases e, 0int, 0int
{
    match e.0 {
        RawExpr::Var{..} => true,
        RawExpr::List{items, ..} => items_ok(items, items@.len() as int),
        RawExpr::Object{props} => props_ok(props, props@.len() as int),
        _ => false,
    }
}
pub open spec fn items_ok(items: Vec<ListItem>, n: int) -> bool
    decreases items, 1int, n
{
    if n <= 0 || n > items@.len() { true }
    else { items_ok(items, n - 1) && !items@[n - 1].is_spread && target_ok(items@[n - 1].expr) }
}
pub open spec fn prop_target(p: PropItem) -> Expr {
    match p { PropItem::Pair{value, ..} => value, PropItem::Single{expr, ..} => expr }
}
pub open spec fn prop_spread(p: PropItem) -> bool {
    match p { PropItem::Pair{..} => false, PropItem::Single{is_spread, ..} => is_spread }
}
pub open spec fn props_ok(props: Vec<PropItem>, n: int) -> bool
    decreases props, 1int, n
{
    if n <= 0 || n > props@.len() { true }
    else { props_ok(props, n - 1) && !prop_spread(props@[n - 1]) && target_ok(prop_target(props@[n - 1])) }
}
pub open spec fn all_ok(q: Seq<Expr>) -> bool { forall|i: int| 0 <= i < q.len() ==> target_ok(#[trigger] q[i]) }

// every variable name of a pattern, with multiplicity (`_` included)
pub open spec fn pnames(e: Expr) -> Multiset<Seq<char>>
    decreases e, 0int, 0int
{
    match e.0 {
        RawExpr::Var{name} => Multiset::singleton(name@),
        RawExpr::List{items, ..} => items_names(items, items@.len() as int),
        RawExpr::Object{props} => props_names(props, props@.len() as int),
        _ => Multiset::empty(),
    }
}
pub open spec fn items_names(items: Vec<ListItem>, n: int) -> Multiset<Seq<char>>
    decreases items, 1int, n
{
    if n <= 0 || n > items@.len() { Multiset::empty() }
    else { items_names(items, n - 1).add(pnames(items@[n - 1].expr)) }
}
pub open spec fn props_names(props: Vec<PropItem>, n: int) -> Multiset<Seq<char>>
    decreases props, 1int, n
{
    if n <= 0 || n > props@.len() { Multiset::empty() }
    else { props_names(props, n - 1).add(pnames(prop_target(props@[n - 1]))) }
}
pub open spec fn seq_names(q: Seq<Expr>) -> Multiset<Seq<char>>
    decreases q.len()
{
    if q.len() == 0 { Multiset::empty() } else { seq_names(q.drop_last()).add(pnames(q.last())) }
}
// "a name may be bound only once per pattern", "`_` ... can be repeated"
pub open spec fn names_once(m: Multiset<Seq<char>>) -> bool { forall|n: Seq<char>| n != "_"@ ==> #[trigger] m.count(n) <= 1 }
pub open spec fn valid_params(args: Seq<Expr>) -> bool { all_ok(args) && names_once(seq_names(args)) }
pub open spec fn no_underscore(args: Seq<Expr>) -> bool { seq_names(args).count("_"@) == 0 }

pub proof fn lemma_seq_names_push(q: Seq<Expr>, x: Expr)
    ensures seq_names(q.push(x)) == seq_names(q).add(pnames(x)),
{
    assert(q.push(x).drop_last() =~= q);
}
pub proof fn lemma_seq_names_pop(q: Seq<Expr>)
    requires q.len() > 0,
    ensures seq_names(q) =~= seq_names(q.skip(1)).add(pnames(q[0])),
    decreases q.len()
{
    if q.len() == 1 {
        assert(q.skip(1) =~= Seq::<Expr>::empty());
        assert(q.drop_last() =~= Seq::<Expr>::empty());
    } else {
        lemma_seq_names_pop(q.drop_last());
        assert(q.drop_last().skip(1) =~= q.skip(1).drop_last());
        assert(q.skip(1).last() == q.last());
        assert(q.drop_last()[0] == q[0]);
    }
}
pub proof fn lemma_items_ok_forall(items: Vec<ListItem>, n: int)
    requires 0 <= n <= items@.len(),
    ensures items_ok(items, n) <==> (forall|k: int| 0 <= k < n ==> !(#[trigger] items@[k]).is_spread && target_ok(items@[k].expr)),
    decreases n
{
    if n > 0 { lemma_items_ok_forall(items, n - 1); }
}
pub proof fn lemma_props_ok_forall(props: Vec<PropItem>, n: int)
    requires 0 <= n <= props@.len(),
    ensures props_ok(props, n) <==> (forall|k: int| 0 <= k < n ==> !prop_spread(#[trigger] props@[k]) && target_ok(prop_target(props@[k]))),
    decreases n
{
    if n > 0 { lemma_props_ok_forall(props, n - 1); }
}
pub proof fn lemma_all_ok_pop(q: Seq<Expr>)
    requires q.len() > 0,
    ensures all_ok(q) == (target_ok(q[0]) && all_ok(q.skip(1))),
{
    if target_ok(q[0]) && all_ok(q.skip(1)) {
        assert forall|i: int| 0 <= i < q.len() implies target_ok(#[trigger] q[i]) by {
            if i > 0 { assert(q[i] == q.skip(1)[i - 1]); }
        }
    }
    if all_ok(q) {
        assert(target_ok(q[0]));
        assert forall|i: int| 0 <= i < q.skip(1).len() implies target_ok(#[trigger] q.skip(1)[i]) by {
            assert(q.skip(1)[i] == q[i + 1]);
        }
    }
}
// the queue after the sub-patterns `t` of one node have been appended to `q0`
pub proof fn lemma_all_ok_append(q: Seq<Expr>, q0: Seq<Expr>, n: int, t: spec_fn(int) -> Expr)
    requires
        n >= 0, q.len() == q0.len() + n,
        forall|k: int| 0 <= k < q0.len() ==> q[k] == q0[k],
        forall|k: int| 0 <= k < n ==> q[q0.len() + k] == #[trigger] t(k),
    ensures all_ok(q) == (all_ok(q0) && forall|k: int| 0 <= k < n ==> target_ok(#[trigger] t(k))),
{
    if all_ok(q) {
        assert forall|i: int| 0 <= i < q0.len() implies target_ok(#[trigger] q0[i]) by { assert(q[i] == q0[i]); }
        assert forall|k: int| 0 <= k < n implies target_ok(#[trigger] t(k)) by { assert(q[q0.len() + k] == t(k)); }
    }
    if all_ok(q0) && (forall|k: int| 0 <= k < n ==> target_ok(#[trigger] t(k))) {
        assert forall|i: int| 0 <= i < q.len() implies target_ok(#[trigger] q[i]) by {
            if i < q0.len() { assert(q[i] == q0[i]); } else { assert(q[q0.len() + (i - q0.len())] == t(i - q0.len())); }
        }
    }
}
pub open spec fn located_at(e: Error, loc: Location) -> bool {
    e matches Error::AtLoc{line, col, ..} && (line, col) == loc
}
"""

SPEC = r"""
    ensures
        // no spurious rejection: a parameter list of nested variable / list / object patterns without spread, whose
        // names other than `_` are all different, is accepted
        valid_params(args@) ==> r is Ok, // [C13_C20:a_well_formed_parameter_list_is_accepted_and_underscore_may_be_repeated]
        // acceptance means validity (stated for parameter lists without `_`: see DESIGN.md, known quirk)
        (r is Ok && no_underscore(args@)) ==> all_ok(args@), // [C13_C20:only_variables_and_spread_free_list_or_object_patterns_are_accepted_as_parameters]
        (r is Ok && no_underscore(args@)) ==> names_once(seq_names(args@)), // [C13:a_parameter_name_may_be_bound_only_once_at_any_nesting_depth]
        r matches Err(e) ==> e is AtLoc, // [C17:a_rejected_parameter_list_is_a_located_error]
"""


def build(read):
    b = Built()
    err_text, variants = parts.error_text(b, read)
    f = parts.copy_item(b, read, "src/eval/mod.rs", "fn", "validate_args")
    sel = parts.selectors_text(b, variants, [f])

    f = extract.rewrite_regex_once(f, r"\bargs\.(?:to_owned|to_vec)\(\)", "to_owned_exprs(args)", "validate_args: to_owned")
    f = extract.rewrite_regex_once(f, r"while let Some\((\w+)\) = queue\.pop_front\(\) \{",
                                   r"loop {\n        let \1 = match queue.pop_front() { Some(__x) => __x, None => break };",
                                   "validate_args: while-let")
    b.edits.append("D5: validate_args: `args.to_owned()` -> to_owned_exprs(args); `while let Some(arg) = queue.pop_front() {` -> "
                   "`loop { let arg = match queue.pop_front() { Some(__x) => __x, None => break };` (Rust's own desugaring)")
    f, n_cmp = re.subn(r"\bname == (\"[^\"]*\")", r"string_is(&name, \1)", f)
    b.edits.append(f"D5: validate_args: {n_cmp}x `name == \"..\"` (String == &str) -> string_is(&name, \"..\") (assumed std contract: text equality)")
    n_clone = len(re.findall(r"\b(value|expr)\.clone\(\)", f))
    f = re.sub(r"\b(value|expr)\.clone\(\)", r"clone_expr(&\1)", f)
    b.edits.append(f"D5: validate_args: {n_clone}x `.clone()` on the tuple alias Expr -> clone_expr")
    f = extract.rewrite_once(f, "name: name.to_string(),", "name: name.clone(),", "validate_args: DupParamName name")
    f = extract.rewrite_once(f, "descr: s.to_string()", "descr: str_to_string(s)", "validate_args: descr")
    b.edits.append("D5: `name.to_string()` -> `name.clone()`, `s.to_string()` -> str_to_string(s) (blanket ToString has no spec)")
    f = parts.annotate_closure(f, "new_loc_err", "source: Error", "Result<()>",
                               "r matches Err(e) && located_at(e, loc),", "validate_args", tag="C17:the_error_carries_the_position_of_the_offending_parameter")
    f = parts.annotate_closure(f, "new_invalid_bind_error", "s: &str", "Result<()>",
                               "r matches Err(e) && located_at(e, loc),", "validate_args")
    hdr, body = extract.fn_header_body(f)
    kinds = [k for k, _, _ in extract.find_loops(body)]
    if kinds != ["loop", "for", "for"]:
        raise Undecided(f"validate_args: expected loops [loop, for(props), for(items)], found {kinds}")
    body = desugar_for(body, 3, "__iti")
    body = desugar_for(body, 2, "__itp")
    b.edits.append("D5: validate_args: both inner `for` loops -> Rust's own desugaring")
    loops = {
        1: {"before": "let ghost mut seen: Multiset<Seq<char>> = Multiset::empty();\n"
                      "    proof { assert(queue@ =~= args@); }",
            "header": """        invariant
            seq_names(args@) =~= seen.add(seq_names(queue@)), // [C13:every_name_of_every_nested_pattern_is_accounted_for]
            all_ok(args@) == all_ok(queue@), // [C13_C20:every_pattern_node_is_checked_to_be_a_variable_or_a_spread_free_list_or_object_pattern]
            forall|n: Seq<char>| n != "_"@ ==> #[trigger] seen.count(n) == (if name_locs@.contains_key(n) { 1nat } else { 0nat }), // [C13:a_name_other_than_underscore_is_recorded_once_and_a_second_occurrence_is_rejected]
            !name_locs@.contains_key("_"@), // [C13_C20:underscore_is_never_recorded_as_a_name_so_it_can_be_repeated]
        ensures
            no_underscore(args@) ==> queue@.len() == 0,""",
            "body_start": "let ghost qold = queue@;\n"},
        2: {"before": "let ghost q0 = queue@;\n                let ghost psrc = props;\n                let ghost mut gj: int = 0;",
            "header": """                    invariant
                        0 <= gj <= psrc@.len(),
                        __itp.remaining() == psrc@.subrange(gj, psrc@.len() as int),
                        forall|k: int| 0 <= k < gj ==> !prop_spread(#[trigger] psrc@[k]), // [C13:a_spread_in_an_object_parameter_pattern_is_rejected]
                        queue@.len() == q0.len() + gj,
                        forall|k: int| 0 <= k < q0.len() ==> queue@[k] == q0[k],
                        forall|k: int| 0 <= k < gj ==> queue@[q0.len() + k] == prop_target(psrc@[k]), // [C13_C20:every_sub_pattern_of_an_object_pattern_is_queued_for_checking]
                        seq_names(queue@) =~= seq_names(q0).add(props_names(psrc, gj)), // [C13:every_sub_pattern_of_an_object_pattern_is_queued_for_checking]
                    ensures
                        gj == psrc@.len(),
                    decreases psrc@.len() - gj""",
            "body_start": "let ghost qb = queue@;\n",
            "after": """proof {
                    lemma_props_ok_forall(psrc, psrc@.len() as int);
                    lemma_all_ok_append(queue@, q0, psrc@.len() as int, |k: int| prop_target(psrc@[k]));
                    assert(target_ok(garg) == props_ok(psrc, psrc@.len() as int));
                }"""},
        3: {"before": "let ghost q0 = queue@;\n                let ghost isrc = items;\n                let ghost mut gi: int = 0;",
            "header": """                    invariant
                        0 <= gi <= isrc@.len(),
                        __iti.remaining() == isrc@.subrange(gi, isrc@.len() as int),
                        forall|k: int| 0 <= k < gi ==> !(#[trigger] isrc@[k]).is_spread, // [C13:a_spread_in_a_list_parameter_pattern_is_rejected]
                        queue@.len() == q0.len() + gi,
                        forall|k: int| 0 <= k < q0.len() ==> queue@[k] == q0[k],
                        forall|k: int| 0 <= k < gi ==> queue@[q0.len() + k] == isrc@[k].expr, // [C13_C20:every_sub_pattern_of_a_list_pattern_is_queued_for_checking]
                        seq_names(queue@) =~= seq_names(q0).add(items_names(isrc, gi)), // [C13:every_sub_pattern_of_a_list_pattern_is_queued_for_checking]
                    ensures
                        gi == isrc@.len(),
                    decreases isrc@.len() - gi""",
            "body_start": "let ghost qb = queue@;\n",
            "after": """proof {
                    lemma_items_ok_forall(isrc, isrc@.len() as int);
                    lemma_all_ok_append(queue@, q0, isrc@.len() as int, |k: int| isrc@[k].expr);
                    assert(target_ok(garg) == items_ok(isrc, isrc@.len() as int));
                }"""},
    }
    f = extract.annotate_fn(hdr + body, spec=SPEC,
                            attrs="#[verifier::exec_allows_no_decreases_clause]\n#[verifier::loop_isolation(false)]\n#[verifier::allow_complex_invariants]",
                            loops=loops)
    def hint(anchor_re, text, label, optional=False):
        nonlocal f
        m = list(re.finditer(anchor_re, f))
        if optional and not m:
            return
        if len(m) != 1:
            raise Undecided(f"validate_args: proof-hint anchor for {label} found {len(m)} times")
        f = f[:m[0].end()] + "\n" + text + f[m[0].end():]
    hint(r"let arg = match queue\.pop_front\(\) \{ Some\(__x\) => __x, None => break \};",
         """        let ghost garg = arg;
        proof {
            lemma_seq_names_pop(qold);
            lemma_all_ok_pop(qold);
            assert(all_ok(args@) == (target_ok(garg) && all_ok(queue@)));
            assert(seq_names(args@) =~= seen.add(seq_names(queue@)).add(pnames(garg)));
        }""", "pop")
    hint(r"if string_is\(&name, \"_\"\) \{", "                    proof { seen = seen.add(Multiset::singleton(\"_\"@)); }", "underscore", optional=True)
    hint(r"if let Some\([^=]*\) = name_locs\.get\(&name\) \{",
         "                    proof { assert(seen.count(name@) == 1); assert(seq_names(args@).count(name@) >= 2); }", "duplicate")
    hint(r"name_locs\.insert\([^;]*\);", "                proof { seen = seen.add(Multiset::singleton(name@)); }", "record")
    hint(r"let prop = match __itp\.next\(\) \{ Some\(__x\) => __x, None => break \};",
         "                    proof { gj = gj + 1; assert(prop == psrc@[gj - 1]); lemma_props_ok_forall(psrc, psrc@.len() as int); "
         "lemma_seq_names_push(qb, prop_target(prop)); }", "props step")
    hint(r"let ListItem\{expr, is_spread\} = match __iti\.next\(\) \{ Some\(__x\) => __x, None => break \};",
         "                    proof { gi = gi + 1; assert(isrc@[gi - 1].expr == expr && isrc@[gi - 1].is_spread == is_spread); "
         "lemma_items_ok_forall(isrc, isrc@.len() as int); lemma_seq_names_push(qb, expr); }", "items step")
    b.text = assemble([
        "// GENERATED on every run by /verif/verus/validate.py from /repo's working tree - do not edit",
        parts.HEADER.replace("use std::collections::HashSet;\n", ""), parts.OPAQUE_SCOPES,
        parts.OPAQUE_VALUE, sel, err_text, parts.ast_text(b, read), parts.CLONE_EXPR, MODEL,
        "// ---- function under contract (verbatim body; contract text inserted at anchors)",
        f, parts.FOOTER,
    ])
    return b


def replays(failed):
    def exp(out=None, err=None):
        def judge(rc, o, e):
            if rc not in (0, 103):
                return f"interpreter crashed (exit {rc})"
            if out is not None and (rc != 0 or o != out):
                return f"expected stdout {out!r}"
            if err is not None and (rc != 103 or err not in e):
                return f"expected an error containing {err!r}"
            return None
        return judge
    yield ("nested patterns with repeated `_` are accepted", "fn f(_, [a, _, {\"k\": b, c}], _) {\n    print(a + b + c)\n}\nf(0, [1, 0, {\"k\": 2, \"c\": 3}], 0)\n", exp("6\n"))
    yield ("duplicate name at top level", "fn f(a, a) {\n}\nprint(1)\n", exp(err="'a' is already declared"))
    yield ("duplicate name across nesting levels", "fn f(a, [b, {\"k\": a}]) {\n}\nprint(1)\n", exp(err="'a' is already declared"))
    yield ("spread in a parameter pattern", "fn f([xs.., y]) {\n}\nprint(1)\n", exp(err="spread"))
    yield ("literal as a parameter", "fn f(a, 1) {\n}\nprint(1)\n", exp(err="cannot bind to"))
    yield ("call as a nested parameter", "fn f([a, g()]) {\n}\nprint(1)\n", exp(err="cannot bind to"))
