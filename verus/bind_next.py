"""V-bindnext: bind::bind_next, bind::bind, bind::binary_operation_assign, scope::set
(C20 non-bindable targets; C13/C16 pattern dispatch and kind checks; C06 op-assign on elements
and properties; C11/C02 list index bound check before the element write; C17).

Copied verbatim from /repo/src/eval/bind.rs (and scope.rs::set).  The binders it dispatches to
(bind_next_name, bind_list, bind_object, bind_range_index) are external here and under contract in
their own units.  NOTE (A-lock): the container being written is reached through an evaluated value,
i.e. a local in this function; its mutation is therefore not observable in a postcondition - no
heap-effect claim (C05/C12 stay not-applicable); what IS claimed is the dispatch, the operator
application and every error clause."""
import re
import extract
import parts
import name_bind
from verus_engine import Built, assemble

NAME = "bind_next"
RLIMIT = 150
TIMEOUT = 900

HASHSET = name_bind.MODEL[name_bind.MODEL.index("// ---- D3: std::collections::HashSet"):name_bind.MODEL.index("// ---- abstract view of the scope chain")]

MODEL = r"""
impl BTreeMap<String, SourcedValue> {
    #[verifier::external_body]
    pub fn get_mut(&mut self, k: &str) -> (r: Option<&mut SourcedValue>)
        ensures
            match r {
                Some(slot) => old(self)@.contains_key(k@) && *slot == old(self)@[k@] && final(self)@ == old(self)@.insert(k@, *final(slot)),
                None => !old(self)@.contains_key(k@) && final(self)@ == old(self)@,
            }
    { unimplemented!() }
}
pub uninterp spec fn sem_expr(w: W, e: Expr) -> (Result<SourcedValue>, W);
pub uninterp spec fn sem_str(w: W, e: Expr) -> (Result<String>, W);
pub uninterp spec fn sem_index(w: W, e: Expr) -> (Result<usize>, W);
pub uninterp spec fn sem_apply(op: BinaryOp, op_loc: Location, lhs: Value, rhs: Value) -> Result<Value>;
pub uninterp spec fn sem_bind_name(w: W, names: Set<Seq<char>>, name: Seq<char>, loc: Location, rhs: SourcedValue, op: Option<(BinaryOp, Location)>, bt: BindType)
    -> (Result<()>, W, Set<Seq<char>>);
pub uninterp spec fn sem_bind_object(w: W, names: Set<Seq<char>>, props: Seq<PropItem>, rhs: Map<Seq<char>, SourcedValue>, bt: BindType)
    -> (Result<()>, W, Set<Seq<char>>);
pub uninterp spec fn sem_bind_list(w: W, names: Set<Seq<char>>, items: Seq<ListItem>, collect: bool, loc: Location, rhs: Seq<SourcedValue>, bt: BindType)
    -> (Result<()>, W, Set<Seq<char>>);

pub mod eval {
    use super::*;
    #[verifier::external_body]
    pub fn eval_expr(context: &EvaluationContext, scopes: &mut ScopeStack, expr: &Expr) -> (r: Result<SourcedValue>)
        ensures (r, final(scopes).world()) == sem_expr(old(scopes).world(), *expr), r matches Err(e) ==> located(e),
    { unimplemented!() }
    #[verifier::external_body]
    pub fn eval_expr_to_str(context: &EvaluationContext, scopes: &mut ScopeStack, descr: &str, expr: &Expr) -> (r: Result<String>)
        ensures (r, final(scopes).world()) == sem_str(old(scopes).world(), *expr), r matches Err(e) ==> located(e),
    { unimplemented!() }
    #[verifier::external_body]
    pub fn eval_expr_to_index(context: &EvaluationContext, scopes: &mut ScopeStack, expr: &Expr) -> (r: Result<usize>)
        ensures (r, final(scopes).world()) == sem_index(old(scopes).world(), *expr), r matches Err(e) ==> located(e),
    { unimplemented!() }
    // under Kani contracts (C06 / C16)
    #[verifier::external_body]
    pub fn apply_binary_operation(op: &BinaryOp, op_loc: &Location, lhs: &Value, rhs: &Value) -> (r: Result<Value>)
        ensures r == sem_apply(*op, *op_loc, *lhs, *rhs), r matches Err(e) ==> located(e),
    { unimplemented!() }
}
// under contract in units V-name, V-object, V-list, V-range
#[verifier::external_body]
fn bind_next_name(scopes: &mut ScopeStack, names_in_binding: &mut HashSet<String>, name: &str, name_loc: &(usize, usize), rhs: SourcedValue, op: Option<(BinaryOp, Location)>, bind_type: BindType) -> (r: Result<()>)
    ensures (r, final(scopes).world(), final(names_in_binding)@) == sem_bind_name(old(scopes).world(), old(names_in_binding)@, name@, *name_loc, rhs, op, bind_type),
            r matches Err(e) ==> located(e),
{ unimplemented!() }
#[verifier::external_body]
fn bind_object(context: &EvaluationContext, scopes: &mut ScopeStack, names_in_binding: &mut HashSet<String>, lhs: &Vec<PropItem>, rhs: &ObjectRef, bind_type: BindType) -> (r: Result<()>)
    ensures (r, final(scopes).world(), final(names_in_binding)@) == sem_bind_object(old(scopes).world(), old(names_in_binding)@, lhs@, rhs.0.0@, bind_type),
            r matches Err(e) ==> located(e),
{ unimplemented!() }
#[verifier::external_body]
fn bind_list(context: &EvaluationContext, scopes: &mut ScopeStack, names_in_binding: &mut HashSet<String>, raw_lhs: (&[ListItem], &bool), lhs_loc: &(usize, usize), rhs: &ListRef, bind_type: BindType) -> (r: Result<()>)
    ensures (r, final(scopes).world(), final(names_in_binding)@) == sem_bind_list(old(scopes).world(), old(names_in_binding)@, raw_lhs.0@, *raw_lhs.1, *lhs_loc, rhs.0.0@, bind_type),
            r matches Err(e) ==> located(e),
{ unimplemented!() }
#[verifier::external_body]
fn bind_range_index(context: &EvaluationContext, scopes: &mut ScopeStack, lhs: (&mut ListRef, &Option<Box<Expr>>, &Option<Box<Expr>>), lhs_loc: &(usize, usize), rhs_items: &[SourcedValue]) -> (r: Result<()>)
    ensures r matches Err(e) ==> located(e),
            (r, final(scopes).world()) == sem_bind_range(old(scopes).world(), *lhs.1, *lhs.2, *lhs_loc, rhs_items@),
{ unimplemented!() }
// D5: `s.iter().map(|c| value::new_str(vec![*c])).collect()` (iterator adapters): the bytes of s as one-byte strings, in order
pub open spec fn str_items(s: Seq<u8>) -> Seq<SourcedValue> {
    Seq::new(s.len(), |i: int| SourcedValue{v: Value::Str(vec_of(seq![s[i]])), source: None})
}
pub uninterp spec fn vec_of(s: Seq<u8>) -> Vec<u8>;
#[verifier::external_body]
pub fn str_chars(s: &Vec<u8>) -> (r: Vec<SourcedValue>)
    ensures r@ == str_items(s@),
{ unimplemented!() }
// (unit V-range is about bind_range_index; here: WHAT it is called on)
pub uninterp spec fn sem_bind_range(w: W, start: Option<Box<Expr>>, end: Option<Box<Expr>>, loc: Location, items: Seq<SourcedValue>) -> (Result<()>, W);

pub open spec fn at(e: Error, loc: Location) -> bool {
    e matches Error::AtLoc{source, line, col} && line == loc.0 && col == loc.1
}
pub open spec fn inner(e: Error) -> Error {
    match e { Error::AtLoc{source, line, col} => *source, _ => e }
}
// the error of a failing `slot op= rhs`, if the operator is what fails
pub open spec fn op_error(old_slot: SourcedValue, rhs: SourcedValue, op: Option<(BinaryOp, Location)>) -> Option<Error> {
    match op { Some(o) => match sem_apply(o.0, o.1, old_slot.v, rhs.v) { Err(e) => Some(e), Ok(_) => None }, None => None }
}
// the position shown for a failing op-assign on an element / property is the operator error's own position
pub open spec fn shows_op_position(r: Result<()>, old_slot: SourcedValue, rhs: SourcedValue, op: Option<(BinaryOp, Location)>) -> bool {
    op_error(old_slot, rhs, op) matches Some(e0) ==> (r matches Err(e) && first_pos(e) == first_pos(e0))
}
pub open spec fn bindable(e: RawExpr) -> bool {
    e is Var || e is Index || e is RangeIndex || e is Prop || e is Object || e is List
}
// result of `slot op= rhs` / `slot = rhs` on one element or property (C06: x op= y is x = x op y)
pub open spec fn slot_after(old_slot: SourcedValue, rhs: SourcedValue, op: Option<(BinaryOp, Location)>) -> Option<SourcedValue> {
    match op {
        None => Some(rhs),
        Some(o) => match sem_apply(o.0, o.1, old_slot.v, rhs.v) {
            Ok(v) => Some(SourcedValue{v, source: None}),
            Err(_) => None,
        },
    }
}
"""

SPEC_NEXT = r"""
    ensures
        // ---- only variables, elements, properties, ranges and list/object patterns can be bound
        !bindable(lhs.0) ==> r is Err && at(r->Err_0, lhs.1) && inner(r->Err_0) is InvalidBindTarget
            && final(scopes).world() == old(scopes).world() && final(names_in_binding)@ == old(names_in_binding)@, // [C20:literals_calls_and_operations_are_not_bindable_and_are_reported_at_the_target]
        // ---- a variable target goes through the name binder, same operator / kind / position
        lhs.0 matches RawExpr::Var{name} ==> (r, final(scopes).world(), final(names_in_binding)@)
            == sem_bind_name(old(scopes).world(), old(names_in_binding)@, name@, lhs.1, rhs, op, bind_type), // [C20:a_variable_target_is_bound_by_the_name_binder]
        // ---- list pattern: source must be a list; no operator on a pattern
        lhs.0 matches RawExpr::List{items, collect} ==> (
            if op is Some { r is Err && at(r->Err_0, lhs.1) && inner(r->Err_0) is OpOnListDestructure }
            else { match rhs.v {
                Value::List(l) => (r, final(scopes).world(), final(names_in_binding)@)
                    == sem_bind_list(old(scopes).world(), old(names_in_binding)@, items@, collect, lhs.1, l.0.0@, bind_type),
                _ => r is Err && at(r->Err_0, lhs.1) && inner(r->Err_0) is ListDestructureOnNonList,
            } }), // [C13_C16:a_list_pattern_destructures_a_list_and_any_other_source_kind_or_an_operator_is_an_error]
        lhs.0 matches RawExpr::Object{props} ==> (
            if op is Some { r is Err && at(r->Err_0, lhs.1) && inner(r->Err_0) is OpOnObjectDestructure }
            else { match rhs.v {
                Value::Object(o) => (r, final(scopes).world(), final(names_in_binding)@)
                    == sem_bind_object(old(scopes).world(), old(names_in_binding)@, props@, o.0.0@, bind_type),
                _ => r is Err && at(r->Err_0, lhs.1) && inner(r->Err_0) is ObjectDestructureOnNonObject,
            } }), // [C13_C16:an_object_pattern_destructures_an_object_and_any_other_source_kind_or_an_operator_is_an_error]
        // ---- element / property targets: kind checks, index bound check, op on a missing key
        lhs.0 matches RawExpr::Index{expr, location} ==> (match sem_expr(old(scopes).world(), *expr).0 {
            Err(_) => r is Err,
            Ok(base) => match base.v {
                Value::List(l) => match sem_index(sem_expr(old(scopes).world(), *expr).1, *location).0 {
                    Err(_) => r is Err,
                    Ok(n) => if n >= l.0.0@.len() { r is Err && at(r->Err_0, lhs.1) && inner(r->Err_0) == (Error::OutOfListBounds{index: n}) }
                             else { (r is Ok) == (slot_after(l.0.0@[n as int], rhs, op) is Some) },
                },
                Value::Object(o) => match sem_str(sem_expr(old(scopes).world(), *expr).1, *location).0 {
                    Err(_) => r is Err,
                    Ok(k) => if o.0.0@.contains_key(k@) { (r is Ok) == (slot_after(o.0.0@[k@], rhs, op) is Some) }
                             else if op is Some { r is Err && at(r->Err_0, lhs.1) && inner(r->Err_0) is OpOnUndefinedIndex }
                             else { r is Ok },
                },
                _ => r is Err && at(r->Err_0, lhs.1) && inner(r->Err_0) is ValueNotIndexAssignable,
            },
        }), // [C11_C12_C16:element_write_checks_0_le_i_lt_len_object_write_updates_or_inserts_op_on_a_missing_key_and_non_container_targets_are_errors]
        lhs.0 matches RawExpr::Prop{expr, name, type_prop} ==> (
            if type_prop { r is Err && at(r->Err_0, lhs.1) && inner(r->Err_0) is AssignToTypeProp }
            else { match sem_expr(old(scopes).world(), *expr).0 {
                Err(_) => r is Err,
                Ok(base) => match base.v {
                    Value::Object(o) => if o.0.0@.contains_key(name@) { (r is Ok) == (slot_after(o.0.0@[name@], rhs, op) is Some) }
                                        else if op is Some { r is Err && at(r->Err_0, lhs.1) && inner(r->Err_0) is OpOnUndefinedProp }
                                        else { r is Ok },
                    _ => r is Err && at(r->Err_0, lhs.1) && inner(r->Err_0) is PropAccessOnNonObject,
                },
            } }), // [C12_C16_C20:property_write_follows_the_same_rules_as_string_index_write_a_type_property_is_not_a_bind_target_and_a_non_object_target_is_an_error]
        // ---- C18: "the position attached ... to an operator type/overflow error [is] that of the operator", also for `x[i] op= v` / `o.k op= v`
        lhs.0 matches RawExpr::Index{expr, location} ==> (match sem_expr(old(scopes).world(), *expr).0 {
            Err(_) => true,
            Ok(base) => match base.v {
                Value::List(l) => match sem_index(sem_expr(old(scopes).world(), *expr).1, *location).0 {
                    Ok(n) => n < l.0.0@.len() ==> shows_op_position(r, l.0.0@[n as int], rhs, op),
                    Err(_) => true,
                },
                Value::Object(o) => match sem_str(sem_expr(old(scopes).world(), *expr).1, *location).0 {
                    Ok(k) => o.0.0@.contains_key(k@) ==> shows_op_position(r, o.0.0@[k@], rhs, op),
                    Err(_) => true,
                },
                _ => true,
            },
        }), // [C18:a_failing_op_assign_on_an_element_shows_the_position_of_the_operator_first]
        lhs.0 matches RawExpr::Prop{expr, name, type_prop} ==> (!type_prop ==> (match sem_expr(old(scopes).world(), *expr).0 {
            Ok(base) => match base.v {
                Value::Object(o) => o.0.0@.contains_key(name@) ==> shows_op_position(r, o.0.0@[name@], rhs, op),
                _ => true,
            },
            Err(_) => true,
        })), // [C18:a_failing_op_assign_on_a_property_shows_the_position_of_the_operator_first]
        lhs.0 matches RawExpr::RangeIndex{expr, start, end} ==> (
            if op is Some { r is Err && at(r->Err_0, lhs.1) && inner(r->Err_0) is OpOnRangeIndex }
            else { match sem_expr(old(scopes).world(), *expr).0 {
                Err(_) => r is Err,
                Ok(base) => match base.v {
                    Value::List(l) => {
                        &&& (!(rhs.v is List || rhs.v is Str) ==> r is Err && at(r->Err_0, lhs.1) && inner(r->Err_0) is RangeIndexAssignOnNonIndexable)
                        // a list source: the range assignment itself, with the bounds as written, on exactly the source's items
                        &&& (rhs.v is List ==> (r, final(scopes).world())
                                == sem_bind_range(sem_expr(old(scopes).world(), *expr).1, start, end, lhs.1, rhs.v->List_0.0.0@))
                        // a string source: the same, on its bytes as one-byte strings, in order
                        &&& (rhs.v is Str ==> (r, final(scopes).world())
                                == sem_bind_range(sem_expr(old(scopes).world(), *expr).1, start, end, lhs.1, str_items(rhs.v->Str_0@)))
                    },
                    _ => r is Err && at(r->Err_0, lhs.1) && inner(r->Err_0) is ValueNotRangeIndexAssignable,
                },
            } }), // [C11_C16:range_assignment_needs_a_list_target_and_a_list_or_string_source_and_no_operator_and_is_always_carried_out_with_the_bounds_as_written]
        r matches Err(e) ==> located(e), // [C17:binding_errors_are_located]
"""

SPEC_BOA = r"""
    ensures
        (r is Ok) == (slot_after(*old(lhs), rhs, op) is Some), // [C06_C12_C16:op_assign_on_an_element_or_property_fails_exactly_when_the_operator_fails]
        r is Ok ==> *final(lhs) == slot_after(*old(lhs), rhs, op)->0, // [C06_C11_C12_C14_C16:op_assign_on_an_element_or_property_stores_old_value_op_rhs_and_plain_assign_stores_rhs_with_its_provenance]
        r is Err ==> *final(lhs) == *old(lhs), // [C06:failed_operator_leaves_the_slot_unchanged]
        shows_op_position(r, *old(lhs), rhs, op), // [C18:a_failing_op_assign_shows_the_position_of_the_operator_first]
        r matches Err(e) ==> located(e), // [C17:binding_errors_are_located]
"""

SPEC_BIND = r"""
    ensures
        !bindable(lhs.0) ==> r is Err && at(r->Err_0, lhs.1) && inner(r->Err_0) is InvalidBindTarget, // [C20:literals_calls_and_operations_are_not_bindable_and_are_reported_at_the_target]
        r matches Err(e) ==> located(e), // [C17:binding_errors_are_located]
"""


def build(read):
    b = Built()
    err_text, variants = parts.error_text(b, read)
    src = read("src/eval/bind.rs")
    f1 = parts.copy_item(b, read, "src/eval/bind.rs", "fn", "bind_next")
    f2 = parts.copy_item(b, read, "src/eval/bind.rs", "fn", "binary_operation_assign")
    f3 = parts.copy_item(b, read, "src/eval/bind.rs", "fn", "bind")
    mac = extract.strip_comments(extract.extract_item(src, "macro", "match_eval_expr"))
    b.copied.append(("macro", "match_eval_expr", "src/eval/bind.rs", extract.item_line(src, "macro", "match_eval_expr")))
    setf = parts.copy_item(b, read, "src/eval/scope.rs", "fn", "set")
    bt = parts.copy_item(b, read, "src/eval/bind.rs", "enum", "BindType")
    sel = parts.selectors_text(b, variants, [f1, f2, f3, mac])

    f1, nexp = parts.expand_match_eval_expr(f1, mac, "eval::eval_expr")
    b.edits.append(f"D4: the crate's `match_eval_expr!` macro expanded mechanically at {nexp} sites of bind_next (definition checked against /repo's macro text)")
    # A-lock: the cell reached through the evaluated value is a local here; mutation needs `mut`
    if f1.count("Value::List(items) => {") != 1 or f1.count("Value::Object(props) => {") != 2:
        from common import Undecided
        raise Undecided("bind_next: interior-mutability binding sites not found as expected")
    f1 = f1.replace("Value::List(items) => {", "Value::List(mut items) => {").replace("Value::Object(props) => {", "Value::Object(mut props) => {")
    b.edits.append("D5 (A-lock): bind_next: `mut` added to three pattern bindings (`Value::List(items)`, 2x `Value::Object(props)`) - "
                   "interior mutability through the lock becomes mutation of an exclusively owned local; its effect is NOT observable (no heap claim)")
    f1 = extract.rewrite_regex_once(f1, r"(\w+)\s*\.iter\(\)\s*\.map\(\|(\w+)\|\s*value::new_str\(vec!\[\*\2\]\)\)\s*\.collect\(\)", r"str_chars(&\1)",
                                    "bind_next: string source of a range assignment")
    b.edits.append("D5: bind_next: `s.iter().map(|c| value::new_str(vec![*c])).collect()` -> str_chars(&s) (external: the bytes of s as one-byte strings, in order)")
    b.dropped.append("bind_next: the iterator-adapter expression turning a string source into one-byte strings")
    f1 = parts.annotate_closure(
        f1, "new_loc_err", "source: Error", "Result<()>",
        "r == Err::<(), Error>(Error::AtLoc{source: Box::new(source), line: loc.0, col: loc.1})", "bind_next")
    f1 = parts.annotate_closure(
        f1, "new_invalid_bind_error", "s: &str", "Result<()>",
        "r is Err && at(r->Err_0, *loc) && inner(r->Err_0) is InvalidBindTarget", "bind_next")
    b.edits.append("annotation: closures `new_loc_err`, `new_invalid_bind_error` given parameter types, named result and postconditions")
    f1 = extract.annotate_fn(f1, spec=SPEC_NEXT, attrs="#[verifier::exec_allows_no_decreases_clause]\n", body_start="    let ghost rhs0 = rhs;\n    let ghost op0 = op;\n")
    # ---- the operation performed on the locked cell (ghost snapshots + labelled assertions)
    def effect(kind, old_, new_, what):
        """labelled in-body assertion; if its anchor is not in the current source the clause is skipped (recorded), not the whole unit"""
        nonlocal f1
        try:
            f1 = (extract.rewrite_regex_once if kind == "re" else extract.rewrite_once)(f1, old_, new_, what)
        except Exception as e:          # Undecided: anchor not found exactly once
            lab = re.search(r"// \[([^\]]+)\]", new_)
            b.skipped_clauses.append(lab.group(1) if lab else what)
    f1 = extract.rewrite_once(f1, ".context(EvalListIndexFailed)?;\n",
                              ".context(EvalListIndexFailed)?;\n                    let ghost l0 = items.0.0@;\n", "bind_next: list snapshot")
    effect("s", ".context(BinOpAssignListIndexFailed)?;\n",
        ".context(BinOpAssignListIndexFailed)?;\n"
        "                    proof { assert(items.0.0@ == l0.update(n as int, slot_after(l0[n as int], rhs0, op0)->0)); } // [C11:element_assignment_changes_only_position_i_to_v_or_old_op_v_and_keeps_the_length]\n",
        "bind_next: list write effect")
    f1 = extract.rewrite_once(f1, ".context(EvalObjectIndexFailed)?;\n",
                              ".context(EvalObjectIndexFailed)?;\n                    let ghost m0 = props.0.0@;\n                    let ghost k = name@;\n",
                              "bind_next: object snapshot (index path)")
    effect("s", ".context(BinOpAssignObjectIndexFailed)?;\n",
        ".context(BinOpAssignObjectIndexFailed)?;\n"
        "                        proof { assert(props.0.0@ == m0.insert(k, slot_after(m0[k], rhs0, op0)->0)); } // [C12:index_assignment_to_an_existing_key_replaces_exactly_that_property]\n",
        "bind_next: object index write effect (existing key)")
    effect("re", r"(OpOnUndefinedIndex\{name\}\);\s*\}\s*lock_deref!\(props\)\.insert\([^;]*\);\n)",
        r"\1                    proof { assert(!m0.contains_key(k) && props.0.0@ == m0.insert(k, rhs0)); } // [C12:index_assignment_to_an_absent_key_adds_exactly_that_property]\n",
        "bind_next: object index write effect (new key)")
    f1 = extract.rewrite_regex_once(
        f1, r"(Value::Object\(mut props\) => \{\n)(\s*if let Some\(slot\) = lock_deref!\(props\)\.get_mut\(name\) \{\n)",
        r"\1                    let ghost m0 = props.0.0@;\n\2", "bind_next: object snapshot (property path)")
    effect("s", ".context(BinOpAssignPropFailed)?;\n",
        ".context(BinOpAssignPropFailed)?;\n"
        "                        proof { assert(props.0.0@ == m0.insert(name@, slot_after(m0[name@], rhs0, op0)->0)); } // [C12:property_assignment_to_an_existing_key_replaces_exactly_that_property_like_index_assignment]\n",
        "bind_next: object property write effect (existing key)")
    effect("re", r"(OpOnUndefinedProp\{name\}\);\s*\}\s*lock_deref!\(props\)\.insert\([^;]*\);\n)",
        r"\1                    proof { assert(!m0.contains_key(name@) && props.0.0@ == m0.insert(name@, rhs0)); } // [C12:property_assignment_to_an_absent_key_adds_exactly_that_property_like_index_assignment]\n",
        "bind_next: object property write effect (new key)")
    b.edits.append("annotation: ghost snapshots of the locked cell and 6 labelled assertions stating the operation performed on it")
    f2 = extract.annotate_fn(f2, spec=SPEC_BOA, attrs="#[verifier::exec_allows_no_decreases_clause]\n")
    f3 = extract.annotate_fn(f3, spec=SPEC_BIND, attrs="#[verifier::exec_allows_no_decreases_clause]\n")
    setf = extract.annotate_fn(setf, spec="\n    ensures *final(slot) == v, // [C11_C12_C14:a_store_puts_the_value_together_with_its_provenance_into_the_slot]\n")
    b.edits.append("D3: std HashSet<String> / BTreeMap<String, SourcedValue> replaced by assumed set / finite-map contracts")

    b.text = assemble([
        "// GENERATED on every run by /verif/verus/bind_next.py from /repo's working tree - do not edit",
        parts.HEADER.replace("use std::collections::HashSet;\n", ""), parts.OPAQUE_CONTEXT, parts.OPAQUE_SCOPES,
        sel, err_text, parts.located_spec(variants), parts.ast_text(b, read),
        parts.value_items(b, read), parts.value_model(True), HASHSET,
        "// ---- verbatim from src/eval/bind.rs", bt,
        "impl Clone for BindType { #[verifier::external_body] fn clone(&self) -> (r: Self) ensures r == *self { unimplemented!() } }\nimpl Copy for BindType {}",
        MODEL,
        "pub mod scope {\n    use super::*;\n// ---- verbatim from src/eval/scope.rs\n" + setf + "\n}",
        ("" if "string_bytes" in MODEL else "pub uninterp spec fn string_bytes(s: Seq<char>) -> Seq<u8>;     // UTF-8 encoding (Verus has no str byte reasoning)\n") +
        parts.value_ctors(b, read, ["new_val_ref_with_no_source", "new_val_ref_with_source", "new_null", "new_bool", "new_int", "new_str", "new_str_from_string", "new_list", "new_object", "new_func"], ref_eq=True),
        "// ---- verbatim macro from src/eval/bind.rs", mac,
        "// ---- functions under contract (verbatim bodies; contract text inserted at anchors)",
        f3, f1, f2,
        parts.FOOTER,
    ])
    return b


def _expect(exp_out=None, err_sub=None):
    def judge(rc, out, err):
        if rc not in (0, 103):
            return f"interpreter crashed (exit {rc})"
        if exp_out is not None and (rc != 0 or out != exp_out):
            return f"expected success with stdout {exp_out!r}"
        if err_sub is not None and (rc != 103 or err_sub not in err):
            return f"expected a reported error containing {err_sub!r}"
        return None
    return judge


def replays(failed):
    for lit, what in [("1", "an integer literal"), ("null", "`null`"), ("true", "a boolean literal"), ("\"s\"", "a string literal"),
                      ("(1 + 2)", "a binary operation"), ("(1 .. 2)", "a range operation"), ("f()", "a function call")]:
        yield (f"{what} is not bindable", f"fn f() {{\n}}\n{lit} = 1\n", _expect(err_sub="cannot bind to"))
    yield ("list pattern on a non-list", "[a] := 1\n", _expect(err_sub="1:1:"))
    yield ("object pattern on a non-object", "{a} := [1]\n", _expect(err_sub="1:1:"))
    yield ("element write out of bounds", "xs := [1]\nxs[1] = 2\n", _expect(err_sub="outside the list bounds"))
    yield ("element op-assign", "xs := [5]\nxs[0] -= 2\nprint(xs[0])\n", _expect("3\n"))
    yield ("property op-assign equals index op-assign", "o := {\"a\": 5}\no.a -= 2\no[\"a\"] -= 1\nprint(o.a)\n", _expect("2\n"))
    yield ("op-assign on a missing key", "o := {}\no.a += 1\n", _expect(err_sub="1:"))
    yield ("index write on a non-container", "x := 1\nx[0] = 1\n", _expect(err_sub="2:1:"))
    yield ("an assigned function value keeps the object it was read from as `this`",
           "a := {\"n\": 1, \"f\": fn() {\n    return this.n\n}}\ng := null\ng = a.f\nprint(g())\nxs := [null]\nxs[0] = a.f\nh := xs[0]\nprint(h())\n", _expect("1\n1\n"))
    yield ("an empty object pattern still needs an object source", "[a, {}] := [1, 2]\n", _expect(err_sub="only objects can be destructured into objects"))
    yield ("an empty list pattern still needs a list source", "{\"k\": []} := {\"k\": 1}\n", _expect(err_sub="1:"))
    yield ("a range assignment is carried out (bounds checked, lengths compared) also when the source is the target list itself",
           "xs := [1, 2, 3, 4]\nxs[0:4] = xs\nprint(xs == [1, 2, 3, 4])\nxs[1:3] = xs\nprint(\"unreachable\")\n", _expect(err_sub="cannot bind 4 item(s) to 2 index(s)"))
    yield ("a string source of a range assignment arrives as its bytes, in order",
           "xs := [1, 2, 3]\nxs[0:2] = \"ab\"\nprint(xs)\n", _expect("[\n    a,\n    b,\n    3,\n]\n"))
