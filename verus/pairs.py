"""V-pairs: eval::value_to_pairs (C07 `for` walks a snapshot: list elements by index, string bytes in
order, object properties by ascending key, as [key, value] pairs; C16 only strings / lists / objects
are iterable).  Copied verbatim from /repo/src/eval/mod.rs; verified for sequences of every length."""
import re

import extract
import parts
from verus_engine import Built, assemble
from common import Undecided

NAME = "pairs"
RLIMIT = 100

MODEL = r"""
global size_of usize == 8;   // 64-bit target
pub uninterp spec fn string_bytes(s: Seq<char>) -> Seq<u8>;
// ascending-key iteration of an object (std BTreeMap): ASSUMED contract
pub uninterp spec fn entries(m: Map<Seq<char>, SourcedValue>) -> Seq<(Seq<char>, SourcedValue)>;
// The alias `Object` is copied from the repository; both std maps it could name have a shadow.  Only
// the ordered map's iteration is a function of its contents (ascending keys, ASSUMED std contract).
#[verifier::external_body]
#[verifier::reject_recursive_types(K)]
#[verifier::accept_recursive_types(V)]
pub struct HashMap<K, V> { _p: core::marker::PhantomData<(K, V)> }
impl HashMap<String, SourcedValue> {
    pub uninterp spec fn view(&self) -> Map<Seq<char>, SourcedValue>;
}
pub trait ObjMap: Sized {
    spec fn mview(&self) -> Map<Seq<char>, SourcedValue>;
    spec fn ordered() -> bool;
}
impl ObjMap for BTreeMap<String, SourcedValue> {
    open spec fn mview(&self) -> Map<Seq<char>, SourcedValue> { self@ }
    open spec fn ordered() -> bool { true }
}
impl ObjMap for HashMap<String, SourcedValue> {
    open spec fn mview(&self) -> Map<Seq<char>, SourcedValue> { self@ }
    open spec fn ordered() -> bool { false }
}
// D5: `props.iter().map(|(key, value)| (new_str_from_string(key.to_string()), value.clone())).collect()`
#[verifier::external_body]
pub fn object_pairs<M: ObjMap>(m: &M) -> (r: Vec<(SourcedValue, SourcedValue)>)
    ensures
        r@.len() == m.mview().len(),
        M::ordered() ==> r@.len() == entries(m.mview()).len(),
        M::ordered() ==> forall|i: int| 0 <= i < r@.len() ==> (#[trigger] r@[i]).1 == entries(m.mview())[i].1
            && r@[i].0.source is None && (r@[i].0.v matches Value::Str(bs) && bs@ == string_bytes(entries(m.mview())[i].0)),
{ unimplemented!() }

pub open spec fn int_value(i: int) -> SourcedValue { SourcedValue{v: Value::Int(i as i64), source: None} }
pub open spec fn byte_value(v: SourcedValue, b: u8) -> bool {
    v.source is None && (v.v matches Value::Str(o) && o@ == seq![b])
}
"""

SPEC = r"""
    ensures
        // only strings, lists and objects are iterable
        !(v is Str || v is List || v is Object) ==> r == Err::<Vec<(SourcedValue, SourcedValue)>, Error>(Error::ForIterNotIterable), // [C16:only_strings_lists_and_objects_are_iterable]
        // a string is walked byte by byte, in order, keyed by its index
        (v matches Value::Str(s) && s@.len() <= i64::MAX) ==> (r matches Ok(ps) && ps@.len() == v->Str_0@.len()
            && forall|i: int| 0 <= i < ps@.len() ==> (#[trigger] ps@[i]).0 == int_value(i) && byte_value(ps@[i].1, v->Str_0@[i])), // [C07_C15:for_over_a_string_visits_its_bytes_in_order_keyed_by_index]
        // a list is walked by index over the elements it has at loop entry (the result is a copy: later changes do not affect it)
        (v matches Value::List(l) && l.0.0@.len() <= i64::MAX) ==> (r matches Ok(ps) && ps@.len() == v->List_0.0.0@.len()
            && forall|i: int| 0 <= i < ps@.len() ==> (#[trigger] ps@[i]).0 == int_value(i) && ps@[i].1 == v->List_0.0.0@[i]), // [C07:for_over_a_list_visits_the_entry_snapshot_by_index]
        // an object is walked by ascending key
        (v matches Value::Object(o)) ==> (r matches Ok(ps) && ps@.len() == entries(v->Object_0.0.0@).len()
            && forall|i: int| 0 <= i < ps@.len() ==> (#[trigger] ps@[i]).1 == entries(v->Object_0.0.0@)[i].1
                && (ps@[i].0.v matches Value::Str(bs) && bs@ == string_bytes(entries(v->Object_0.0.0@)[i].0))), // [C07_C12:for_over_an_object_visits_its_properties_in_key_order]
"""


def desugar_enumerates(fn_text, label, expected):
    """D5: every `for (i, x) in EXPR.iter().enumerate() { B }` -> index loop (no `continue` in B)."""
    n = 0
    while True:
        m = re.search(r"for \((\w+), (\w+)\) in (.+?)\.iter\(\)\.enumerate\(\) \{", fn_text)
        if not m:
            break
        i, v, x = m.group(1), m.group(2), m.group(3)
        brace = m.end() - 1
        close = extract.match_brace(fn_text, brace)
        body = fn_text[brace + 1:close]
        if re.search(r"\bcontinue\b", body):
            raise Undecided(f"{label}: loop body contains `continue`")
        new = (f"let mut {i}: usize = 0;\n            while {i} < {x}.len() {{\n                let {v} = &{x}[{i}];"
               + body + f"    {i} += 1;\n            }}")
        fn_text = fn_text[:m.start()] + new + fn_text[close + 1:]
        n += 1
    if n != expected:
        raise Undecided(f"{label}: expected {expected} enumerate loops, found {n}")
    return fn_text


def build(read):
    b = Built()
    err_text, variants = parts.error_text(b, read)
    f = parts.copy_item(b, read, "src/eval/mod.rs", "fn", "value_to_pairs")
    sel = parts.selectors_text(b, variants, [f])
    n = len(re.findall(r"let mut pairs = Vec::with_capacity\(", f))
    if n != 2:
        raise Undecided(f"value_to_pairs: expected 2 `let mut pairs = Vec::with_capacity(..)`, found {n}")
    f = f.replace("let mut pairs = Vec::with_capacity(", "let mut pairs: Vec<(SourcedValue, SourcedValue)> = Vec::with_capacity(")
    b.edits.append("annotation: type of the local `pairs` written out (2 sites; needed to mention it in an invariant)")
    f = desugar_enumerates(f, "value_to_pairs", 2)
    b.edits.append("D5: value_to_pairs: 2x `for (i, x) in X.iter().enumerate()` -> index loops")
    f = extract.rewrite_regex_once(
        f, r"props\s*\.iter\(\)\s*\.map\(\|\((\w+), (\w+)\)\| \{\s*\(\s*value::new_str_from_string\(\1\.(?:to_string|clone)\(\)\),\s*\2\.clone\(\),\s*\)\s*\}\)\s*\.collect\(\)",
        "object_pairs(props)", "value_to_pairs: object iteration")
    b.edits.append("D5: value_to_pairs: `props.iter().map(|(key, value)| (new_str_from_string(key.to_string()), value.clone())).collect()` -> "
                   "`object_pairs(props)` (assumed std BTreeMap contract: entries in ascending key order, each once)")
    b.dropped.append("value_to_pairs: the BTreeMap iterator expression (replaced by its std contract)")
    loops = {
        1: {"header": """                invariant
                    i <= s@.len(),
                    pairs@.len() == i,
                    forall|j: int| 0 <= j < i ==> (#[trigger] pairs@[j]).0 == int_value(j) && byte_value(pairs@[j].1, s@[j]),
                decreases s@.len() - i"""},
        2: {"header": """                invariant
                    i <= items@.len(),
                    pairs@.len() == i,
                    forall|j: int| 0 <= j < i ==> (#[trigger] pairs@[j]).0 == int_value(j) && pairs@[j].1 == items@[j],
                decreases items@.len() - i"""},
    }
    f = extract.annotate_fn(f, spec=SPEC, attrs="#[verifier::loop_isolation(false)]", loops=loops)
    f = extract.rewrite_once(f, "pairs.push((value::new_int(n), value::new_str(vec![*c])));\n",
                             "pairs.push((value::new_int(n), value::new_str(vec![*c])));\n"
                             "                proof { let k = pairs@.len() - 1; assert(pairs@[k].1.v->Str_0@ == seq![s@[k]]); }\n",
                             "value_to_pairs: proof hint (one-byte string)")
    alias = parts.copy_item(b, read, "src/eval/value.rs", "type", "Object")
    vm = parts.value_model(True)
    if vm.count("pub type Object = BTreeMap<String, SourcedValue>;") != 1:
        raise Undecided("value model: Object alias anchor lost")
    vm = vm.replace("pub type Object = BTreeMap<String, SourcedValue>;", "// ---- verbatim from src/eval/value.rs\n" + alias)
    b.text = assemble([
        "// GENERATED on every run by /verif/verus/pairs.py from /repo's working tree - do not edit",
        parts.HEADER.replace("use std::collections::HashSet;\n", ""), parts.OPAQUE_SCOPES,
        sel, err_text, parts.ast_text(b, read), parts.value_items(b, read), vm, MODEL,
        parts.value_ctors(b, read, ["new_val_ref_with_no_source", "new_val_ref_with_source", "new_null", "new_bool", "new_int", "new_str", "new_str_from_string", "new_list", "new_object"]),
        "// ---- function under contract (verbatim body; contract text inserted at anchors)",
        f, parts.FOOTER,
    ])
    return b


def replays(failed):
    def exp(out=None, err=None):
        def judge(rc, o, e):
            if rc not in (0, 103):
                return f"interpreter crashed (exit {rc})"
            if out is not None and (rc != 0 or o != out):
                return f"expected stdout {out!r}"
            if err is not None and (rc != 103 or err not in e):
                return f"expected an error containing {err!r}"
            return None
        return judge
    yield ("string bytes in order", "for p in \"abc\" {\n    print(p[0])\n    print(p[1])\n}\n", exp("0\na\n1\nb\n2\nc\n"))
    yield ("multi-byte string is walked by bytes", "n := 0\nfor p in \"é\" {\n    n += 1\n}\nprint(n)\n", exp("2\n"))
    yield ("list by index", "for p in [7, 8] {\n    print(p[0])\n    print(p[1])\n}\n", exp("0\n7\n1\n8\n"))
    yield ("object by ascending key", "for p in {\"b\": 1, \"a\": 2} {\n    print(p[0])\n}\n", exp("a\nb\n"))
    yield ("snapshot", "xs := [1, 2]\nn := 0\nfor p in xs {\n    xs = xs + [3]\n    n += 1\n}\nprint(n)\n", exp("2\n"))
    yield ("int is not iterable", "for p in 1 {\n}\n", exp(err="'for' iterator must be"))
