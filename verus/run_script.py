"""V-run: main.rs::run, from the script path to the evaluation (C03 / C09 / C15 / C17: the text handed to
the lexer is exactly the text of the script file - nothing is added, dropped or rewritten before lexing, so
every position and every character the user sees is the file's own; the whole file is parsed before
anything is evaluated; what is evaluated is the parse of that text, once; a failure carries the script path
as given).

`fn run` is copied verbatim from /repo/src/main.rs.  Its callees are external with uninterpreted results
(the file system, the lexer + parser, the evaluator: other units are about them); the one EFFECT that the
contract has to speak about - "the evaluator was started" - is reified mechanically (edit D7): the call
`eval::eval_prog(` gets a ghost log as an extra first argument and appends what it was started on."""
import re

import extract
import parts
from verus_engine import Built, assemble, parse_enum_variants, SELECTOR_PRELUDE
from common import Undecided

NAME = "run_script"
RLIMIT = 100

MODEL = r"""
use vstd::prelude::*;
verus! {
pub type Location = (usize, usize);
pub type InterpSlot = (usize, usize);
// ---- D3: std / crate types run only passes along: opaque
#[verifier::external_body] pub struct IoError { _p: () }
#[verifier::external_body] pub struct PathBuf { _p: () }
#[verifier::external_body] pub struct Path { _p: () }
#[verifier::external_body] pub struct EvalError { _p: () }
#[verifier::external_body] pub struct SourcedValue { _p: () }
#[verifier::external_body] pub struct BuiltinFunc { _p: () }
#[verifier::external_body] pub struct TypeFunctions { _p: () }
#[verifier::external_body] pub struct ScopeStack { _p: () }
#[verifier::external_body] pub struct Scope { _p: () }
#[verifier::external_body] pub struct Object { _p: () }
#[verifier::external_body] pub struct Lexer { _p: () }
pub struct Arc<T>(pub T);
pub struct Mutex<T>(pub T);
impl<T> Arc<T> { pub fn new(t: T) -> (r: Self) ensures r.0 == t { Arc(t) } }
impl<T> Mutex<T> { pub fn new(t: T) -> (r: Self) ensures r.0 == t { Mutex(t) } }
pub type ObjectRef = Arc<Mutex<Object>>;
pub struct BTreeMap { _p: () }
impl BTreeMap {
    #[verifier::external_body]
    pub fn new() -> (r: Object) { unimplemented!() }
}
// lalrpop_util::ParseError (public definition of the dependency, version pinned by Cargo.lock): ASSUMED shape
pub enum ParseError<L, T, E> {
    InvalidToken{location: L},
    UnrecognizedEof{location: L, expected: Vec<String>},
    UnrecognizedToken{token: (L, T, L), expected: Vec<String>},
    ExtraToken{token: (L, T, L)},
    User{error: E},
}
#[verifier::external_body]
pub fn str_to_string(s: &str) -> (r: String) ensures r@ == s@ { unimplemented!() }
"""

WORLD = r"""
// ---- the outside world (ASSUMED: a function of the path for the duration of one run)
pub uninterp spec fn sem_cwd() -> std::result::Result<PathBuf, IoError>;
pub uninterp spec fn path_join(dir: PathBuf, rel: Path) -> PathBuf;
pub uninterp spec fn path_buf_of(p: Path) -> PathBuf;
pub uninterp spec fn sem_read(p: PathBuf) -> std::result::Result<String, IoError>;    // std::fs::read_to_string: the whole file, as UTF-8 text
impl PathBuf {
    #[verifier::external_body]
    pub fn push(&mut self, p: &Path) ensures *final(self) == path_join(*old(self), *p) { unimplemented!() }
}
impl Clone for PathBuf {
    #[verifier::external_body]
    fn clone(&self) -> (r: Self) ensures r == *self { unimplemented!() }
}
pub mod env {
    use super::*;
    #[verifier::external_body]
    pub fn current_dir() -> (r: std::result::Result<PathBuf, IoError>) ensures r == sem_cwd() { unimplemented!() }
}
pub mod fs {
    use super::*;
    #[verifier::external_body]
    pub fn read_to_string(p: &PathBuf) -> (r: std::result::Result<String, IoError>) ensures r == sem_read(*p) { unimplemented!() }
}
// snafu converts a selector field with `Into`: a PathBuf stays, a &Path is copied into a PathBuf
pub trait IntoPathBuf: Sized { spec fn into_pb(self) -> PathBuf; }
impl IntoPathBuf for PathBuf { open spec fn into_pb(self) -> PathBuf { self } }
impl IntoPathBuf for &Path { open spec fn into_pb(self) -> PathBuf { path_buf_of(*self) } }

// ---- the front end (external; units V-lex*, V-strlit and the Kani lexer units are about it)
pub uninterp spec fn sem_parse(text: Seq<char>) -> std::result::Result<Prog, ParseError<(usize, usize), Token, LexError>>;
impl Lexer {
    pub uninterp spec fn text(&self) -> Seq<char>;
    #[verifier::external_body]
    pub fn new(chars: &String) -> (r: Lexer) ensures r.text() == chars@ { unimplemented!() }
}
pub struct ProgParser { _p: () }
impl ProgParser {
    #[verifier::external_body]
    pub fn new() -> (r: ProgParser) { unimplemented!() }
    #[verifier::external_body]
    pub fn parse(&self, lexer: Lexer) -> (r: std::result::Result<Prog, ParseError<(usize, usize), Token, LexError>>)
        ensures r == sem_parse(lexer.text())
    { unimplemented!() }
}
// ---- the evaluator (external).  D7: starting it is an effect, recorded in a ghost log
// (one entry per call: what the evaluator was started on, and what it returned)
pub struct Started { pub prog: Prog, pub bindings: Seq<(RawExpr, SourcedValue)>, pub cur_script_dir: PathBuf, pub result: std::result::Result<(), EvalError> }
pub mod eval {
    use super::*;
    #[verifier::external_body]
    pub fn eval_prog(log: &mut Ghost<Seq<Started>>, context: &EvaluationContext, scopes: &mut ScopeStack, global_bindings: Vec<(RawExpr, SourcedValue)>, prog: &Prog)
        -> (r: std::result::Result<(), EvalError>)
        ensures
            final(log)@ == old(log)@.push(Started{prog: *prog, bindings: global_bindings@, cur_script_dir: context.cur_script_dir, result: r}),
    { unimplemented!() }
}
impl ScopeStack {
    #[verifier::external_body]
    pub fn new(scopes: Vec<Arc<Mutex<Scope>>>) -> (r: ScopeStack) { unimplemented!() }
}
pub mod value {
    use super::*;
    #[verifier::external_body]
    pub fn new_built_in_func(name: String, f: BuiltinFunc) -> (r: SourcedValue) { unimplemented!() }
}
pub mod fns {
    use super::*;
    // D5: the function item `fns::print`, passed as a value
    #[verifier::external_body]
    pub fn print_fn() -> (r: BuiltinFunc) { unimplemented!() }
}
pub mod type_functions {
    use super::*;
    #[verifier::external_body]
    pub fn type_functions() -> (r: TypeFunctions) { unimplemented!() }
}
#[verifier::external_body]
pub fn clone_bindings(v: &Vec<(RawExpr, SourcedValue)>) -> (r: Vec<(RawExpr, SourcedValue)>) ensures r@ == v@ { unimplemented!() }

// =========================================================================================
// The reading of the property: what `seed <path>` does with the file
// =========================================================================================
pub enum Plan { Fail(Error), Eval(Prog) }
pub open spec fn plan(rel: Path) -> Plan {
    match sem_cwd() {
        Err(e) => Plan::Fail(Error::GetCurrentDirFailed{source: e}),
        Ok(d) => match sem_read(path_join(d, rel)) {
            Err(e) => Plan::Fail(Error::ReadScriptFailed{path: path_join(d, rel), source: e}),
            Ok(text) => match sem_parse(text@) {            // the text of the file, all of it, as it is
                Err(e) => Plan::Fail(Error::ParseFailed{src: e}),
                Ok(ast) => Plan::Eval(ast),
            },
        },
    }
}
pub open spec fn eval_outcome(r0: std::result::Result<(), EvalError>, rel: Path) -> std::result::Result<(), Error> {
    match r0 { Ok(_) => Ok(()), Err(e) => Err(Error::EvalFailed{source: e, path: path_buf_of(rel)}) }
}
"""

SPEC = r"""
    ensures
        // no current directory / no readable UTF-8 file at <cwd>/<path>: that failure, nothing evaluated
        (plan(*cur_rel_script_path) is Fail && !(plan(*cur_rel_script_path)->Fail_0 is ParseFailed))
            ==> r == Err::<(), Error>(plan(*cur_rel_script_path)->Fail_0) && log@.len() == 0, // [C03_C17_C19:the_file_read_is_the_one_at_the_working_directory_joined_with_the_path_as_given_and_an_unreadable_script_is_a_reported_failure_and_nothing_runs]
        // the file was read: what is lexed and parsed is its text, all of it, as it is
        (plan(*cur_rel_script_path) is Fail && plan(*cur_rel_script_path)->Fail_0 is ParseFailed)
            ==> r == Err::<(), Error>(plan(*cur_rel_script_path)->Fail_0) && log@.len() == 0, // [C03_C09_C15_C17_C18_C19:the_lexer_reads_the_text_of_the_file_unchanged_and_a_file_that_does_not_parse_is_rejected_before_anything_runs]
        plan(*cur_rel_script_path) is Eval
            ==> log@.len() == 1 && log@[0].prog == plan(*cur_rel_script_path)->Eval_0, // [C03_C09_C15_C17_C18_C19:what_is_evaluated_is_the_parse_of_the_text_of_the_file_unchanged_and_it_is_evaluated_once]
        log@.len() == 1 ==> r == eval_outcome(log@[0].result, *cur_rel_script_path), // [C17:the_outcome_of_the_run_is_the_outcome_of_the_evaluation_and_a_failure_carries_the_script_path_as_given]
"""


def gen_main_selectors(variants, needed):
    """D4 for main.rs's enum Error: as verus_engine.gen_selectors, but a selector field of type PathBuf is
    generic (`Into<PathBuf>`, what snafu's derive generates) - run passes a PathBuf to one and a &Path to another."""
    out = []
    byname = dict(variants)
    for n in needed:
        if n not in byname:
            raise Undecided(f"context selector {n} has no variant in main.rs's enum Error")
        fields = byname[n]
        src = [f for f in fields if f[0] == "source"]
        if not src:
            raise Undecided(f"selector {n}: variant has no `source` field")
        ety = src[0][1]
        rest = [f for f in fields if f[0] != "source"]
        if not rest:
            out.append(f"pub struct {n};\nimpl Selector<{ety}> for {n} {{ open spec fn wrap(self, e: {ety}) -> Error {{ Error::{n}{{source: e}} }} }}\n")
            continue
        if [t for _, t in rest] != ["PathBuf"]:
            raise Undecided(f"selector {n}: fields other than one PathBuf are not modelled: {rest}")
        a = rest[0][0]
        out.append(f"pub struct {n}<P> {{ pub {a}: P }}\nimpl<P: IntoPathBuf> Selector<{ety}> for {n}<P> {{ open spec fn wrap(self, e: {ety}) -> Error "
                   f"{{ Error::{n}{{source: e, {a}: self.{a}.into_pb()}} }} }}\n")
    return "".join(out)


def build(read):
    b = Built()
    src = read("src/main.rs")
    f = extract.strip_comments(extract.extract_item(src, "fn", "run"))
    b.copied.append(("fn", "run", "src/main.rs", extract.item_line(src, "fn", "run")))
    err = extract.strip_attributes(extract.strip_comments(extract.extract_item(src, "enum", "Error")))[0]
    b.copied.append(("enum", "Error", "src/main.rs", extract.item_line(src, "enum", "Error")))
    b.edits.append("D1: derive / allow attributes on main.rs's enum Error removed; `pub` added")
    variants = parse_enum_variants(err)
    sels = sorted(set(re.findall(r"\.context\(\s*([A-Za-z0-9_]+)", f)))
    selectors = SELECTOR_PRELUDE.replace("(r: Result<T>)", "(r: std::result::Result<T, Error>)") + gen_main_selectors(variants, sels)
    b.edits.append(f"D4: {len(sels)} snafu context selectors generated from main.rs's enum Error: {', '.join(sels)}")
    lsrc = read("src/lexer/mod.rs")
    tok = extract.strip_attributes(extract.strip_comments(extract.extract_item(lsrc, "enum", "Token")))[0]
    lerr = extract.strip_attributes(extract.strip_comments(extract.extract_item(lsrc, "enum", "LexError")))[0]
    for k_, n_ in [("enum", "Token"), ("enum", "LexError")]:
        b.copied.append((k_, n_, "src/lexer/mod.rs", extract.item_line(lsrc, k_, n_)))
    ast = parts.ast_text(b, read).replace("pub type Location = (usize, usize);", "")
    ctx = []
    for rel, name in [("src/eval/mod.rs", "EvaluationContext"), ("src/eval/builtins.rs", "Builtins")]:
        t = extract.strip_attributes(extract.strip_comments(extract.extract_item(read(rel), "struct", name)))[0]
        b.copied.append(("struct", name, rel, extract.item_line(read(rel), "struct", name)))
        ctx.append(t)

    f, n3 = re.subn(r"(\"(?:[^\"\\\\]|\\\\.)*\")\.to_string\(\)", r"str_to_string(\1)", f)
    f, n4 = re.subn(r"\bfns::print\b(?!\w|\()", "fns::print_fn()", f)
    f, n5 = re.subn(r"\bglobal_bindings\.clone\(\)", "clone_bindings(&global_bindings)", f)
    b.edits.append(f"D5: run: {n3}x `\"..\".to_string()` -> str_to_string(..); {n4}x the function item `fns::print` -> fns::print_fn() (an opaque value); "
                   f"{n5}x `global_bindings.clone()` -> clone_bindings(&global_bindings) (assumed structural)")
    f, nc = re.subn(r"\|(\w+)\|\s*(Error::\w+\s*\{[^{}|]*\})", r"|\1| -> (__r: Error) ensures __r == (\2) { \2 }", f)
    if nc:
        b.edits.append(f"annotation: {nc} closure(s) whose body is one `Error::Variant{{..}}` constructor get that expression as their postcondition")
    f, n6 = re.subn(r"\beval::eval_prog\(", "eval::eval_prog(log, ", f)
    if n6 == 0:
        raise Undecided("run: no call `eval::eval_prog(` found")
    b.edits.append(f"D7: {n6}x `eval::eval_prog(` -> `eval::eval_prog(log, ` (a ghost log of what the evaluator was started on); `log: &mut Ghost<Seq<Started>>` added to run's parameters")
    hdr, body = extract.fn_header_body(f)
    m = re.match(r"\s*fn run\(cur_rel_script_path: &Path\)\s*->\s*Result<\(\), Error>\s*$", hdr)
    if not m:
        raise Undecided("run: unexpected signature")
    hdr = "fn run(log: &mut Ghost<Seq<Started>>, cur_rel_script_path: &Path) -> std::result::Result<(), Error>\n"
    spec = SPEC.replace("log@", "final(log)@")
    f = extract.annotate_fn(hdr + body, spec="\n    requires old(log)@.len() == 0," + spec)
    b.text = assemble([
        "// GENERATED on every run by /verif/verus/run_script.py from /repo's working tree - do not edit",
        MODEL,
        "// ---- verbatim from src/lexer/mod.rs", tok, lerr,
        ast,
        "// ---- verbatim from src/eval/mod.rs, src/eval/builtins.rs", "\n".join(ctx),
        "// ---- verbatim from src/main.rs", "pub " + err.lstrip(),
        selectors, WORLD,
        "// ---- function under contract (verbatim body apart from the listed edits; contract text inserted)",
        f, parts.FOOTER,
    ])
    return b


def replays(failed):
    def exp(rc_exp, out, errline=None):
        def judge(rc, o, e):
            if rc != rc_exp:
                return f"expected exit status {rc_exp}, got {rc}"
            if o != out:
                return f"expected stdout {out!r}"
            if errline is None and e != "":
                return "expected nothing on stderr"
            if errline is not None and (not e.splitlines() or errline not in e.splitlines()[0]):
                return f"expected a first stderr line containing {errline!r}"
            return None
        return judge
    yield ("a first line that is a comment counts as a line", "#!/usr/bin/env seed\nprint(1)\nprint(zz)\n", exp(103, "1\n", "replay.sd:3:7: 'zz' is not defined"))
    yield ("a carriage return is not a line break", "print(1)\r\nprint(2)\r\nprint(zz)\r\n", exp(103, "1\n2\n", "replay.sd:3:7: 'zz' is not defined"))
    yield ("a leading blank CRLF line counts once", "\r\nprint(1)\r\nprint(zz)\r\n", exp(103, "1\n", "replay.sd:3:7: 'zz' is not defined"))
    yield ("text is not normalised: every character of a string literal arrives", "print(\"a\tb  c\")\nprint(\"é\" + \"é\")\n", exp(0, "a\tb  c\néé\n"))
    yield ("a syntax error anywhere in the file stops everything before it runs", "print(1)\nprint(2)\nx := := 3\n", exp(103, "", "replay.sd:3:6: "))
    yield ("an empty file", "", exp(0, ""))
