"""V-range: bind::bind_range_index (C11 range assignment; C02 index arithmetic; C17 located-ness).

Copied verbatim from /repo/src/eval/bind.rs on every run.  The list cell is modelled under A-lock
(exclusive access to a plain Vec; no aliasing claim).  eval_expr_to_index is external with an
uninterpreted contract: the proof holds for every index value / error it may return, for lists and
right-hand sides of every length."""
import re

import extract
import parts
from verus_engine import Built, assemble
from common import Undecided

NAME = "range_assign"
RLIMIT = 60

MODEL = r"""
// ---- A-lock model of `Arc<Mutex<Vec<SourcedValue>>>`: locking succeeds and gives exclusive
//      access to a plain Vec (D3/D4).  Valid for sequence facts, NOT for aliasing / lock safety.
pub struct ListRef { pub items: Vec<SourcedValue> }
macro_rules! lock_deref {
    ( $x:ident ) => { $x.items };
}

pub uninterp spec fn sem_index(w: W, e: Expr) -> (Result<usize>, W);
pub mod eval {
    use super::*;
    #[verifier::external_body]
    pub fn eval_expr_to_index(context: &EvaluationContext, scopes: &mut ScopeStack, expr: &Expr) -> (r: Result<usize>)
        ensures (r, final(scopes).world()) == sem_index(old(scopes).world(), *expr),
                r matches Err(e) ==> located(e),
    { unimplemented!() }
}

// ---- the reading of the property (C11): bounds of `xs[a:b] = ys`
pub open spec fn start_of(w: W, ms: Option<Box<Expr>>) -> (Result<usize>, W) {
    match ms { Some(e) => sem_index(w, *e), None => (Ok(0usize), w) }
}
// an omitted end means the length of the list being assigned to
pub open spec fn end_of(w: W, me: Option<Box<Expr>>, list_len: nat) -> (Result<usize>, W) {
    match me { Some(e) => sem_index(w, *e), None => (Ok(list_len as usize), w) }
}
// (Some((a, b)) or None if a bound expression failed, and the world afterwards)
pub open spec fn bounds_of(w: W, ms: Option<Box<Expr>>, me: Option<Box<Expr>>, list_len: nat) -> (Option<(int, int)>, W, W) {
    let (ra, w1) = start_of(w, ms);
    match ra {
        Err(_) => (None, w1, w1),
        Ok(a) => {
            let (rb, w2) = end_of(w1, me, list_len);
            match rb {
                Err(_) => (None, w2, w2),
                Ok(b) => (Some((a as int, b as int)), w2, w2),
            }
        },
    }
}
pub open spec fn range_ok(a: int, b: int, list_len: int, rhs_len: int) -> bool {
    0 <= a < b && b <= list_len && rhs_len == b - a
}
"""

SPEC = r"""
    ensures
        final(scopes).world() == bounds_of(old(scopes).world(), *maybe_start, *maybe_end, old(lhs_items).items@.len()).2,
        bounds_of(old(scopes).world(), *maybe_start, *maybe_end, old(lhs_items).items@.len()).0 is None ==> r is Err, // [C11:failing_bound_expression_fails_the_assignment]
        bounds_of(old(scopes).world(), *maybe_start, *maybe_end, old(lhs_items).items@.len()).0 matches Some(ab)
            ==> (range_ok(ab.0, ab.1, old(lhs_items).items@.len() as int, rhs_items@.len() as int) ==> r is Ok), // [C11:valid_range_assignment_is_accepted_and_an_omitted_end_means_the_list_length]
        bounds_of(old(scopes).world(), *maybe_start, *maybe_end, old(lhs_items).items@.len()).0 matches Some(ab)
            ==> (r is Ok ==> range_ok(ab.0, ab.1, old(lhs_items).items@.len() as int, rhs_items@.len() as int)), // [C11:range_outside_0_le_a_lt_b_le_len_or_wrong_length_is_rejected]
        r is Ok ==> final(lhs_items).items@.len() == old(lhs_items).items@.len(), // [C11:range_assignment_keeps_the_length]
        bounds_of(old(scopes).world(), *maybe_start, *maybe_end, old(lhs_items).items@.len()).0 matches Some(ab)
            ==> (r is Ok ==> forall|k: int| 0 <= k < rhs_items@.len() ==> final(lhs_items).items@[ab.0 + k] == rhs_items@[k]), // [C11:range_assignment_writes_ys_elementwise_at_a_plus_k]
        bounds_of(old(scopes).world(), *maybe_start, *maybe_end, old(lhs_items).items@.len()).0 matches Some(ab)
            ==> (r is Ok ==> forall|j: int| 0 <= j < old(lhs_items).items@.len() && !(ab.0 <= j < ab.1) ==> final(lhs_items).items@[j] == old(lhs_items).items@[j]), // [C11:range_assignment_leaves_every_other_position_unchanged]
        r is Err ==> final(lhs_items).items@ == old(lhs_items).items@, // [C11:failed_range_assignment_leaves_the_list_unchanged]
        r matches Err(e) ==> located(e), // [C17:range_assignment_errors_are_located]
"""


def desugar_enumerate(fn_text, label):
    """D5: `for (i, v) in X.iter().enumerate() { B }`  ->  `let mut i: usize = 0; while i < X.len() { let v = &X[i]; B  i += 1; }`
    (iterator adapters are outside Verus).  Only applied when B contains no `continue`."""
    m = re.search(r"for \((\w+), (\w+)\) in (\w+)\.iter\(\)\.enumerate\(\) \{", fn_text)
    if not m or len(re.findall(r"\.iter\(\)\.enumerate\(\)", fn_text)) != 1:
        raise Undecided(f"{label}: enumerate loop not found exactly once")
    i, v, x = m.group(1), m.group(2), m.group(3)
    brace = m.end() - 1
    close = extract.match_brace(fn_text, brace)
    body = fn_text[brace + 1:close]
    if re.search(r"\bcontinue\b", body):
        raise Undecided(f"{label}: loop body contains `continue`; desugaring not applicable")
    new = (f"let mut {i}: usize = 0;\n    while {i} < {x}.len() {{\n        let {v} = &{x}[{i}];"
           + body + f"    {i} += 1;\n    }}")
    return fn_text[:m.start()] + new + fn_text[close + 1:]


def build(read):
    b = Built()
    err_text, variants = parts.error_text(b, read)
    f = parts.copy_item(b, read, "src/eval/bind.rs", "fn", "bind_range_index")
    sel = parts.selectors_text(b, variants, [f])

    # D5: tuple parameter holding the &mut list -> three parameters (Verus cannot name the final
    # value of a `&mut` nested in a tuple)
    f = extract.rewrite_once(
        f, "    lhs: (&mut ListRef, &Option<Box<Expr>>, &Option<Box<Expr>>),\n",
        "    lhs_items: &mut ListRef, maybe_start: &Option<Box<Expr>>, maybe_end: &Option<Box<Expr>>,\n",
        "bind_range_index: tuple parameter")
    f = extract.rewrite_once(f, "    let (lhs_items, maybe_start, maybe_end) = lhs;\n", "", "bind_range_index: tuple destructuring")
    b.edits.append("D5: bind_range_index: parameter `lhs: (&mut ListRef, &Option<..>, &Option<..>)` split into three parameters; "
                   "`let (lhs_items, maybe_start, maybe_end) = lhs;` removed")
    f = desugar_enumerate(f, "bind_range_index")
    b.edits.append("D5: bind_range_index: `for (i, v) in rhs_items.iter().enumerate()` -> index loop (`let mut i = 0; while i < rhs_items.len() { let v = &rhs_items[i]; ..; i += 1 }`)")
    f = parts.annotate_closure(
        f, "new_loc_err", "source: Error", "Result<()>",
        "r == Err::<(), Error>(Error::AtLoc{source: Box::new(source), line: lhs_loc.0, col: lhs_loc.1})",
        "bind_range_index")
    b.edits.append("annotation: closure `new_loc_err` given parameter type, named result and its literal postcondition")
    loops = {1: {"before": "let ghost l0 = lhs_items.items@;",
                 "header": """        invariant
            i <= rhs_items@.len(),
            rhs_len == rhs_items@.len(),
            range_len == rhs_len,
            range_len == end - start,
            start < end <= list_len,
            list_len == l0.len(),
            lhs_items.items@.len() == l0.len(),
            forall|k: int| 0 <= k < i ==> lhs_items.items@[start + k] == rhs_items@[k],
            forall|j: int| 0 <= j < l0.len() && !(start <= j < start + i) ==> lhs_items.items@[j] == l0[j],
        decreases rhs_items@.len() - i"""}}
    f = extract.annotate_fn(f, spec=SPEC, loops=loops)

    b.text = assemble([
        "// GENERATED on every run by /verif/verus/range_assign.py from /repo's working tree - do not edit",
        parts.HEADER, parts.OPAQUE_CONTEXT, parts.OPAQUE_SCOPES, parts.OPAQUE_VALUE,
        sel, err_text, parts.located_spec(variants), parts.ast_text(b, read),
        MODEL,
        "// ---- function under contract (verbatim body; contract text inserted at anchors)",
        f,
        parts.FOOTER,
    ])
    return b


def _expect_stdout(exp):
    def judge(rc, out, err):
        if rc not in (0, 103):
            return f"interpreter crashed (exit {rc})"
        if out != exp:
            return f"expected stdout {exp!r}"
        return None
    return judge


def _expect_error(rc, out, err):
    if rc != 103:
        return f"expected a reported error (exit 103), got exit {rc} with stdout {out!r}"
    return None


def _flat(vals):
    return "".join(f"{v}\n" for v in vals)


def replays(failed):
    def show(name):
        return f"for x in {name} {{\n    print(x[1])\n}}\n"
    cases = [
        ("omitted end means the length of xs", "xs := [1, 2, 3]\nxs[2:] = [9]\n" + show("xs"), _expect_stdout(_flat([1, 2, 9]))),
        ("omitted start means 0", "xs := [1, 2, 3]\nxs[:2] = [8, 9]\n" + show("xs"), _expect_stdout(_flat([8, 9, 3]))),
        ("both omitted", "xs := [1, 2, 3]\nxs[:] = [7, 8, 9]\n" + show("xs"), _expect_stdout(_flat([7, 8, 9]))),
        ("inner range", "xs := [1, 2, 3, 4, 5]\nxs[1:3] = [8, 9]\n" + show("xs"), _expect_stdout(_flat([1, 8, 9, 4, 5]))),
        ("string rhs", "xs := [1, 2, 3]\nxs[1:3] = \"ab\"\n" + show("xs"), _expect_stdout(_flat([1, "a", "b"]))),
        ("length mismatch is an error", "xs := [1, 2, 3]\nxs[0:2] = [9]\nprint(0)\n", _expect_error),
        ("end beyond the list is an error", "xs := [1, 2, 3]\nxs[1:4] = [7, 8, 9]\nprint(0)\n", _expect_error),
        ("empty range is an error", "xs := [1, 2, 3]\nxs[1:1] = []\nprint(0)\n", _expect_error),
        ("omitted end with too long rhs is an error", "xs := [1, 2, 3]\nxs[2:] = [8, 9]\nprint(0)\n", _expect_error),
    ]
    for c in cases:
        yield c
    yield ("a shorter source is a reported error", "xs := [0, 1, 2, 3, 4]\nxs[1:4] = [\"x\", \"y\"]\nprint(0)\n", _expect_error)
    yield ("a longer source is a reported error", "xs := [0, 1, 2]\nxs[0:1] = [7, 8]\nprint(0)\n", _expect_error)
    yield ("exactly the range is replaced", "xs := [0, 1, 2, 3, 4]\nxs[1:3] = [7, 8]\nprint(xs == [0, 7, 8, 3, 4])\nxs[3:] = [9, 9]\nprint(xs == [0, 7, 8, 9, 9])\nxs[:1] = [5]\nprint(xs[0])\n", _expect_stdout("true\ntrue\n5\n"))
