// L-pos (C18): from the scanner's ONE-STEP contract (proved by Kani for every state and every
// char: units c18_scanner_new_base, c18_next_char_step) to the closed form of the reported
// position, for input of ANY length.  Pure lemma file (no text from /repo): `step` and `base`
// below are literally the ensures clauses of the two Kani units.
use vstd::prelude::*;
verus! {

pub type Pos = (int, int);   // (line, column)

// Kani unit c18_next_char_step: after next_char onto char c, loc() is
//   (line + 1, 0) if c == '\n', else (line, col + 1)          -- tabs, CR, multi-byte count one
pub open spec fn step(p: Pos, c: char) -> Pos {
    if c == '\n' { (p.0 + 1, 0int) } else { (p.0, p.1 + 1) }
}
// Kani unit c18_scanner_new_base: Scanner::new on a text whose first char is c: (2,0) if c == '\n' else (1,1)
//   == step((1, 0), c)
pub open spec fn base() -> Pos { (1int, 0int) }

// position reported while the current char is text[k]
pub open spec fn pos_at(text: Seq<char>, k: int) -> Pos
    decreases k + 1
{
    if k < 0 { base() } else { step(pos_at(text, k - 1), text[k]) }
}

// the documented meaning
pub open spec fn newlines(text: Seq<char>, n: int) -> int      // number of '\n' among text[0..n)
    decreases n
{
    if n <= 0 { 0 } else { newlines(text, n - 1) + (if text[n - 1] == '\n' { 1int } else { 0int }) }
}
pub open spec fn since_newline(text: Seq<char>, n: int) -> int  // chars after the last '\n' in text[0..n)
    decreases n
{
    if n <= 0 { 0 } else if text[n - 1] == '\n' { 0 } else { since_newline(text, n - 1) + 1 }
}

// L-pos.1  closed form: lines count from 1 (a newline belongs to the line it starts, at column 0);
// the column of any other char is the number of characters since the last newline, itself included
pub proof fn lemma_closed_form(text: Seq<char>, k: int)
    requires -1 <= k < text.len(),
    ensures pos_at(text, k) == (1 + newlines(text, k + 1), since_newline(text, k + 1)),
    decreases k + 1
{
    if k >= 0 {
        lemma_closed_form(text, k - 1);
    }
}
// L-pos.2  the position depends only on the text up to and including the char
pub proof fn lemma_prefix_only(a: Seq<char>, b: Seq<char>, k: int)
    requires -1 <= k < a.len(), k < b.len(), forall|i: int| 0 <= i <= k ==> a[i] == b[i],
    ensures pos_at(a, k) == pos_at(b, k),
    decreases k + 1
{
    if k >= 0 { lemma_prefix_only(a, b, k - 1); }
}
// L-pos.3  putting a blank line in front of the whole text moves every reported position down by exactly
// one line and leaves the column unchanged
pub proof fn lemma_blank_line_in_front(text: Seq<char>, k: int)
    requires -1 <= k < text.len(),
    ensures pos_at(seq!['\n'] + text, k + 1) == (pos_at(text, k).0 + 1, pos_at(text, k).1),
    decreases k + 1
{
    let t2 = seq!['\n'] + text;
    if k >= 0 {
        lemma_blank_line_in_front(text, k - 1);
        assert(t2[k + 1] == text[k]);
    } else {
        assert(t2[0] == '\n');
        assert(pos_at(t2, -1) == base());
    }
}
// L-pos.4  a tab or a multi-byte character advances the column by exactly one, like any other character
pub proof fn lemma_every_char_counts_one(text: Seq<char>, k: int)
    requires 0 <= k < text.len(), text[k] != '\n',
    ensures pos_at(text, k) == (pos_at(text, k - 1).0, pos_at(text, k - 1).1 + 1),
{
}
} // verus!
fn main() {}
