"""V-lexint: Lexer::next_int (C03: scanning an integer literal never panics and never slices the
source inside a character; C06: a literal that does not fit 64 bits is a reported error, never
wrapped).

Copied verbatim from /repo/src/lexer/mod.rs.  The scanner is modelled as (text, position) with its
public byte `index` tied to the position by the UTF-8 geometry `byte_off` (the Kani scanner units
prove that tie for the real scanner step by step); `str::parse::<i64>` is an assumed std contract;
`panic!` is a call with precondition `false`, so reaching it is a failed obligation."""
import re

import extract
import parts
import interp as interp_unit
from verus_engine import Built, assemble
from common import Undecided

NAME = "lex_int"
RLIMIT = 150


def geometry():
    m = interp_unit.MODEL
    a = m.index("// ---- UTF-8 geometry of a string")
    b = m.index("// byte_off is injective, so a boundary determines its character index")
    c = m.index("}", m.index("pub proof fn lemma_idx_of", b)) if False else None
    # up to and including lemma_idx_of
    end = m.index("pub proof fn lemma_idx_of")
    end = m.index("\n}\n", end) + 3
    return m[a:end]


MODEL = r"""
use vstd::prelude::*;
verus! {
pub type Location = (usize, usize);
pub type InterpSlot = (usize, usize);
""" + "GEOMETRY" + r"""
// ---- the scanner, abstractly: a text, a position, and the public byte index of that position
pub struct Scanner { pub index: usize, pub g: Ghost<(Seq<char>, int)> }
pub uninterp spec fn loc_at(text: Seq<char>, pos: int) -> (usize, usize);
impl Scanner {
    pub open spec fn text(&self) -> Seq<char> { self.g@.0 }
    pub open spec fn pos(&self) -> int { self.g@.1 }
    pub open spec fn wf(&self) -> bool { 0 <= self.pos() <= self.text().len() && self.index == byte_off(self.text(), self.pos()) }
    #[verifier::external_body]
    pub fn peek_char(&mut self) -> (r: Option<char>)
        ensures *final(self) == *old(self),
                r == (if 0 <= old(self).pos() < old(self).text().len() { Some(old(self).text()[old(self).pos()]) } else { None::<char> }),
    { unimplemented!() }
    #[verifier::external_body]
    pub fn next_char(&mut self)
        requires old(self).wf(),
        ensures final(self).text() == old(self).text(), final(self).wf(),
                final(self).pos() == (if old(self).pos() < old(self).text().len() { old(self).pos() + 1 } else { old(self).pos() }),
    { unimplemented!() }
    #[verifier::external_body]
    pub fn loc(&mut self) -> (r: (usize, usize))
        ensures *final(self) == *old(self), r == loc_at(old(self).text(), old(self).pos()),
    { unimplemented!() }
    // `&self.raw_chars[start..end]`: std panics unless both are character boundaries, in order
    #[verifier::external_body]
    pub fn range(&self, start: usize, end: usize) -> (r: &str)
        requires is_boundary(self.text(), start as int) && is_boundary(self.text(), end as int) && start <= end, // [C02_C03:the_source_text_is_only_sliced_at_character_boundaries_in_order]
        ensures r@ == self.text().subrange(idx_of(self.text(), start as int), idx_of(self.text(), end as int)),
    { unimplemented!() }
}
// ---- std (ASSUMED contracts)
pub open spec fn is_digit(c: char) -> bool { '0' <= c && c <= '9' }
#[verifier::external_body]
pub fn char_is_ascii_digit(c: char) -> (r: bool) ensures r == is_digit(c) { unimplemented!() }
// char::is_numeric is the Unicode property: every ASCII digit has it, and so do other characters
pub uninterp spec fn unicode_numeric(c: char) -> bool;
#[verifier::external_body]
pub fn char_is_numeric(c: char) -> (r: bool) ensures r == unicode_numeric(c), is_digit(c) ==> r { unimplemented!() }
#[verifier::external_body]
pub fn str_to_string(s: &str) -> (r: String) ensures r@ == s@ { unimplemented!() }
pub open spec fn without(s: Seq<char>, c: char) -> Seq<char>
    decreases s.len()
{
    if s.len() == 0 { s } else if s.last() == c { without(s.drop_last(), c) } else { without(s.drop_last(), c).push(s.last()) }
}
#[verifier::external_body]
pub fn string_remove_char(s: &String, c: char) -> (r: String) ensures r@ == without(s@, c) { unimplemented!() }
pub open spec fn dec(s: Seq<char>) -> nat
    decreases s.len()
{
    if s.len() == 0 { 0 } else { dec(s.drop_last()) * 10 + (s.last() as nat - '0' as nat) as nat }
}
pub open spec fn all_digits(s: Seq<char>) -> bool { forall|i: int| 0 <= i < s.len() ==> is_digit(#[trigger] s[i]) }
pub enum IntErrorKind { Empty, InvalidDigit, PosOverflow, NegOverflow, Zero }
#[verifier::external_body]
pub struct ParseIntError { _p: () }
impl ParseIntError {
    pub uninterp spec fn spec_kind(&self) -> IntErrorKind;
    #[verifier::external_body]
    pub fn kind(&self) -> (r: &IntErrorKind) ensures *r == self.spec_kind() { unimplemented!() }
}
// str::parse::<i64>: a non-empty string of ASCII digits parses to its decimal value, or overflows; anything else is another error
#[verifier::external_body]
pub fn parse_i64(s: &String) -> (r: std::result::Result<i64, ParseIntError>)
    ensures
        (s@.len() > 0 && all_digits(s@) && dec(s@) <= i64::MAX) ==> r == Ok::<i64, ParseIntError>(dec(s@) as i64),
        (s@.len() > 0 && all_digits(s@) && dec(s@) > i64::MAX) ==> (r matches Err(e) && e.spec_kind() is PosOverflow),
        !(s@.len() > 0 && all_digits(s@)) ==> (r matches Err(e) && !(e.spec_kind() is PosOverflow)),
{ unimplemented!() }
// `panic!(..)`: reaching it is a failed obligation
#[verifier::external_body]
pub fn internal_panic<T>() -> (r: T)
    requires false, // [C02_C03:scanning_an_integer_literal_never_reaches_an_internal_panic]
{ unimplemented!() }

// ---- the reading of the property: an integer literal is the maximal run of digits and `_` separators
pub open spec fn int_char(c: char) -> bool { is_digit(c) || c == '_' }
pub open spec fn run_ok(t: Seq<char>, from: int, to: int) -> bool {
    0 <= from <= to <= t.len() && (forall|i: int| from <= i < to ==> int_char(#[trigger] t[i])) && (to < t.len() ==> !int_char(t[to]))
}
pub proof fn lemma_without_digits(s: Seq<char>)
    requires forall|i: int| 0 <= i < s.len() ==> int_char(#[trigger] s[i]),
    ensures all_digits(without(s, '_')), s.len() > 0 && is_digit(s[0]) ==> without(s, '_').len() > 0,
    decreases s.len()
{
    if s.len() > 0 {
        lemma_without_digits(s.drop_last());
        if s.len() == 1 { assert(s.last() == s[0]); } else { assert(s.drop_last()[0] == s[0]); }
    }
}
"""

SPEC = r"""
    requires
        old(self).scanner.wf(),
        old(self).scanner.pos() < old(self).scanner.text().len(),
        is_digit(old(self).scanner.text()[old(self).scanner.pos()]),
    ensures
        final(self).scanner.text() == old(self).scanner.text(), final(self).scanner.wf(),
        run_ok(old(self).scanner.text(), old(self).scanner.pos(), final(self).scanner.pos()), // [C02_C03_C09:an_integer_literal_is_the_maximal_run_of_digits_and_underscore_separators]
        ({
            let t = old(self).scanner.text();
            let raw = t.subrange(old(self).scanner.pos(), final(self).scanner.pos());
            let v = dec(without(raw, '_'));
            if v <= i64::MAX { r == Ok::<Token, LexError>(Token::IntLiteral(v as i64)) }
            else { r matches Err(LexError::IntOverflow(l, s)) && l == loc_at(t, old(self).scanner.pos()) && s@ == raw }
        }), // [C06_C03:a_literal_has_its_decimal_value_ignoring_separators_or_is_a_reported_overflow_at_its_position_never_wrapped]
"""


def build(read):
    b = Built()
    src = read("src/lexer/mod.rs")
    f = extract.strip_comments(extract.extract_item(src, "fn", "next_int"))
    b.copied.append(("fn", "next_int", "src/lexer/mod.rs", extract.item_line(src, "fn", "next_int")))
    tok = extract.strip_attributes(extract.strip_comments(extract.extract_item(src, "enum", "Token")))[0]
    lerr = extract.strip_attributes(extract.strip_comments(extract.extract_item(src, "enum", "LexError")))[0]
    for k, n in [("enum", "Token"), ("enum", "LexError")]:
        b.copied.append((k, n, "src/lexer/mod.rs", extract.item_line(src, k, n)))
    b.edits.append("D1: derive attributes on Token / LexError removed")
    f = extract.rewrite_regex_once(f, r"while let Some\((\w+)\) = self\.scanner\.peek_char\(\) \{",
                                   r"loop {\n            let \1 = match self.scanner.peek_char() { Some(__x) => __x, None => break };", "next_int: while-let")
    b.edits.append("D5: next_int: `while let Some(c) = self.scanner.peek_char() {` -> `loop { let c = match .. { Some(__x) => __x, None => break };` (Rust's own desugaring)")
    f, k1 = re.subn(r"\b(\w+)\.is_ascii_digit\(\)", r"char_is_ascii_digit(\1)", f)
    f, k2 = re.subn(r"\b(\w+)\.is_numeric\(\)", r"char_is_numeric(\1)", f)
    f, k3 = re.subn(r"(self\.scanner\.range\([^()]*\))\.to_string\(\)", r"str_to_string(\1)", f)
    f, k4a = re.subn(r"\b(\w+)\.replace\('_', \"\"\)", r"string_remove_char(&\1, '_')", f)
    f, k4 = re.subn(r"(string_remove_char\([^()]*\)|\b\w+)\.parse\(\)", r"parse_i64(&\1)", f)
    if k3 != 1 or k4 != 1 or k4a != 1:
        raise Undecided(f"next_int: range(..).to_string() found {k3}x, replace('_', \"\") found {k4a}x, .parse() found {k4}x (expected 1 each)")
    b.edits.append(f"D5: next_int: {k1}x `c.is_ascii_digit()` -> char_is_ascii_digit(c), {k2}x `c.is_numeric()` -> char_is_numeric(c), `range(..).to_string()` -> "
                   "str_to_string(..), `raw.replace('_', \"\").parse()` -> parse_i64(&string_remove_char(&raw, '_')) (assumed std contracts)")
    # panic!( .. ) -> internal_panic()
    n = 0
    while True:
        m = re.search(r"\bpanic!\(", f)
        if not m:
            break
        cp = extract.match_brace(f, m.end() - 1)
        f = f[:m.start()] + "return internal_panic()" + f[cp + 1:]
        n += 1
    b.edits.append(f"D4: {n}x `panic!(..)` -> `return internal_panic()` (a call whose precondition is `false`: reaching it fails an obligation)")
    f, kr = re.subn(r"\bint\b(?!\()", "int_v", f)
    b.edits.append(f"D5: next_int: the local variable `int` renamed `int_v` ({kr} occurrences; `int` is a Verus type name)")
    hdr, body = extract.fn_header_body(f)
    kinds = [k for k, _, _ in extract.find_loops(body)]
    if kinds != ["loop"]:
        raise Undecided(f"next_int: expected one loop, found {kinds}")
    loops = {1: {"header": """            invariant
                self.scanner.text() == old(self).scanner.text(), self.scanner.wf(),
                old(self).scanner.pos() <= self.scanner.pos() <= self.scanner.text().len(),
                start == byte_off(self.scanner.text(), old(self).scanner.pos()),
                forall|i: int| old(self).scanner.pos() <= i < self.scanner.pos() ==> int_char(#[trigger] self.scanner.text()[i]), // [C02_C03_C09:an_integer_literal_is_the_maximal_run_of_digits_and_underscore_separators]
            ensures
                self.scanner.pos() < self.scanner.text().len() ==> !int_char(self.scanner.text()[self.scanner.pos()]), // [C02_C03_C09:an_integer_literal_is_the_maximal_run_of_digits_and_underscore_separators]
            decreases self.scanner.text().len() - self.scanner.pos(), // [C03:scanning_an_integer_literal_terminates]"""}}
    f = extract.annotate_fn(hdr + body, spec=SPEC, attrs="#[verifier::loop_isolation(false)]\n#[verifier::allow_complex_invariants]", loops=loops)
    f = extract.rewrite_regex_once(f, r"(let end = self\.scanner\.index;)",
                                   r"\1\n        proof { let t = self.scanner.text(); lemma_idx_of(t, old(self).scanner.pos()); lemma_idx_of(t, self.scanner.pos()); "
                                   r"if old(self).scanner.pos() < self.scanner.pos() { lemma_byte_off_strict(t, old(self).scanner.pos(), self.scanner.pos()); } "
                                   r"lemma_without_digits(t.subrange(old(self).scanner.pos(), self.scanner.pos())); }", "next_int: proof hint")
    b.text = assemble([
        "// GENERATED on every run by /verif/verus/lex_int.py from /repo's working tree - do not edit",
        MODEL.replace("GEOMETRY", geometry()),
        "// ---- verbatim from src/lexer/mod.rs", tok, lerr,
        "pub struct Lexer { pub scanner: Scanner, last_token: Option<Token> }",
        "// ---- function under contract (verbatim body; contract text inserted at anchors)",
        "impl Lexer {\n" + f + "\n}",
        parts.FOOTER,
    ])
    return b


def replays(failed):
    def exp(out=None, err=None):
        def judge(rc, o, e):
            if rc not in (0, 103):
                return f"interpreter crashed (exit {rc})"
            if out is not None and (rc != 0 or o != out):
                return f"expected stdout {out!r}"
            if err is not None and (rc != 103 or err not in e.splitlines()[0]):
                return f"expected a first stderr line containing {err!r}"
            return None
        return judge
    yield ("digit separators are ignored", "print(1_000 + 2__0)\n", exp("1020\n"))
    yield ("the largest literal", "print(9223372036854775807)\n", exp("9223372036854775807\n"))
    yield ("a literal beyond 64 bits is a reported error at its position", "x := 1\nprint(9223372036854775808)\n", exp(err=":2:7: '9223372036854775808' is too high for an int"))
    yield ("a non-ASCII digit after a digit is a clean rejection", "print(1²)\n", exp(err=":1:8:"))
    yield ("an Arabic-Indic digit after a digit is a clean rejection", "print(1٣)\n", exp(err=":1:8:"))
    yield ("multi-byte text before the literal", "s := \"éé\"; print(12)\n", exp("12\n"))
