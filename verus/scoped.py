"""V-scoped: eval::eval_stmts and eval::eval_stmts_in_new_scope (C07 forwarding through scopes; C17).

These two functions are what every block, branch, loop body and call body goes through: a fresh
scope is pushed on the given chain, the new bindings are declared in it in order, and the statement
sequence runs there; whatever it signals is the result, unchanged."""
import re

import extract
import parts
import name_bind
from verus_engine import Built, assemble, desugar_for

NAME = "scoped"
RLIMIT = 60

HASHSET = name_bind.MODEL[name_bind.MODEL.index("// ---- D3: std::collections::HashSet"):name_bind.MODEL.index("// ---- abstract view of the scope chain")]

MODEL = r"""
// D3: std HashMap only appears as the argument `HashMap::new()` of new_from_push
#[verifier::external_body]
#[verifier::reject_recursive_types(K)]
#[verifier::reject_recursive_types(V)]
pub struct HashMap<K, V> { _p: core::marker::PhantomData<(K, V)> }
impl<K, V> HashMap<K, V> {
    #[verifier::external_body]
    pub fn new() -> (r: Self) { unimplemented!() }
}
pub type Scope = HashMap<String, (SourcedValue, Location)>;

#[verifier::external_body]
pub struct ScopeStack { _p: () }
pub uninterp spec fn pushed(w: W) -> W;   // the same chain with one fresh, empty scope on top
impl ScopeStack {
    pub uninterp spec fn world(&self) -> W;
    // contract read off src/eval/scope.rs (clone of the chain + one new scope); assumed here
    #[verifier::external_body]
    pub fn new_from_push(&self, scope: Scope) -> (r: ScopeStack)
        ensures r.world() == pushed(self.world())
    { unimplemented!() }
}
pub uninterp spec fn sem_bind(w: W, lhs: Expr, rhs: SourcedValue, bt: BindType) -> (Result<()>, W);
pub uninterp spec fn sem_seq(w: W, stmts: Seq<Stmt>) -> (Result<Escape>, W);
pub mod bind {
    use super::*;
    #[verifier::external_body]
    pub fn bind(context: &EvaluationContext, scopes: &mut ScopeStack, lhs: &Expr, rhs: SourcedValue, bind_type: BindType) -> (r: Result<()>)
        ensures (r, final(scopes).world()) == sem_bind(old(scopes).world(), *lhs, rhs, bind_type),
                r matches Err(e) ==> located(e),
    { unimplemented!() }
    // the recursive binder with an explicit set of the names bound so far (what `bind` starts with an empty set): its own
    // uninterpreted result - nothing relates it to `bind`'s here
    #[verifier::external_body]
    pub fn bind_next(context: &EvaluationContext, scopes: &mut ScopeStack, names_in_binding: &mut HashSet<String>, lhs: &Expr, rhs: SourcedValue, op: Option<(BinaryOp, Location)>, bind_type: BindType) -> (r: Result<()>)
        ensures (r, final(scopes).world(), final(names_in_binding)@) == sem_bind_next(old(scopes).world(), old(names_in_binding)@, *lhs, rhs, op, bind_type),
                r matches Err(e) ==> located(e),
    { unimplemented!() }
}
pub uninterp spec fn sem_bind_next(w: W, names: Set<Seq<char>>, lhs: Expr, rhs: SourcedValue, op: Option<(BinaryOp, Location)>, bt: BindType) -> (Result<()>, W, Set<Seq<char>>);
// under contract in unit V-ctl
#[verifier::external_body]
pub fn eval_stmts_with_scope_stack(context: &EvaluationContext, scopes: &mut ScopeStack, stmts: &Block) -> (r: Result<Escape>)
    ensures (r, final(scopes).world()) == sem_seq(old(scopes).world(), stmts@),
            r matches Err(e) ==> located(e),
{ unimplemented!() }

pub open spec fn out(r: Result<Escape>) -> Option<Escape> {
    match r { Ok(e) => Some(e), Err(_) => None }
}
// the new bindings are DECLARED, in order, in the fresh scope; the first failure stops
pub open spec fn declare_all(w: W, bs: Seq<(Expr, SourcedValue)>, i: int) -> (bool, W)
    decreases bs.len() - i
{
    if i < 0 || i >= bs.len() { (true, w) } else {
        let (r, w1) = sem_bind(w, bs[i].0, bs[i].1, BindType::Declaration);
        match r { Err(_) => (false, w1), Ok(_) => declare_all(w1, bs, i + 1) }
    }
}
pub open spec fn spec_scoped(w: W, bs: Seq<(Expr, SourcedValue)>, stmts: Seq<Stmt>) -> Option<Escape> {
    let (ok, w1) = declare_all(pushed(w), bs, 0);
    if !ok { None } else { out(sem_seq(w1, stmts).0) }
}
"""

SPEC = r"""
    ensures
        out(r) == spec_scoped(old(scopes).world(), new_bindings@, stmts@), // [C07_C14_C20:a_scope_forwards_the_signal_of_its_statement_sequence_unchanged_after_declaring_its_bindings_in_order_in_ONE_fresh_scope_shared_with_the_body]
        r matches Err(e) ==> located(e), // [C17:scope_errors_are_located]
"""
SPEC2 = r"""
    ensures
        out(r) == spec_scoped(old(outer_scopes).world(), Seq::empty(), stmts@), // [C07_C20:a_block_runs_in_a_fresh_scope_and_forwards_its_signal_unchanged]
        r matches Err(e) ==> located(e), // [C17:scope_errors_are_located]
"""


def build(read):
    b = Built()
    err_text, variants = parts.error_text(b, read)
    f1 = parts.copy_item(b, read, "src/eval/mod.rs", "fn", "eval_stmts")
    f2 = parts.copy_item(b, read, "src/eval/mod.rs", "fn", "eval_stmts_in_new_scope")
    esc = parts.copy_item(b, read, "src/eval/mod.rs", "enum", "Escape")
    bt = parts.copy_item(b, read, "src/eval/bind.rs", "enum", "BindType")
    sel = parts.selectors_text(b, variants, [f1, f2])

    hdr, body = extract.fn_header_body(f1)
    body = desugar_for(body, 1)
    b.edits.append("D5: eval_stmts: `for (lhs, rhs) in new_bindings` -> Rust's own desugaring (into_iter/loop/match next)")
    loops = {1: {"before": "let ghost bs = new_bindings@;\n    let ghost w0 = new_scopes.world();\n    let ghost mut i: int = 0;",
                 "header": """        invariant
            0 <= i <= bs.len(),
            __it.remaining() == bs.subrange(i, bs.len() as int),
            declare_all(w0, bs, 0) == declare_all(new_scopes.world(), bs, i),
        ensures
            declare_all(w0, bs, 0) == (true, new_scopes.world()),
        decreases bs.len() - i"""}}
    f1 = extract.annotate_fn(hdr + body, spec=SPEC, attrs="#[verifier::exec_allows_no_decreases_clause]\n#[verifier::loop_isolation(false)]\n#[verifier::allow_complex_invariants]", loops=loops)
    mpat = re.search(r"let \((\w+), (\w+)\) = match __it\.next\(\)", f1)     # (the names of the loop's pattern are the code's own)
    pat = f"({mpat.group(1)}, {mpat.group(2)})" if mpat else "(lhs, rhs)"
    f1 = extract.rewrite_once(f1, "Some(__x) => __x, None => break };\n",
                              "Some(__x) => __x, None => break };\n proof { i = i + 1; assert(" + pat + " == bs[i - 1]); }\n", "eval_stmts: ghost index")
    f2 = extract.annotate_fn(f2, spec=SPEC2, attrs="#[verifier::exec_allows_no_decreases_clause]\n")
    b.edits.append("D3: std HashMap replaced by an opaque type with `new()` (only passed to new_from_push)")

    b.text = assemble([
        "// GENERATED on every run by /verif/verus/scoped.py from /repo's working tree - do not edit",
        parts.HEADER.replace("use std::collections::HashSet;\n", ""), parts.OPAQUE_CONTEXT, parts.value_items(b, read), parts.value_model(True),
        sel, err_text, parts.located_spec(variants), parts.ast_text(b, read),
        "// ---- verbatim from src/eval/mod.rs / bind.rs", esc, bt,
        HASHSET, MODEL,
        parts.value_ctors(b, read, ["new_val_ref_with_no_source", "new_val_ref_with_source", "new_null", "new_bool", "new_int", "new_str", "new_list", "new_object"]),
        "// ---- functions under contract (verbatim bodies; contract text inserted at anchors)",
        f1, f2,
        parts.FOOTER,
    ])
    return b


def replays(failed):
    import ctl
    for x in ctl.replays(failed):
        yield x
