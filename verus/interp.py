"""V-interp: eval::interpolate_string (C15 interpolation equals concatenation, Unicode-safe;
C02 slot offsets used as string slice bounds; C17).

Copied verbatim from /repo/src/eval/mod.rs.  Verus views a `&str` as `Seq<char>`; byte offsets are
related to it by the spec function `byte_off` (UTF-8 length of a char prefix).  Slicing a `&str` by
byte offsets is replaced by a call carrying std's contract, whose precondition is exactly std's
panic condition: both bounds on character boundaries, in order, within the string.  The slots are the
lexer's (unit V-strlit): CHARACTER offsets of `$` and of the position after `}`."""
import re

import extract
import parts
from verus_engine import Built, assemble, desugar_for
from common import Undecided

NAME = "interp"
RLIMIT = 150

MODEL = parts.value_model(False) + r"""
// ---- UTF-8 geometry of a string: byte offset of the k-th character
pub open spec fn utf8_len(c: char) -> int {
    if (c as u32) < 0x80 { 1 } else if (c as u32) < 0x800 { 2 } else if (c as u32) < 0x10000 { 3 } else { 4 }
}
pub open spec fn byte_off(cs: Seq<char>, k: int) -> int
    decreases k
{
    if k <= 0 { 0 } else { byte_off(cs, k - 1) + utf8_len(cs[k - 1]) }
}
#[verifier::opaque]
pub open spec fn is_boundary(cs: Seq<char>, b: int) -> bool {
    exists|k: int| 0 <= k <= cs.len() && #[trigger] byte_off(cs, k) == b
}
// the character index of a boundary
#[verifier::opaque]
pub open spec fn idx_of(cs: Seq<char>, b: int) -> int {
    choose|k: int| 0 <= k <= cs.len() && #[trigger] byte_off(cs, k) == b
}
pub proof fn lemma_byte_off_strict(cs: Seq<char>, i: int, j: int)
    requires 0 <= i < j <= cs.len(),
    ensures byte_off(cs, i) < byte_off(cs, j),
    decreases j - i
{
    if i < j - 1 { lemma_byte_off_strict(cs, i, j - 1); }
}
// byte_off is injective, so a boundary determines its character index
pub proof fn lemma_idx_of(cs: Seq<char>, k: int)
    requires 0 <= k <= cs.len(),
    ensures is_boundary(cs, byte_off(cs, k)), idx_of(cs, byte_off(cs, k)) == k,
{
    reveal(is_boundary);
    reveal(idx_of);
    let b = byte_off(cs, k);
    let k2 = idx_of(cs, b);
    if k2 < k { lemma_byte_off_strict(cs, k2, k); }
    if k < k2 { lemma_byte_off_strict(cs, k, k2); }
}
pub proof fn lemma_byte_off_monotone(cs: Seq<char>, i: int, j: int)
    requires 0 <= i <= j <= cs.len(),
    ensures byte_off(cs, i) <= byte_off(cs, j),
{
    if i < j { lemma_byte_off_strict(cs, i, j); }
}
// std: `&s[a..b]` / `&s[a..]` panic unless both bounds are character boundaries, in order, in range
#[verifier::external_body]
pub fn str_slice<'a>(s: &'a str, a: usize, b: usize) -> (r: &'a str)
    requires is_boundary(s@, a as int) && is_boundary(s@, b as int) && a <= b, // [C02_C15:a_string_is_only_sliced_at_character_boundaries_in_order_and_in_range_for_any_unicode_text]
    ensures r@ == s@.subrange(idx_of(s@, a as int), idx_of(s@, b as int)),
{ unimplemented!() }
#[verifier::external_body]
pub fn str_from<'a>(s: &'a str, a: usize) -> (r: &'a str)
    requires is_boundary(s@, a as int), // [C02_C15:a_string_is_only_sliced_at_character_boundaries_in_order_and_in_range_for_any_unicode_text]
    ensures r@ == s@.subrange(idx_of(s@, a as int), s@.len() as int),
{ unimplemented!() }
#[verifier::external_body]
pub fn str_to<'a>(s: &'a str, b: usize) -> (r: &'a str)
    requires is_boundary(s@, b as int), // [C02_C15:a_string_is_only_sliced_at_character_boundaries_in_order_and_in_range_for_any_unicode_text]
    ensures r@ == s@.subrange(0, idx_of(s@, b as int)),
{ unimplemented!() }
// std: `s.char_indices().map(|(i, _)| i).chain(once(s.len())).collect()` = the byte offset of every character, then the length
#[verifier::external_body]
pub fn char_byte_offsets(s: &str) -> (r: Vec<usize>)
    ensures r@.len() == s@.len() + 1, forall|k: int| 0 <= k <= s@.len() ==> #[trigger] r@[k] == byte_off(s@, k),
{ unimplemented!() }
// Vec<String>::join("")
#[verifier::external_body]
pub fn join_all(v: &Vec<String>) -> (r: String)
    ensures r@ == concat_all(v@, v@.len() as int)
{ unimplemented!() }
pub open spec fn concat_all(v: Seq<String>, n: int) -> Seq<char>
    decreases n
{
    if n <= 0 { Seq::empty() } else { concat_all(v, n - 1) + v[n - 1]@ }
}
pub proof fn lemma_concat_prefix(a: Seq<String>, b: Seq<String>, n: int)
    requires 0 <= n <= a.len(), n <= b.len(), forall|i: int| 0 <= i < n ==> a[i] == b[i],
    ensures concat_all(a, n) == concat_all(b, n),
    decreases n
{
    if n > 0 { lemma_concat_prefix(a, b, n - 1); }
}
// appending strings to the vector appends their text to the concatenation
pub proof fn lemma_concat_extend(old_v: Seq<String>, new_v: Seq<String>)
    requires old_v.len() <= new_v.len() <= old_v.len() + 2, forall|i: int| 0 <= i < old_v.len() ==> old_v[i] == new_v[i],
    ensures
        new_v.len() == old_v.len() + 1 ==> concat_all(new_v, new_v.len() as int) == concat_all(old_v, old_v.len() as int) + new_v[old_v.len() as int]@,
        new_v.len() == old_v.len() + 2 ==> concat_all(new_v, new_v.len() as int)
            == concat_all(old_v, old_v.len() as int) + new_v[old_v.len() as int]@ + new_v[old_v.len() as int + 1]@,
{
    lemma_concat_prefix(old_v, new_v, old_v.len() as int);
    reveal_with_fuel(concat_all, 3);
}
// D4: format! is opaque (only used for the parse-error text)
#[verifier::external_body]
pub fn opaque_format() -> String { unimplemented!() }
macro_rules! format {
    ($($t:tt)*) => { opaque_format() };
}

// ---- the generated parser and the lexer over a slot's text: external
#[verifier::external_body]
pub struct ExprParser { _p: () }
#[verifier::external_body]
pub struct Lexer { _p: () }
#[verifier::external_body]
pub struct ParseErr { _p: () }
pub uninterp spec fn sem_parse(text: Seq<char>) -> std::result::Result<Expr, ParseErr>;
impl ExprParser {
    #[verifier::external_body]
    pub fn new() -> (r: Self) { unimplemented!() }
    #[verifier::external_body]
    pub fn parse(&self, lexer: &mut Lexer) -> (r: std::result::Result<Expr, ParseErr>)
        ensures r == sem_parse(old(lexer).text())
    { unimplemented!() }
}
impl Lexer {
    pub uninterp spec fn text(&self) -> Seq<char>;
    #[verifier::external_body]
    pub fn new(chars: &str) -> (r: Self) ensures r.text() == chars@ { unimplemented!() }
}
pub uninterp spec fn sem_expr(w: W, e: Expr) -> (Result<SourcedValue>, W);
#[verifier::external_body]
fn eval_expr(context: &EvaluationContext, scopes: &mut ScopeStack, expr: &Expr) -> (r: Result<SourcedValue>)
    ensures (r, final(scopes).world()) == sem_expr(old(scopes).world(), *expr),
{ unimplemented!() }
pub uninterp spec fn utf8_ok(bytes: Seq<u8>) -> bool;
pub uninterp spec fn utf8_chars(bytes: Seq<u8>) -> Seq<char>;
pub assume_specification [String::from_utf8] (v: Vec<u8>) -> (r: std::result::Result<String, FromUtf8Error>)
    ensures r is Ok <==> utf8_ok(v@), r matches Ok(s) ==> s@ == utf8_chars(v@);

// ---- what the lexer guarantees about the slots of an interpolated literal (unit V-strlit):
// CHARACTER offsets; slot (a, b): `$` at a, `{` at a+1, `}` at b-1; ascending and disjoint
pub open spec fn slots_ok(cs: Seq<char>, slots: Seq<(usize, usize)>) -> bool {
    &&& forall|k: int| 0 <= k < slots.len() ==> (#[trigger] slots[k]).0 + 2 <= slots[k].1 - 1 && slots[k].1 <= cs.len()
    &&& forall|k: int| 0 < k < slots.len() ==> slots[k - 1].1 <= (#[trigger] slots[k]).0
}

// ---- the reading of the property: the value is the concatenation, in order, of the literal pieces
// and the (string) values of the slot expressions, each evaluated once in the current scope
pub open spec fn interp(w: W, cs: Seq<char>, slots: Seq<(usize, usize)>, k: int, last: int, acc: Seq<char>) -> (Option<Seq<char>>, W)
    decreases slots.len() - k
{
    if k < 0 || k >= slots.len() { (Some(acc + cs.subrange(last, cs.len() as int)), w) } else {
        let a = slots[k].0 as int;
        let b = slots[k].1 as int;
        let piece = cs.subrange(last, a);
        match sem_parse(cs.subrange(a + 2, b - 1)) {
            Err(_) => (None, w),
            Ok(e) => {
                let (rv, w1) = sem_expr(w, e);
                match rv {
                    Err(_) => (None, w1),
                    Ok(sv) => match sv.v {
                        Value::Str(bs) => if utf8_ok(bs@) { interp(w1, cs, slots, k + 1, b, acc + piece + utf8_chars(bs@)) } else { (None, w1) },
                        _ => (None, w1),       // a non-string slot value is a reported error
                    },
                }
            },
        }
    }
}
"""

SPEC = r"""
    requires
        slots_ok(s@, interpolation_slots@),    // the lexer's postcondition for this literal (unit V-strlit)
        *loc.1 + s@.len() + 4 <= usize::MAX,   // columns are bounded by the size of the source file
    ensures
        (match r { Ok(t) => Some(t@), Err(_) => None }, final(scopes).world())
            == interp(old(scopes).world(), s@, interpolation_slots@, 0, 0, Seq::empty()), // [C15:an_interpolated_string_is_the_concatenation_in_order_of_its_literal_pieces_and_its_string_slot_values_for_any_unicode_text]
        r matches Err(e) ==> located(e), // [C17:interpolation_errors_are_located]
        // "columns count characters": the error of a slot is reported on the literal's line, at the literal's column plus the
        // CHARACTER offset of the slot in the decoded text (plus the four delimiter characters `$"` and `${`)
        r matches Err(e) ==> (e matches Error::AtLoc{line: l, col: c, ..} && l == *loc.0
            && (exists|k: int| 0 <= k < interpolation_slots@.len() && c == *loc.1 + (#[trigger] interpolation_slots@[k]).0 + 4)), // [C09_C17_C18:an_error_inside_a_slot_is_reported_at_the_slots_character_offset_in_the_literal]
"""


def build(read):
    b = Built()
    err_text, variants = parts.error_text(b, read)
    f = parts.copy_item(b, read, "src/eval/mod.rs", "fn", "interpolate_string")
    sel = parts.selectors_text(b, variants, [f])
    # optional: the char->byte offset table (present after fix cdab...; absent on the pinned code)
    pat = r"s\.char_indices\(\)\s*\.map\(\|\(i, _\)\| i\)\s*\.chain\(std::iter::once\(s\.len\(\)\)\)\s*\.collect\(\)"
    if re.search(pat, f):
        f = extract.rewrite_regex_once(f, pat, "char_byte_offsets(s)", "interpolate_string: byte offset table")
        b.edits.append("D5: interpolate_string: `s.char_indices().map(|(i, _)| i).chain(once(s.len())).collect()` -> `char_byte_offsets(s)` (std contract)")
    def split_range(inner):
        depth = 0
        for i, ch in enumerate(inner):
            if ch in "([":
                depth += 1
            elif ch in ")]":
                depth -= 1
            elif ch == "." and inner[i:i + 2] == ".." and depth == 0:
                return inner[:i].strip(), inner[i + 2:].strip()
        return None
    n = 0
    pos = 0
    while True:
        m = re.search(r"(?<![A-Za-z0-9_])&?s\[", f[pos:])
        if not m:
            break
        start = pos + m.start()
        ob = pos + m.end() - 1
        cb = extract.match_brace(f, ob)
        rng = split_range(f[ob + 1:cb])
        if rng is None:
            pos = cb + 1
            continue
        base = "s"
        end = cb
        while True:
            lo_e, hi_e = rng
            if lo_e and hi_e:
                base = f"str_slice({base}, {lo_e}, {hi_e})"
            elif lo_e:
                base = f"str_from({base}, {lo_e})"
            elif hi_e:
                base = f"str_to({base}, {hi_e})"
            else:
                raise Undecided("interpolate_string: `s[..]` slicing site")
            n += 1
            # a slice of the slice: `&s[a ..][.. n]`
            if f[end + 1:end + 2] == "[":
                cb2 = extract.match_brace(f, end + 1)
                rng = split_range(f[end + 2:cb2])
                if rng is None:
                    break
                end = cb2
                continue
            break
        f = f[:start] + base + f[end + 1:]
        pos = start + len(base)
    if n < 1:
        raise Undecided("interpolate_string: no string slicing site found")
    b.edits.append(f"D5: interpolate_string: {n}x `s[a .. b]` / `s[a ..]` / `s[.. b]` -> `str_slice(s, a, b)` / `str_from(s, a)` / `str_to(s, b)` "
                   "(std contract; the panic condition - bounds not on character boundaries / out of order / out of range - is a checked precondition)")
    f = extract.rewrite_once(f, "result.join(\"\")", "join_all(&result)", "interpolate_string: join")
    b.edits.append("D5: `result.join(\"\")` -> `join_all(&result)` (std contract: concatenation)")
    f = parts.annotate_closure(
        f, "new_loc_err", "source: Error, col: usize", "Result<String>",
        "r == Err::<String, Error>(Error::AtLoc{source: Box::new(source), line: *line, col})", "interpolate_string")
    hdr, body = extract.fn_header_body(f)
    kinds = [k for k, _, _ in extract.find_loops(body)]
    if kinds != ["for"]:
        raise Undecided(f"interpolate_string: expected one for loop, found {kinds}")
    body = desugar_for(body, 1)
    b.edits.append("D5: interpolate_string: `for cur_slot in interpolation_slots` -> Rust's own desugaring")
    loops = {1: {"before": "let ghost w0 = scopes.world();\n    let ghost mut k: int = 0;",
                 "header": """        invariant
            0 <= k <= interpolation_slots@.len(),
            __it.remaining() == interpolation_slots@.map_values(|x: (usize, usize)| &x).subrange(k, interpolation_slots@.len() as int),
            last_slot_end <= s@.len(),
            k > 0 ==> last_slot_end == interpolation_slots@[k - 1].1,
            k == 0 ==> last_slot_end == 0,
            interp(w0, s@, interpolation_slots@, 0, 0, Seq::empty())
                == interp(scopes.world(), s@, interpolation_slots@, k, last_slot_end as int, concat_all(result@, result@.len() as int)),
        ensures
            k == interpolation_slots@.len(),
        decreases interpolation_slots@.len() - k""",
                 "after": "proof { lemma_idx_of(s@, last_slot_end as int); }"}}
    f = extract.annotate_fn(hdr + body, spec=SPEC, attrs="#[verifier::loop_isolation(false)]\n#[verifier::allow_complex_invariants]", loops=loops)
    f = extract.rewrite_once(f, "let cur_slot = match __it.next() { Some(__x) => __x, None => break };\n",
                             "let cur_slot = match __it.next() { Some(__x) => __x, None => break };\n"
                             " let ghost r0 = result@;\n"
                             " proof { k = k + 1;\n"
                             "   let a = cur_slot.0 as int; let bb = cur_slot.1 as int;\n"
                             "   lemma_idx_of(s@, last_slot_end as int); lemma_idx_of(s@, a); lemma_idx_of(s@, a + 2); lemma_idx_of(s@, bb - 1);\n"
                             "   lemma_byte_off_monotone(s@, last_slot_end as int, a); lemma_byte_off_monotone(s@, a + 2, bb - 1); }\n", "interpolate_string: ghost index")
    f = extract.rewrite_once(f, "        last_slot_end = *cur_slot_end;\n",
                             "        proof { lemma_concat_extend(r0, result@); }\n        last_slot_end = *cur_slot_end;\n",
                             "interpolate_string: concatenation bookkeeping hint")
    f = extract.rewrite_regex_once(f, r"(\n)(\s*)(result\.push\(str_from\()", r"\1\2let ghost r1 = result@;\n\2\3", "interpolate_string: tail snapshot")
    f = extract.rewrite_regex_once(f, r"(\n)(\s*)(Ok\(join_all\(&result\)\))", r"\1\2proof { lemma_concat_extend(r1, result@); }\n\2\3", "interpolate_string: tail hint")
    b.text = assemble([
        "// GENERATED on every run by /verif/verus/interp.py from /repo's working tree - do not edit",
        parts.HEADER.replace("use std::collections::HashSet;\n", ""), parts.OPAQUE_CONTEXT, parts.OPAQUE_SCOPES,
        sel, err_text, parts.located_spec(variants), parts.ast_text(b, read), parts.value_items(b, read),
        MODEL,
        "// ---- function under contract (verbatim body; contract text inserted at anchors)",
        f, parts.FOOTER,
    ])
    return b


def replays(failed):
    def exp(out=None, err=None):
        def judge(rc, o, e):
            if rc not in (0, 103):
                return f"interpreter crashed (exit {rc})"
            if out is not None and (rc != 0 or o != out):
                return f"expected stdout {out!r}"
            if err is not None and (rc != 103 or err not in e):
                return f"expected an error containing {err!r}"
            return None
        return judge
    yield ("multi-byte text before a slot", "a := \"x\"\nprint($\"é${a}\")\n", exp("éx\n"))
    yield ("multi-byte text between and after slots", "a := \"x\"\nprint($\"${a}€${a}\U0001F600\")\n", exp("x€x\U0001F600\n"))
    yield ("ascii", "a := \"x\"\nprint($\"p ${a} q\")\n", exp("p x q\n"))
    yield ("non-string slot", "print($\"${1}\")\n", exp(err="1:"))
    yield ("an error inside a slot is reported at the slot's character column", "print($\"naïve ${nmae}\")\n", exp(err="replay.sd:1:17: 1:1: 'nmae' is not defined"))
