"""V-binop: eval::apply_binary_operation (all 15 operators x all operand kinds) and eval::ref_eq
(C16 operator typing matrix; C06 integer arithmetic and comparisons; C11 concatenation;
C10 ==/!= and ===/!== plumbing; C17).

Copied verbatim from /repo/src/eval/mod.rs.  `eq` (the recursive structural comparison) is external
here (uninterpreted result) and under contract in unit V-eq; the std integer primitives carry vstd's
specification, `wrapping_rem` the meaning proved in L-div."""
import os
import re

import extract
import parts
from verus_engine import Built, assemble

NAME = "binop"
RLIMIT = 200
TIMEOUT = 900


def ldiv_specs():
    """spec functions and lemmas of L-div (tdiv/trem and the link to vstd's truncating division)."""
    t = open(os.path.join(os.path.dirname(os.path.abspath(__file__)), "l_div.rs")).read()
    a = t.index("pub open spec fn abs")
    b = t.index("// L-div.3")
    return "// ---- from /verif/verus/l_div.rs (proved there as well)\n" + t[a:b]


MODEL = r"""
pub type StdResult<T, E> = std::result::Result<T, E>;
// D4: format! only builds the optional ` (at <path>)` message suffix: opaque (message TEXT is not under contract)
#[verifier::external_body]
pub fn opaque_format() -> String { unimplemented!() }
macro_rules! format {
    ($($t:tt)*) => { opaque_format() };
}
// D5: `[x, y].concat()` (slice Concat) as its std contract
#[verifier::external_body]
pub fn concat2<T: Clone>(a: Vec<T>, b: Vec<T>) -> (r: Vec<T>)
    ensures r@ == a@ + b@
{ unimplemented!() }
// core::i64::wrapping_rem: panics for a zero divisor; otherwise the truncating remainder (L-div.3)
pub assume_specification [i64::wrapping_rem] (a: i64, b: i64) -> (r: i64)
    requires b != 0,
    ensures r == trem(a as int, b as int);

// structural comparison: external here, under contract in unit V-eq
pub uninterp spec fn sem_eq(l: Value, r: Value) -> StdResult<bool, (String, String, String)>;
#[verifier::external_body]
fn eq(lhs: &Value, rhs: &Value) -> (r: StdResult<bool, (String, String, String)>)
    ensures r == sem_eq(*lhs, *rhs)
{ unimplemented!() }
// identity of two cells (Arc::ptr_eq): uninterpreted under the A-lock model, but symmetric and reflexive
pub uninterp spec fn same_cell<T>(a: Arc<Mutex<T>>, b: Arc<Mutex<T>>) -> bool;
pub mod value {
    use super::*;
    #[verifier::external_body]
    pub fn ref_eq<T>(a: &Arc<Mutex<T>>, b: &Arc<Mutex<T>>) -> (r: bool)
        ensures r == same_cell(*a, *b)
    { unimplemented!() }
}

// =========================================================================================
// The documented operand domains (C16) and results (C06, C10, C11)
// =========================================================================================
pub open spec fn err_at(e: Error, loc: Location) -> bool {
    e matches Error::AtLoc{source, line, col} && line == loc.0 && col == loc.1
}
pub open spec fn inner(e: Error) -> Error {
    match e { Error::AtLoc{source, line, col} => *source, _ => e }
}
pub open spec fn is_arith(op: BinaryOp) -> bool { op is Sub || op is Mul || op is Div || op is Mod }
pub open spec fn is_order(op: BinaryOp) -> bool { op is Gt || op is Gte || op is Lt || op is Lte }
// every operator except == / != (whose domain is decided while descending into the operands)
pub open spec fn in_domain(op: BinaryOp, l: Value, r: Value) -> bool {
    if op is Sum { (l is Int && r is Int) || (l is Str && r is Str) || (l is List && r is List) }
    else if is_arith(op) || is_order(op) { l is Int && r is Int }
    else if op is And || op is Or { l is Bool && r is Bool }
    else if op is RefEq || op is RefNe { (l is List && r is List) || (l is Object && r is Object) || (l is Func && r is Func) }
    else { true }
}
pub open spec fn type_error(res: Result<Value>, op: BinaryOp, loc: Location, l: Value, r: Value) -> bool {
    res matches Err(e) && err_at(e, loc) && inner(e) == (Error::InvalidOpTypes{op, lhs: l, rhs: r})
}
pub open spec fn overflow_error(res: Result<Value>, op: BinaryOp, loc: Location, a: i64, b: i64) -> bool {
    res matches Err(e) && err_at(e, loc) && inner(e) == (Error::IntOverflow{op, lhs: a, rhs: b})
}
pub open spec fn int_result(res: Result<Value>, op: BinaryOp, loc: Location, a: i64, b: i64, exact: int) -> bool {
    if fits_i64(exact) { res == Ok::<Value, Error>(Value::Int(exact as i64)) } else { overflow_error(res, op, loc, a, b) }
}
"""

SPEC = r"""
    ensures
        // ---- C16: out-of-domain operands are a type error naming the operator and both operands in order
        !(op is Eq || op is Ne) && !in_domain(*op, *lhs, *rhs) ==> type_error(r, *op, *op_loc, *lhs, *rhs), // [C16_C18:out_of_domain_operands_are_a_type_error_at_the_operator_naming_the_operator_and_both_operand_types_in_order_at_the_operator]
        !(op is Eq || op is Ne) && in_domain(*op, *lhs, *rhs) ==> !type_error(r, *op, *op_loc, *lhs, *rhs)
            && (r matches Err(e) ==> inner(e) is IntOverflow), // [C16:documented_operand_types_are_accepted]
        // ---- C06: integer arithmetic is exact or an error; comparisons are mathematical
        (lhs matches Value::Int(a) && rhs matches Value::Int(b)) ==> ({
            let a = lhs->Int_0; let b = rhs->Int_0;
            &&& (op is Sum ==> int_result(r, *op, *op_loc, a, b, a + b))
            &&& (op is Sub ==> int_result(r, *op, *op_loc, a, b, a - b))
            &&& (op is Mul ==> int_result(r, *op, *op_loc, a, b, a * b))
            &&& (op is Div ==> (if b == 0 { overflow_error(r, *op, *op_loc, a, b) } else { int_result(r, *op, *op_loc, a, b, tdiv(a as int, b as int)) }))
            &&& (op is Mod ==> (if b == 0 { overflow_error(r, *op, *op_loc, a, b) } else { r == Ok::<Value, Error>(Value::Int(trem(a as int, b as int) as i64)) }))
            &&& (op is Gt ==> r == Ok::<Value, Error>(Value::Bool(a > b)))
            &&& (op is Gte ==> r == Ok::<Value, Error>(Value::Bool(a >= b)))
            &&& (op is Lt ==> r == Ok::<Value, Error>(Value::Bool(a < b)))
            &&& (op is Lte ==> r == Ok::<Value, Error>(Value::Bool(a <= b)))
        }), // [C06_C18:integer_results_are_mathematically_exact_when_they_fit_64_bits_and_otherwise_an_error_at_the_operator_naming_operation_and_operands]
        (lhs matches Value::Bool(a) && rhs matches Value::Bool(b)) ==> ({
            let a = lhs->Bool_0; let b = rhs->Bool_0;
            &&& (op is And ==> r == Ok::<Value, Error>(Value::Bool(a && b)))
            &&& (op is Or ==> r == Ok::<Value, Error>(Value::Bool(a || b)))
        }), // [C16:and_or_on_two_bools]
        // ---- C11: concatenation has the elements of s then t, in a fresh container
        (op is Sum && lhs is Str && rhs is Str) ==> (r matches Ok(v) && (v matches Value::Str(o) && o@ == lhs->Str_0@ + rhs->Str_0@)), // [C11_C15:string_concatenation_is_the_bytes_of_s_then_t]
        (op is Sum && lhs is List && rhs is List) ==> (r matches Ok(v) && (v matches Value::List(o) && o.0.0@ == lhs->List_0.0.0@ + rhs->List_0.0.0@)), // [C11_C14:list_concatenation_is_the_elements_of_s_then_t_each_with_its_provenance]
        // ---- C10: == / != share one structural answer and negate it; a mismatch inside is an error naming both types
        (op is Eq || op is Ne) ==> (match sem_eq(*lhs, *rhs) {
            Ok(v) => r == Ok::<Value, Error>(Value::Bool(if op is Eq { v } else { !v })),
            Err(t) => r matches Err(e) && err_at(e, *op_loc)
                && (inner(e) matches Error::InvalidEqOpTypes{op: o, lhs_type, rhs_type, msg} && o == *op && lhs_type == t.1 && rhs_type == t.2),
        }), // [C10_C16:eq_and_ne_negate_one_structural_answer_and_a_type_mismatch_is_an_error_naming_both_types_in_order]
        // ---- C10: === / !== are identity of the container / function value
        (op is RefEq || op is RefNe) && in_domain(*op, *lhs, *rhs) ==> ({
            let same = match (*lhs, *rhs) {
                (Value::List(a), Value::List(b)) => same_cell(a, b),
                (Value::Object(a), Value::Object(b)) => same_cell(a, b),
                (Value::Func(a), Value::Func(b)) => same_cell(a, b),
                _ => arbitrary(),
            };
            r == Ok::<Value, Error>(Value::Bool(if op is RefEq { same } else { !same }))
        }), // [C10:identity_comparison_is_cell_identity_and_ref_ne_is_its_negation]
        r matches Err(e) ==> located(e), // [C17:operator_errors_are_located_at_the_operator]
"""

SPEC_REFEQ = r"""
    ensures
        r is Some <==> ((lhs is List && rhs is List) || (lhs is Object && rhs is Object) || (lhs is Func && rhs is Func)), // [C10_C16:identity_comparison_is_defined_exactly_for_two_lists_two_objects_or_two_user_functions]
        (lhs matches Value::List(a) && rhs matches Value::List(b)) ==> r == Some(same_cell(lhs->List_0, rhs->List_0)),
        (lhs matches Value::Object(a) && rhs matches Value::Object(b)) ==> r == Some(same_cell(lhs->Object_0, rhs->Object_0)),
        (lhs matches Value::Func(a) && rhs matches Value::Func(b)) ==> r == Some(same_cell(lhs->Func_0, rhs->Func_0)),
"""


def build(read):
    b = Built()
    err_text, variants = parts.error_text(b, read)
    f = parts.copy_item(b, read, "src/eval/mod.rs", "fn", "apply_binary_operation")
    f2 = parts.copy_item(b, read, "src/eval/mod.rs", "fn", "ref_eq")
    sel = parts.selectors_text(b, variants, [f])

    n = len(re.findall(r"\[([^\[\]]+?), ([^\[\]]+?)\]\.concat\(\)", f))
    if n != 2:
        from common import Undecided
        raise Undecided(f"apply_binary_operation: expected 2 `[x, y].concat()` sites, found {n}")
    f = re.sub(r"\[([^\[\]]+?), ([^\[\]]+?)\]\.concat\(\)", r"concat2(\1, \2)", f)
    b.edits.append("D5: apply_binary_operation: 2x `[x, y].concat()` -> `concat2(x, y)` (std slice Concat contract: x then y)")
    f = parts.annotate_closure(
        f, "new_invalid_op_types", "", "Error",
        "r == (Error::AtLoc{source: Box::new(Error::InvalidOpTypes{op: *op, lhs: *lhs, rhs: *rhs}), line: *line, col: *col})",
        "apply_binary_operation", tag="C16:a_type_error_names_the_operator_and_the_operands_lhs_first_at_the_operator_position")
    f = re.sub(r"let new_int_overflow = \|lhs: &i64, rhs: &i64\| \{",
               "let new_int_overflow = |lhs: &i64, rhs: &i64| -> (r: Error)\n        ensures r == (Error::AtLoc{source: Box::new(Error::IntOverflow{op: *op, lhs: *lhs, rhs: *rhs}), line: *line, col: *col}) // [C06:an_overflow_error_names_the_operation_and_the_operands_in_order]\n    {", f, count=1)
    if "ensures r == (Error::AtLoc{source: Box::new(Error::IntOverflow" not in f:
        from common import Undecided
        raise Undecided("apply_binary_operation: closure new_int_overflow not found")
    b.edits.append("annotation: closures `new_invalid_op_types`, `new_int_overflow` given named results and literal postconditions")
    body_start = ("    proof {\n        if lhs is Int && rhs is Int {\n            let a = lhs->Int_0; let b = rhs->Int_0;\n            if b != 0 { lemma_vstd_div_is_trunc(a as int, b as int); lemma_quotient_fits(a as int, b as int); lemma_trunc_laws(a as int, b as int); }\n        }\n    }\n")
    f = extract.annotate_fn(f, spec=SPEC, attrs="#[verifier::exec_allows_no_decreases_clause]\n", body_start=body_start)
    f2 = extract.annotate_fn(f2, spec=SPEC_REFEQ)
    b.edits.append("D4: `format!` opaque; `panic!(\"unexpected operation\")` arms must be proved unreachable by Verus")
    b.text = assemble([
        "// GENERATED on every run by /verif/verus/binop.py from /repo's working tree - do not edit",
        parts.HEADER.replace("use std::collections::HashSet;\n", "").replace("use vstd::prelude::*;", "use vstd::prelude::*;\nuse vstd::arithmetic::div_mod::*;"),
        parts.OPAQUE_SCOPES, parts.OPAQUE_CONTEXT,
        sel, err_text, parts.located_spec(variants), parts.ast_text(b, read),
        parts.value_items(b, read), parts.value_model(True),
        ldiv_specs(),
        MODEL,
        "// ---- functions under contract (verbatim bodies; contract text inserted at anchors)",
        f2, f,
        parts.FOOTER,
    ])
    return b


def replays(failed):
    def exp(out=None, err=None):
        def judge(rc, o, e):
            if rc not in (0, 103):
                return f"interpreter crashed (exit {rc})"
            if out is not None and (rc != 0 or o != out):
                return f"expected stdout {out!r}"
            if err is not None and (rc != 103 or err not in e):
                return f"expected an error containing {err!r}"
            return None
        return judge
    yield ("int + string", "print(1 + \"a\")\n", exp(err="can't apply '+' to 'int' and 'string'"))
    yield ("string + int", "print(\"a\" + 1)\n", exp(err="can't apply '+' to 'string' and 'int'"))
    yield ("&& on ints", "print(1 && 2)\n", exp(err="can't apply '&&' to 'int' and 'int'"))
    yield ("list + list", "for p in [1] + [2, 3] {\n    print(p[1])\n}\n", exp(out="1\n2\n3\n"))
    yield ("string + string", "print(\"ab\" + \"c\")\n", exp(out="abc\n"))
    yield ("=== on ints", "print(1 === 1)\n", exp(err="can't apply '===' to 'int' and 'int'"))
    yield ("< on strings", "print(\"a\" < \"b\")\n", exp(err="can't apply '<'"))
    yield ("7 / -2", "print(7 / (-2))\nprint((-7) % 2)\n", exp(out="-3\n-1\n"))
    MIN = "(-9223372036854775807 - 1)"
    yield ("the smallest integer modulo -1 is 0", f"print({MIN} % (-1))\nx := {MIN}\nx %= -1\nprint(x)\n", exp(out="0\n0\n"))
    yield ("the smallest integer divided by -1 overflows", f"print({MIN} / (-1))\n", exp(err="caused an integer overflow"))
    yield ("division and remainder by zero are errors", "print(1 / 0)\n", exp(err="1:"))
    yield ("remainder by zero is an error", "print(1 % 0)\n", exp(err="1:"))
    yield ("subtraction of the smallest integer", f"print(-1 - {MIN})\nprint({MIN} - {MIN})\n", exp(out="9223372036854775807\n0\n"))
    yield ("addition overflow is an error", "print(9223372036854775807 + 1)\n", exp(err="caused an integer overflow"))
    yield ("multiplication overflow is an error", "print(4611686018427387904 * 2)\n", exp(err="caused an integer overflow"))
    yield ("multiplication at the boundary", f"print({MIN} * 1)\nprint(-1 * 9223372036854775807)\n", exp(out="-9223372036854775808\n-9223372036854775807\n"))
    yield ("comparisons agree with the mathematical order", f"print(1 < 2)\nprint(2 <= 2)\nprint({MIN} < 9223372036854775807)\nprint(3 > 4)\nprint(4 >= 5)\nprint(-1 > {MIN})\n",
           exp(out="true\ntrue\ntrue\nfalse\nfalse\ntrue\n"))
    yield ("equality of ints and its negation", "print(1 == 1)\nprint(1 != 1)\nprint(1 == 2)\nprint(1 != 2)\n", exp(out="true\nfalse\nfalse\ntrue\n"))
    yield ("identity of containers", "a := [1]\nb := a\nc := [1]\nprint(a === b)\nprint(a === c)\nprint(a !== c)\nprint(a !== b)\n", exp(out="true\nfalse\ntrue\nfalse\n"))
    yield ("identity of objects and functions", "o := {}\np := o\nfn f() {\n}\ng := f\nprint(o === p)\nprint(o === {})\nprint(f === g)\nprint(f !== g)\n", exp(out="true\nfalse\ntrue\nfalse\n"))
    yield ("!= is the negation of == on containers", "print([1] != [1])\nprint([1] != [2])\nprint({\"a\": 1} != {\"a\": 1})\n", exp(out="false\ntrue\nfalse\n"))
    yield ("&& and || need two bools, whatever the left one is", "print(false && 1)\n", exp(err="can't apply '&&' to 'bool' and 'int'"))
    yield ("|| needs two bools", "print(true || \"a\")\n", exp(err="can't apply '||' to 'bool' and 'string'"))
    yield ("logical operators", "print(true && false)\nprint(true || false)\nprint(false || false)\n", exp(out="false\ntrue\nfalse\n"))
