"""V-items: eval::eval_list_items (C13 spread expansion in list literals and argument lists;
C14 left-to-right single evaluation of arguments; C16 spread of a non-list; C17).

Copied verbatim from /repo/src/eval/mod.rs with enum Value & co (A-lock model)."""
import extract
import parts
from verus_engine import Built, assemble, desugar_for

NAME = "items"
RLIMIT = 80

MODEL = parts.VALUE_MODEL + r"""
pub uninterp spec fn sem_expr(w: W, e: Expr) -> (Result<SourcedValue>, W);
#[verifier::external_body]
fn eval_expr(context: &EvaluationContext, scopes: &mut ScopeStack, expr: &Expr) -> (r: Result<SourcedValue>)
    ensures (r, final(scopes).world()) == sem_expr(old(scopes).world(), *expr),
            r matches Err(e) ==> located(e),
{ unimplemented!() }

// ---- the reading of the property: items are evaluated once each, left to right; a plain item
// contributes its value, `xs..` contributes the elements of the list xs in order
// (so `[xs.., ys..] == xs + ys` and `f(xs..)` behaves as `f(xs[0], .., xs[n-1])`);
// spreading a non-list is an error
pub open spec fn expand(w: W, items: Seq<ListItem>, i: int, acc: Seq<SourcedValue>) -> (Option<Seq<SourcedValue>>, W)
    decreases items.len() - i
{
    if i < 0 || i >= items.len() { (Some(acc), w) } else {
        let (r, w1) = sem_expr(w, items[i].expr);
        match r {
            Err(_) => (None, w1),
            Ok(v) => if !items[i].is_spread { expand(w1, items, i + 1, acc.push(v)) } else {
                match v.v {
                    Value::List(l) => expand(w1, items, i + 1, acc + l.0.0@),
                    _ => (None, w1),
                }
            },
        }
    }
}
"""

SPEC = r"""
    ensures
        (match r { Ok(v) => Some(v@), Err(_) => None }, final(scopes).world())
            == expand(old(scopes).world(), items@, 0, Seq::empty()), // [C13:items_are_evaluated_once_left_to_right_and_a_spread_contributes_exactly_the_elements_of_its_list_in_order]
        r matches Err(e) ==> located(e), // [C17:list_item_errors_are_located]
"""


def build(read):
    b = Built()
    err_text, variants = parts.error_text(b, read)
    f = parts.copy_item(b, read, "src/eval/mod.rs", "fn", "eval_list_items")
    sel = parts.selectors_text(b, variants, [f])
    hdr, body = extract.fn_header_body(f)
    loops = extract.find_loops(body)
    if [k for k, _, _ in loops] != ["for", "for"]:
        from common import Undecided
        raise Undecided("eval_list_items: expected two for loops")
    body = desugar_for(body, 2, "__iti")
    body = desugar_for(body, 1, "__ito")
    b.edits.append("D5: eval_list_items: both `for` loops -> Rust's own desugaring (the outer one contains `continue`)")
    ann = {
        1: {"before": "let ghost w0 = scopes.world();\n    let ghost mut i: int = 0;",
            "header": """        invariant
            0 <= i <= items@.len(),
            __ito.remaining() == items@.map_values(|s: ListItem| &s).subrange(i, items@.len() as int),
            expand(w0, items@, 0, Seq::empty()) == expand(scopes.world(), items@, i, vals@),
        ensures
            expand(w0, items@, 0, Seq::empty()) == (Some(vals@), scopes.world()),
        decreases items@.len() - i"""},
        2: {"before": "let ghost pre = vals@;\n                let ghost src = lock_deref!(items)@;\n                let ghost mut j: int = 0;",
            "header": """                    invariant
                        0 <= j <= src.len(),
                        __iti.remaining() == src.map_values(|s: SourcedValue| &s).subrange(j, src.len() as int),
                        vals@ == pre + src.subrange(0, j),
                    ensures
                        j == src.len(),
                    decreases src.len() - j""",
            "after": "proof { assert(src.subrange(0, src.len() as int) =~= src); assert(vals@ =~= pre + src); }"},
    }
    f = extract.annotate_fn(hdr + body, spec=SPEC, attrs="#[verifier::exec_allows_no_decreases_clause]\n#[verifier::loop_isolation(false)]\n#[verifier::allow_complex_invariants]", loops=ann)
    f = extract.rewrite_regex_once(f, r"(let \w+ = match __ito\.next\(\) \{ Some\(__x\) => __x, None => break \};\n)",
                                   r"\1 proof { i = i + 1; }\n", "outer ghost index")
    f = extract.rewrite_regex_once(f, r"(let \w+ = match __iti\.next\(\) \{ Some\(__x\) => __x, None => break \};\n)",
                                   r"\1 proof { j = j + 1; }\n", "inner ghost index")
    b.text = assemble([
        "// GENERATED on every run by /verif/verus/items.py from /repo's working tree - do not edit",
        parts.HEADER, parts.OPAQUE_CONTEXT, parts.OPAQUE_SCOPES,
        sel, err_text, parts.located_spec(variants), parts.ast_text(b, read), parts.CLONE_EXPR,
        parts.value_items(b, read),
        MODEL,
        parts.value_ctors(b, read, ["new_val_ref_with_no_source", "new_val_ref_with_source", "new_null", "new_bool", "new_int", "new_str", "new_list"]),
        "// ---- function under contract (verbatim body; contract text inserted at anchors)",
        f,
        parts.FOOTER,
    ])
    return b


def _expect(exp_out=None, err_sub=None):
    def judge(rc, out, err):
        if rc not in (0, 103):
            return f"interpreter crashed (exit {rc})"
        if exp_out is not None and (rc != 0 or out != exp_out):
            return f"expected success with stdout {exp_out!r}"
        if err_sub is not None and (rc != 103 or err_sub not in err):
            return f"expected a reported error containing {err_sub!r}"
        return None
    return judge


def replays(failed):
    yield ("[xs.., ys..] == xs + ys", "xs := [1, 2]\nys := [3]\nprint([xs.., ys..] == (xs + ys))\n", _expect("true\n"))
    yield ("spread keeps order", "xs := [1, 2]\nfor p in [0, xs.., 3] {\n    print(p[1])\n}\n", _expect("0\n1\n2\n3\n"))
    yield ("f(xs..) is f(xs[0], xs[1])", "fn f(a, b) {\n    print(a)\n    print(b)\n}\nxs := [1, 2]\nf(xs..)\n", _expect("1\n2\n"))
    yield ("spread of a non-list", "x := 1\ny := [x..]\n", _expect(err_sub="only lists can be spread"))
    yield ("empty spread", "xs := []\nn := 0\nfor p in [xs.., xs..] {\n    n += 1\n}\nprint(n)\n", _expect("0\n"))
