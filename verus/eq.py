"""V-eq: eval::eq, the recursive structural comparison, and error::render_type (C10; C16 type names).

Copied verbatim from /repo/src/eval/mod.rs and src/eval/error.rs.  The function is verified against the
functional specification `veq` for values of ANY depth and size, and the equivalence laws of the
property (reflexive on function-free values, same answer in both operand orders, != is the negation)
are lemmas over `veq`.  A-lock: locking always succeeds and cells are not shared - the lock
re-entrancy abort of `==` on shared sub-structure (`a := [[]]; [a] == a`) is NOT decided here."""
import re

import extract
import parts
from verus_engine import Built, assemble, desugar_for
from common import Undecided

NAME = "eq"
RLIMIT = 200
TIMEOUT = 900

MODEL = r"""
pub type StdResult<T, E> = std::result::Result<T, E>;
// D4: format! only builds the PATH text of a mismatch: opaque (message text is not under contract)
#[verifier::external_body]
pub fn opaque_format() -> String { unimplemented!() }
macro_rules! format {
    ($($t:tt)*) => { opaque_format() };
}
// identity of two cells (Arc::ptr_eq): uninterpreted under the A-lock model
pub uninterp spec fn same_cell<T>(a: Arc<Mutex<T>>, b: Arc<Mutex<T>>) -> bool;
pub mod value {
    use super::*;
    #[verifier::external_body]
    pub fn ref_eq<T>(a: &Arc<Mutex<T>>, b: &Arc<Mutex<T>>) -> (r: bool)
        ensures r == same_cell(*a, *b)
    { unimplemented!() }
}
// ascending-key iteration of an object (std BTreeMap): ASSUMED contract - every entry exactly once
pub uninterp spec fn entries(m: Map<Seq<char>, SourcedValue>) -> Seq<(Seq<char>, SourcedValue)>;
#[verifier::external_body]
pub broadcast proof fn axiom_entries(m: Object)
    ensures
        #![trigger entries(m@)]
        entries(m@).len() == m@.len(),
        forall|i: int| 0 <= i < entries(m@).len() ==> m@.contains_key(#[trigger] entries(m@)[i].0) && m@[entries(m@)[i].0] == entries(m@)[i].1,
        forall|i: int, j: int| 0 <= i < j < entries(m@).len() ==> entries(m@)[i].0 != entries(m@)[j].0,
        forall|i: int| 0 <= i < entries(m@).len() ==> decreases_to!(m => #[trigger] entries(m@)[i].1),
        forall|k: Seq<char>| #[trigger] m@.contains_key(k) ==> exists|i: int| 0 <= i < entries(m@).len() && #[trigger] entries(m@)[i].0 == k,
        m@.dom().finite(),
{ }
// D5: `for (k, x) in &m` iterates the entries in that order
#[verifier::external_body]
pub fn entries_of(m: &Object) -> (r: Vec<(&String, &SourcedValue)>)
    ensures
        r@.len() == entries(m@).len(),
        forall|i: int| 0 <= i < r@.len() ==> (#[trigger] r@[i]).0@ == entries(m@)[i].0 && *r@[i].1 == entries(m@)[i].1,
{ unimplemented!() }

// =========================================================================================
// The reading of the property: `==` depends only on shape and contents
// =========================================================================================
pub enum Cmp { B(bool), Mismatch(Seq<char>, Seq<char>) }   // a boolean, or the two type names at the first mismatch

pub open spec fn type_name(v: Value) -> Seq<char> {
    match v {
        Value::Null => "null"@,
        Value::Bool(_) => "bool"@,
        Value::Int(_) => "int"@,
        Value::Str(_) => "string"@,
        Value::List(_) => "list"@,
        Value::Object(_) => "object"@,
        Value::BuiltinFunc{..} => "func"@,
        Value::Func(_) => "func"@,
    }
}
pub open spec fn veq(l: Value, r: Value) -> Cmp
    decreases l, 0int, 0int
{
    match (l, r) {
        (Value::Null, Value::Null) => Cmp::B(true),
        (Value::Bool(a), Value::Bool(b)) => Cmp::B(a == b),
        (Value::Int(a), Value::Int(b)) => Cmp::B(a == b),
        (Value::Str(a), Value::Str(b)) => Cmp::B(a@ =~= b@),
        (Value::List(xs), Value::List(ys)) =>
            if same_cell(xs, ys) { Cmp::B(true) }
            else if xs.0.0@.len() != ys.0.0@.len() { Cmp::B(false) }
            else { veq_list(xs.0.0, ys.0.0@, 0) },
        (Value::Object(xs), Value::Object(ys)) =>
            if same_cell(xs, ys) { Cmp::B(true) }
            else if xs.0.0@.len() != ys.0.0@.len() { Cmp::B(false) }
            else { veq_obj(xs.0.0, ys.0.0@, 0) },
        _ => Cmp::Mismatch(type_name(l), type_name(r)),      // differently-typed values, or two functions
    }
}
pub open spec fn veq_list(xs: Vec<SourcedValue>, ys: Seq<SourcedValue>, i: int) -> Cmp
    decreases xs, 1int, xs@.len() - i
{
    if i < 0 || i >= xs@.len() || i >= ys.len() { Cmp::B(true) }
    else {
        match veq(xs@[i].v, ys[i].v) {
            Cmp::B(true) => veq_list(xs, ys, i + 1),
            other => other,
        }
    }
}
pub open spec fn veq_obj(xo: Object, ym: Map<Seq<char>, SourcedValue>, i: int) -> Cmp
    decreases xo, 1int, entries(xo@).len() - i
    via veq_obj_decreases
{
    if i < 0 || i >= entries(xo@).len() { Cmp::B(true) }
    else if !ym.contains_key(entries(xo@)[i].0) { Cmp::B(false) }
    else {
        match veq(entries(xo@)[i].1.v, ym[entries(xo@)[i].0].v) {
            Cmp::B(true) => veq_obj(xo, ym, i + 1),
            other => other,
        }
    }
}
#[via_fn]
proof fn veq_obj_decreases(xo: Object, ym: Map<Seq<char>, SourcedValue>, i: int) {
    broadcast use axiom_entries;
}
pub open spec fn cmp_of(r: StdResult<bool, (String, String, String)>) -> Cmp {
    match r { Ok(b) => Cmp::B(b), Err(t) => Cmp::Mismatch(t.1@, t.2@) }
}
"""

LAWS = r"""
// =========================================================================================
// Laws of the property as lemmas over `veq` (any depth, any size)
// =========================================================================================
// identity is an equivalence on cells (std Arc::ptr_eq): assumed
pub open spec fn identity_ok() -> bool {
    &&& (forall|a: ListRef, b: ListRef| #[trigger] same_cell(a, b) == same_cell(b, a))
    &&& (forall|a: ObjectRef, b: ObjectRef| #[trigger] same_cell(a, b) == same_cell(b, a))
    // one cell has one content
    &&& (forall|a: ListRef, b: ListRef| #[trigger] same_cell(a, b) ==> a == b)
    &&& (forall|a: ObjectRef, b: ObjectRef| #[trigger] same_cell(a, b) ==> a == b)
}
// `a === b` implies `a == b` for data: the identity short-cut answers true
pub proof fn lemma_identity_implies_equality(a: Value, b: Value)
    ensures
        (a matches Value::List(x) && b matches Value::List(y) && same_cell(a->List_0, b->List_0)) ==> veq(a, b) == Cmp::B(true),
        (a matches Value::Object(x) && b matches Value::Object(y) && same_cell(a->Object_0, b->Object_0)) ==> veq(a, b) == Cmp::B(true),
{
}
// a value compared with an unrelated value of another kind, or two functions, is never a silent boolean
pub proof fn lemma_mismatch_is_an_error(l: Value, r: Value)
    requires !((l is Null && r is Null) || (l is Bool && r is Bool) || (l is Int && r is Int) || (l is Str && r is Str)
               || (l is List && r is List) || (l is Object && r is Object)),
    ensures veq(l, r) == Cmp::Mismatch(type_name(l), type_name(r)),
{
}
// scalars: == is mathematical equality of the payload (hence reflexive, symmetric, transitive)
pub proof fn lemma_scalar_equality(l: Value, r: Value)
    ensures
        (l matches Value::Int(a) && r matches Value::Int(b)) ==> veq(l, r) == Cmp::B(l->Int_0 == r->Int_0),
        (l matches Value::Bool(a) && r matches Value::Bool(b)) ==> veq(l, r) == Cmp::B(l->Bool_0 == r->Bool_0),
        (l matches Value::Str(a) && r matches Value::Str(b)) ==> veq(l, r) == Cmp::B(l->Str_0@ =~= r->Str_0@),
        (l is Null && r is Null) ==> veq(l, r) == Cmp::B(true),
{
}
// lists: equal length and pairwise == elements, in order (for lists that are not the same cell)
pub proof fn lemma_list_pointwise(xs: Vec<SourcedValue>, ys: Seq<SourcedValue>, i: int)
    requires 0 <= i <= xs@.len(), xs@.len() == ys.len(),
    ensures
        veq_list(xs, ys, i) == Cmp::B(true) <==> (forall|j: int| i <= j < xs@.len() ==> #[trigger] veq(xs@[j].v, ys[j].v) == Cmp::B(true)),
    decreases xs@.len() - i
{
    if i < xs@.len() {
        lemma_list_pointwise(xs, ys, i + 1);
        match veq(xs@[i].v, ys[i].v) {
            Cmp::B(true) => {
                assert forall|j: int| i <= j < xs@.len() && veq_list(xs, ys, i + 1) == Cmp::B(true) implies #[trigger] veq(xs@[j].v, ys[j].v) == Cmp::B(true) by {
                    if j > i { }
                }
            },
            _ => {},
        }
    }
}
// ---- reflexivity on function-free values (any depth)
pub open spec fn function_free(v: Value) -> bool
    decreases v, 0int, 0int
{
    match v {
        Value::List(xs) => ff_list(xs.0.0, 0),
        Value::Object(xo) => ff_obj(xo.0.0, 0),
        Value::BuiltinFunc{..} => false,
        Value::Func(_) => false,
        _ => true,
    }
}
pub open spec fn ff_list(xs: Vec<SourcedValue>, i: int) -> bool
    decreases xs, 1int, xs@.len() - i
{
    if i < 0 || i >= xs@.len() { true } else { function_free(xs@[i].v) && ff_list(xs, i + 1) }
}
pub open spec fn ff_obj(xo: Object, i: int) -> bool
    decreases xo, 1int, entries(xo@).len() - i
    via ff_obj_decreases
{
    if i < 0 || i >= entries(xo@).len() { true } else { function_free(entries(xo@)[i].1.v) && ff_obj(xo, i + 1) }
}
#[via_fn]
proof fn ff_obj_decreases(xo: Object, i: int) { broadcast use axiom_entries; }

pub proof fn lemma_reflexive(v: Value)
    requires function_free(v),
    ensures veq(v, v) == Cmp::B(true),
    decreases v, 0int, 0int
{
    match v {
        Value::List(xs) => { lemma_reflexive_list(xs.0.0, 0); },
        Value::Object(xo) => { lemma_reflexive_obj(xo.0.0, 0); },
        _ => {},
    }
}
proof fn lemma_reflexive_list(xs: Vec<SourcedValue>, i: int)
    requires ff_list(xs, i), 0 <= i,
    ensures veq_list(xs, xs@, i) == Cmp::B(true),
    decreases xs, 1int, xs@.len() - i
{
    if i < xs@.len() {
        lemma_reflexive(xs@[i].v);
        lemma_reflexive_list(xs, i + 1);
    }
}
proof fn lemma_reflexive_obj(xo: Object, i: int)
    requires ff_obj(xo, i), 0 <= i,
    ensures veq_obj(xo, xo@, i) == Cmp::B(true),
    decreases xo, 1int, entries(xo@).len() - i
{
    broadcast use axiom_entries;
    if i < entries(xo@).len() {
        lemma_reflexive(entries(xo@)[i].1.v);
        lemma_reflexive_obj(xo, i + 1);
    }
}


// ---- the two operand orders never give different booleans (any depth)
pub proof fn lemma_obj_pointwise(xo: Object, ym: Map<Seq<char>, SourcedValue>, i: int)
    requires 0 <= i <= entries(xo@).len(),
    ensures
        veq_obj(xo, ym, i) == Cmp::B(true) <==> (forall|j: int| i <= j < entries(xo@).len() ==>
            ym.contains_key(#[trigger] entries(xo@)[j].0) && veq(entries(xo@)[j].1.v, ym[entries(xo@)[j].0].v) == Cmp::B(true)),
    decreases entries(xo@).len() - i
{
    if i < entries(xo@).len() {
        lemma_obj_pointwise(xo, ym, i + 1);
    }
}
pub proof fn lemma_true_symmetric(a: Value, b: Value)
    requires identity_ok(), veq(a, b) == Cmp::B(true),
    ensures veq(b, a) == Cmp::B(true),
    decreases a, 0int, 0int
{
    match (a, b) {
        (Value::List(xs), Value::List(ys)) => {
            if !same_cell(xs, ys) {
                lemma_list_pointwise(xs.0.0, ys.0.0@, 0);
                assert forall|j: int| 0 <= j < ys.0.0@.len() implies #[trigger] veq(ys.0.0@[j].v, xs.0.0@[j].v) == Cmp::B(true) by {
                    lemma_true_symmetric(xs.0.0@[j].v, ys.0.0@[j].v);
                }
                lemma_list_pointwise(ys.0.0, xs.0.0@, 0);
            }
        },
        (Value::Object(xs), Value::Object(ys)) => {
            if !same_cell(xs, ys) {
                broadcast use axiom_entries;
                let xo = xs.0.0; let yo = ys.0.0;
                lemma_obj_pointwise(xo, yo@, 0);
                // every key of xo is a key of yo, and the sizes agree: the key sets are equal
                assert(xo@.dom().subset_of(yo@.dom())) by {
                    assert forall|k: Seq<char>| xo@.dom().contains(k) implies yo@.dom().contains(k) by {
                        let i = choose|i: int| 0 <= i < entries(xo@).len() && #[trigger] entries(xo@)[i].0 == k;
                    }
                }
                vstd::set_lib::lemma_subset_equality(xo@.dom(), yo@.dom());
                assert forall|j: int| 0 <= j < entries(yo@).len() implies
                    xo@.contains_key(#[trigger] entries(yo@)[j].0) && veq(entries(yo@)[j].1.v, xo@[entries(yo@)[j].0].v) == Cmp::B(true) by {
                    let k = entries(yo@)[j].0;
                    assert(yo@.contains_key(k));
                    assert(xo@.dom().contains(k));
                    let i = choose|i: int| 0 <= i < entries(xo@).len() && #[trigger] entries(xo@)[i].0 == k;
                    lemma_true_symmetric(entries(xo@)[i].1.v, yo@[k].v);
                }
                lemma_obj_pointwise(yo, xo@, 0);
            }
        },
        _ => {},
    }
}
// "never gives different booleans for the two operand orders"
pub proof fn lemma_same_boolean_in_both_orders(a: Value, b: Value)
    requires identity_ok(), veq(a, b) is B, veq(b, a) is B,
    ensures veq(a, b) == veq(b, a),
{
    if veq(a, b) == Cmp::B(true) { lemma_true_symmetric(a, b); }
    if veq(b, a) == Cmp::B(true) { lemma_true_symmetric(b, a); }
}


// ---- transitivity (any depth)
pub proof fn lemma_transitive(a: Value, b: Value, c: Value)
    requires identity_ok(), veq(a, b) == Cmp::B(true), veq(b, c) == Cmp::B(true),
    ensures veq(a, c) == Cmp::B(true),
    decreases a, 0int, 0int
{
    match (a, b, c) {
        (Value::List(xs), Value::List(ys), Value::List(zs)) => {
            if same_cell(xs, ys) { assert(a == b); }
            else if same_cell(ys, zs) { assert(b == c); }
            else if !same_cell(xs, zs) {
                lemma_list_pointwise(xs.0.0, ys.0.0@, 0);
                lemma_list_pointwise(ys.0.0, zs.0.0@, 0);
                assert forall|j: int| 0 <= j < xs.0.0@.len() implies #[trigger] veq(xs.0.0@[j].v, zs.0.0@[j].v) == Cmp::B(true) by {
                    lemma_transitive(xs.0.0@[j].v, ys.0.0@[j].v, zs.0.0@[j].v);
                }
                lemma_list_pointwise(xs.0.0, zs.0.0@, 0);
            }
        },
        (Value::Object(xs), Value::Object(ys), Value::Object(zs)) => {
            if same_cell(xs, ys) { assert(a == b); }
            else if same_cell(ys, zs) { assert(b == c); }
            else if !same_cell(xs, zs) {
                broadcast use axiom_entries;
                let xo = xs.0.0; let yo = ys.0.0; let zo = zs.0.0;
                lemma_obj_pointwise(xo, yo@, 0);
                lemma_obj_pointwise(yo, zo@, 0);
                assert forall|j: int| 0 <= j < entries(xo@).len() implies
                    zo@.contains_key(#[trigger] entries(xo@)[j].0) && veq(entries(xo@)[j].1.v, zo@[entries(xo@)[j].0].v) == Cmp::B(true) by {
                    let k = entries(xo@)[j].0;
                    assert(yo@.contains_key(k));
                    let i = choose|i: int| 0 <= i < entries(yo@).len() && #[trigger] entries(yo@)[i].0 == k;
                    assert(zo@.contains_key(entries(yo@)[i].0));
                    lemma_transitive(entries(xo@)[j].1.v, yo@[k].v, zo@[k].v);
                }
                lemma_obj_pointwise(xo, zo@, 0);
            }
        },
        _ => {},
    }
}

"""

SPEC = r"""
    ensures
        cmp_of(r) == veq(*lhs, *rhs), // [C10_C16_C19:structural_equality_depends_only_on_shape_and_contents_and_a_type_mismatch_inside_is_an_error_naming_both_types_in_operand_order]
"""
OP_TEXT = r"""
// the source symbol of every binary operator (the property's operator list)
pub open spec fn op_text(op: BinaryOp) -> Seq<char> {
    match op {
        BinaryOp::Sum => "+"@, BinaryOp::Sub => "-"@, BinaryOp::Mul => "*"@, BinaryOp::Div => "/"@, BinaryOp::Mod => "%"@,
        BinaryOp::And => "&&"@, BinaryOp::Or => "||"@,
        BinaryOp::Eq => "=="@, BinaryOp::Ne => "!="@, BinaryOp::Gt => ">"@, BinaryOp::Gte => ">="@, BinaryOp::Lt => "<"@, BinaryOp::Lte => "<="@,
        BinaryOp::RefEq => "==="@, BinaryOp::RefNe => "!=="@,
    }
}
"""
SPEC_OP = r"""
    ensures r@ == op_text(*op), // [C06_C16:a_diagnostic_names_the_operator_by_its_source_symbol]
"""
SPEC_RT = r"""
    ensures r@ == type_name(*v), // [C16:type_names_in_diagnostics_are_the_documented_ones]
"""


def desugar_enumerate_expr(fn_text, label):
    """D5: `for (i, x) in EXPR.iter().enumerate() { B }` -> index loop over EXPR (no `continue` in B)."""
    m = re.search(r"for \((\w+), (\w+)\) in (.+?)\.iter\(\)\.enumerate\(\) \{", fn_text)
    if not m or len(re.findall(r"\.iter\(\)\.enumerate\(\)", fn_text)) != 1:
        raise Undecided(f"{label}: enumerate loop not found exactly once")
    i, v, x = m.group(1), m.group(2), m.group(3)
    brace = m.end() - 1
    close = extract.match_brace(fn_text, brace)
    body = fn_text[brace + 1:close]
    if re.search(r"\bcontinue\b", body):
        if re.search(r"\b(for|while|loop)\b", body):
            raise Undecided(f"{label}: loop body contains `continue` and a nested loop")
        # `continue` in the `for` skips to the next index: in the index loop the increment has to come first
        body = re.sub(r"\bcontinue\s*;", "{ " + i + " += 1; continue; }", body)
    new = (f"let mut {i}: usize = 0;\n            while {i} < {x}.len() {{\n                let {v} = &{x}[{i}];"
           + body + f"    {i} += 1;\n            }}")
    return fn_text[:m.start()] + new + fn_text[close + 1:]


def build(read):
    b = Built()
    f = parts.copy_item(b, read, "src/eval/mod.rs", "fn", "eq")
    rt = parts.copy_item(b, read, "src/eval/error.rs", "fn", "render_type")
    refeq = parts.copy_item(b, read, "src/eval/mod.rs", "fn", "ref_eq")      # (`===`'s helper: under contract in V-binop; here so that a use inside `eq` is seen)
    refeq = extract.annotate_fn(refeq, spec="""
    ensures
        (lhs matches Value::List(a) && rhs matches Value::List(b)) ==> r == Some(same_cell(lhs->List_0, rhs->List_0)),
        (lhs matches Value::Object(a) && rhs matches Value::Object(b)) ==> r == Some(same_cell(lhs->Object_0, rhs->Object_0)),
        !((lhs is List && rhs is List) || (lhs is Object && rhs is Object) || (lhs is Func && rhs is Func)) ==> r is None,
""")
    ops = parts.copy_item(b, read, "src/eval/error.rs", "fn", "op_symbol")
    ops = extract.annotate_fn(ops, spec=SPEC_OP)

    f = desugar_enumerate_expr(f, "eq")
    b.edits.append("D5: eq: `for (i, x) in lock_deref!(xs).iter().enumerate()` -> index loop")
    f = extract.rewrite_once(f, "for (k, x) in &lock_deref!(xs) {", "for (k, x) in entries_of(&lock_deref!(xs)) {", "eq: object iteration")
    b.edits.append("D5: eq: `for (k, x) in &lock_deref!(xs)` (BTreeMap iteration) -> `for (k, x) in entries_of(&lock_deref!(xs))` "
                   "(assumed std contract: every entry exactly once, ascending keys)")
    hdr, body = extract.fn_header_body(f)
    kinds = [k for k, _, _ in extract.find_loops(body)]
    if kinds != ["while", "for"]:
        raise Undecided(f"eq: expected loops [while(list), for(object)], found {kinds}")
    body = desugar_for(body, 2, "__ite")
    loops = {
        1: {"header": """                invariant
                    i <= lock_deref!(xs)@.len(),
                    lock_deref!(xs)@.len() == lock_deref!(ys)@.len(),
                    veq_list(lock_deref!(xs), lock_deref!(ys)@, 0) == veq_list(lock_deref!(xs), lock_deref!(ys)@, i as int), // [C10_C16_C19:every_pair_of_elements_is_compared_in_order_and_the_first_difference_or_mismatch_decides]
                decreases lock_deref!(xs)@.len() - i"""},
        2: {"before": "let ghost es = entries_of_spec(lock_deref!(xs));\n            let ghost mut gi: int = 0;",
            "header": """                invariant
                    0 <= gi <= entries(lock_deref!(xs)@).len(),
                    __ite.remaining().len() == entries(lock_deref!(xs)@).len() - gi,
                    forall|j: int| 0 <= j < __ite.remaining().len() ==> (#[trigger] __ite.remaining()[j]).0@ == entries(lock_deref!(xs)@)[gi + j].0
                        && *__ite.remaining()[j].1 == entries(lock_deref!(xs)@)[gi + j].1,
                    veq_obj(lock_deref!(xs), lock_deref!(ys)@, 0) == veq_obj(lock_deref!(xs), lock_deref!(ys)@, gi), // [C10_C16_C19:every_property_is_looked_up_by_key_in_the_other_object_and_compared]
                ensures
                    gi == entries(lock_deref!(xs)@).len(),
                decreases entries(lock_deref!(xs)@).len() - gi"""},
    }
    f = extract.annotate_fn(hdr + body, spec=SPEC, attrs="#[verifier::exec_allows_no_decreases_clause]\n#[verifier::loop_isolation(false)]\n#[verifier::allow_complex_invariants]", loops=loops,
                            body_start="    broadcast use vstd::std_specs::vec::group_vec_axioms;\n")
    f = f.replace("let ghost es = entries_of_spec(lock_deref!(xs));\n", "")
    f = extract.rewrite_once(f, "let (k, x) = match __ite.next() { Some(__x) => __x, None => break };\n",
                             "let (k, x) = match __ite.next() { Some(__x) => __x, None => break };\n proof { gi = gi + 1; }\n", "eq: ghost index")
    rt = extract.annotate_fn(rt, spec=SPEC_RT)
    b.edits.append("D4: `format!` opaque (path text); Arc/Mutex transparent, BTreeMap finite-map contract (A-lock)")

    b.text = assemble([
        "// GENERATED on every run by /verif/verus/eq.py from /repo's working tree - do not edit",
        parts.HEADER.replace("use std::collections::HashSet;\n", "").replace("pub type Result<T> = std::result::Result<T, Error>;", ""),
        parts.OPAQUE_SCOPES,
        parts.ast_text(b, read), parts.value_items(b, read), parts.value_model(True),
        MODEL,
        OP_TEXT,
        "pub mod error {\n    use super::*;\n// ---- verbatim from src/eval/error.rs\n" + rt + "\n" + ops + "\n}",
        "// ---- function under contract (verbatim body; contract text inserted at anchors)",
        refeq, f,
        LAWS,
        parts.FOOTER,
    ])
    return b


def replays(failed):
    def exp(out=None, err=None):
        def judge(rc, o, e):
            if rc not in (0, 103):
                return f"interpreter crashed (exit {rc})"
            if out is not None and (rc != 0 or o != out):
                return f"expected stdout {out!r}"
            if err is not None and (rc != 103 or err not in e):
                return f"expected an error containing {err!r}"
            return None
        return judge
    yield ("nested lists", "print([[1, 2], [3]] == [[1, 2], [3]])\nprint([[1, 2], [3]] == [[1, 2], [4]])\n", exp("true\nfalse\n"))
    yield ("objects regardless of insertion order", "a := {\"x\": 1, \"y\": 2}\nb := {\"y\": 2, \"x\": 1}\nprint(a == b)\nprint(b == a)\n", exp("true\ntrue\n"))
    yield ("same size different keys", "print({\"a\": 1} == {\"b\": 1})\nprint({\"b\": 1} == {\"a\": 1})\n", exp("false\nfalse\n"))
    yield ("type mismatch inside names both types", "print([1] == [\"a\"])\n", exp(err="'int' and 'string'"))
    yield ("type mismatch other order", "print([\"a\"] == [1])\n", exp(err="'string' and 'int'"))
    yield ("!= is the negation", "print([1, 2] != [1, 2])\nprint([1, 2] != [1, 3])\n", exp("false\ntrue\n"))
    yield ("different lengths", "print([1] == [1, 2])\n", exp("false\n"))
    yield ("a type error names the operator by its symbol", "print([] !== 1)\n", exp(err="can't apply '!==' to 'list' and 'int'"))
    yield ("a type error names the operator by its symbol (===)", "print(1 === 1)\n", exp(err="can't apply '===' to 'int' and 'int'"))
    yield ("an earlier element decides", "print([1, 2] == [3, 2])\nprint([1, 2] != [3, 2])\nprint([[1, 2], 5] == [[3, 2], 5])\n", exp("false\ntrue\nfalse\n"))
    yield ("null against a non-null value inside is an error", "print([1, {\"a\": 2}] == [1, {\"a\": null}])\n", exp(err="'int' and 'null'"))
    yield ("null on the left is an error too", "print(null == 1)\n", exp(err="'null' and 'int'"))
    yield ("same length, same values, different keys", "print({\"k\": 1} == {\"K\": 1})\nprint({\"a\": {\"x\": 1}} == {\"a\": {\"y\": 1}})\n", exp("false\nfalse\n"))
    yield ("an alias equals a copy", "a := [1, [2]]\nb := a\nprint(a == b)\nprint(a == [1, [2]])\no := {\"k\": a}\nprint(o == {\"k\": [1, [2]]})\n", exp("true\ntrue\ntrue\n"))
    yield ("two functions are never compared silently", "fn f() {\n}\nprint(f == f)\n", exp(err="'func' and 'func'"))
    yield ("type names", "print(1->type())\nprint(\"a\"->type())\nprint([]->type())\nprint({}->type())\nprint(null == null)\n", exp("int\nstring\nlist\nobject\ntrue\n"))
