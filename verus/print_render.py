"""V-print: builtins::fns::{render, print, assert_args, assert_no_this} (C19: `print(v)` writes a
rendering that is a function of the structure of `v` only; values that are `==` print identically).

Copied verbatim from /repo/src/builtins/fns.rs.  `render` is verified against the functional
specification `rendered` (taken from the property statement) for values of ANY depth and size; the
law "equal values print identically" is a lemma over `rendered` and the `veq` of the eq unit.
A-lock: locking always succeeds, cells are not shared (a cyclic value is not representable)."""
import re

import extract
import parts
import eq as eq_unit
from verus_engine import Built, assemble, desugar_for
from common import Undecided

NAME = "print_render"
RLIMIT = 200
TIMEOUT = 900

MODEL = r"""
global size_of usize == 8;   // 64-bit target
// ---- std::fmt (ASSUMED contracts): Display of bool / i64 / usize / String / &str, Debug of Option<String>
pub uninterp spec fn shown_i64(n: i64) -> Seq<char>;          // decimal text of n
pub uninterp spec fn shown_usize(n: usize) -> Seq<char>;
pub uninterp spec fn shown_utf8_error(e: FromUtf8Error) -> Seq<char>;
pub uninterp spec fn debug_opt_string(n: Option<String>) -> Seq<char>;
pub open spec fn shown_bool(b: bool) -> Seq<char> { if b { "true"@ } else { "false"@ } }
pub trait Disp { spec fn shown(&self) -> Seq<char>; }
impl Disp for bool { open spec fn shown(&self) -> Seq<char> { shown_bool(*self) } }
impl Disp for i64 { open spec fn shown(&self) -> Seq<char> { shown_i64(*self) } }
impl Disp for usize { open spec fn shown(&self) -> Seq<char> { shown_usize(*self) } }
impl Disp for String { open spec fn shown(&self) -> Seq<char> { self@ } }
impl Disp for &str { open spec fn shown(&self) -> Seq<char> { self@ } }
impl Disp for FromUtf8Error { open spec fn shown(&self) -> Seq<char> { shown_utf8_error(*self) } }
impl<T: Disp> Disp for &T { open spec fn shown(&self) -> Seq<char> { (**self).shown() } }
pub trait Dbg { spec fn debugged(&self) -> Seq<char>; }
impl Dbg for Option<String> { open spec fn debugged(&self) -> Seq<char> { debug_opt_string(*self) } }
pub uninterp spec fn debug_string(s: Seq<char>) -> Seq<char>;    // the quoted, ESCAPED form: not the raw text
impl Dbg for String { open spec fn debugged(&self) -> Seq<char> { debug_string(self@) } }
impl Dbg for &str { open spec fn debugged(&self) -> Seq<char> { debug_string(self@) } }
impl Dbg for bool { open spec fn debugged(&self) -> Seq<char> { shown_bool(*self) } }
impl Dbg for i64 { open spec fn debugged(&self) -> Seq<char> { shown_i64(*self) } }
impl<T: Dbg> Dbg for &T { open spec fn debugged(&self) -> Seq<char> { (**self).debugged() } }
// D6: `format!("lit{a}lit")` is expanded, piece by piece, into fmt_cat(fmt_lit("lit"), fmt_disp(&a)) ...
#[verifier::external_body]
pub fn fmt_lit(s: &str) -> (r: String) ensures r@ == s@ { unimplemented!() }
#[verifier::external_body]
pub fn fmt_disp<T: Disp>(x: &T) -> (r: String) ensures r@ == x.shown() { unimplemented!() }
#[verifier::external_body]
pub fn fmt_dbg<T: Dbg>(x: &T) -> (r: String) ensures r@ == x.debugged() { unimplemented!() }
#[verifier::external_body]
pub fn fmt_cat(a: String, b: String) -> (r: String) ensures r@ == a@ + b@ { unimplemented!() }
// D6: `s += x` on a String (std AddAssign<&str>: appends)
pub trait StrLike { spec fn text(&self) -> Seq<char>; }
impl StrLike for &str { open spec fn text(&self) -> Seq<char> { self@ } }
impl StrLike for &String { open spec fn text(&self) -> Seq<char> { self@ } }
#[verifier::external_body]
pub fn add_str<T: StrLike>(s: &mut String, x: T) ensures final(s)@ == old(s)@ + x.text() { unimplemented!() }
// std String::from_utf8 (ASSUMED contract): succeeds exactly on valid UTF-8, with the decoded text
pub uninterp spec fn utf8_decode(b: Seq<u8>) -> Option<Seq<char>>;
pub uninterp spec fn string_bytes(s: Seq<char>) -> Seq<u8>;
#[verifier::external_body]
pub fn string_from_utf8(v: Vec<u8>) -> (r: std::result::Result<String, FromUtf8Error>)
    ensures (match r { Ok(p) => utf8_decode(v@) == Some(p@), Err(_) => utf8_decode(v@) is None })
{ unimplemented!() }
// std String::from_utf8_lossy (ASSUMED contract): the decoded text when the bytes are valid UTF-8, otherwise text with U+FFFD substitutions
pub uninterp spec fn lossy_text(b: Seq<u8>) -> Seq<char>;
#[verifier::external_body]
pub fn string_from_utf8_lossy(v: &Vec<u8>) -> (r: String)
    ensures r@ == (match utf8_decode(v@) { Some(t) => t, None => lossy_text(v@) })
{ unimplemented!() }
#[verifier::external_body]
pub fn str_to_string(s: &str) -> (r: String) ensures r@ == s@ { unimplemented!() }
// std str::replace(char, &str) (ASSUMED contract): every occurrence of the character replaced, left to right
pub open spec fn replaced(s: Seq<char>, c: char, t: Seq<char>) -> Seq<char>
    decreases s.len()
{
    if s.len() == 0 { s } else { (if s[0] == c { t } else { seq![s[0]] }) + replaced(s.skip(1), c, t) }
}
#[verifier::external_body]
pub fn str_replace(s: &String, c: char, t: &str) -> (r: String) ensures r@ == replaced(s@, c, t@) { unimplemented!() }
// std println! (ASSUMED): writes the text and one newline to stdout
#[verifier::external_body]
pub fn std_println(out: &mut Ghost<Seq<char>>, s: String) ensures final(out)@ == old(out)@ + s@ + "\n"@ { unimplemented!() }
// std print! (ASSUMED): writes the text to stdout
#[verifier::external_body]
pub fn std_print(out: &mut Ghost<Seq<char>>, s: String) ensures final(out)@ == old(out)@ + s@ { unimplemented!() }
#[verifier::external_body]
pub fn string_is_empty(s: &String) -> (r: bool) ensures r == (s@.len() == 0) { unimplemented!() }
pub open spec fn with_newline(t: Option<Seq<char>>) -> Option<Seq<char>> { match t { Some(x) => Some(x + "\n"@), None => None } }

// =========================================================================================
// The reading of the property: the rendering is a function of the structure of the value
// =========================================================================================
pub open spec fn indent(t: Seq<char>) -> Seq<char> { replaced(t, '\n', "\n    "@) }
// None: some string inside is not valid UTF-8 (a reported error)
pub open spec fn rendered(v: Value) -> Option<Seq<char>>
    decreases v, 0int, 0int
{
    match v {
        Value::Null => Some("<null>"@),
        Value::Bool(b) => Some(shown_bool(b)),
        Value::Int(n) => Some(shown_i64(n)),
        Value::Str(s) => utf8_decode(s@),
        Value::List(xs) => match items_upto(xs.0.0, xs.0.0@.len() as int) {
            Some(body) => Some("[\n"@ + body + "]"@),
            None => None,
        },
        Value::Object(xo) => match props_upto(xo.0.0, entries(xo.0.0@).len() as int) {
            Some(body) => Some("{\n"@ + body + "}"@),
            None => None,
        },
        Value::BuiltinFunc{name, ..} => Some("<built-in function '"@ + name@ + "'>"@),
        Value::Func(f) => Some("<function '"@ + debug_opt_string(f.0.0.name) + "'>"@),
    }
}
// one `    item,` line per element, nested renderings re-indented by four spaces
pub open spec fn items_upto(xs: Vec<SourcedValue>, n: int) -> Option<Seq<char>>
    decreases xs, 1int, n
{
    if n <= 0 || n > xs@.len() { Some(Seq::empty()) }
    else {
        match (items_upto(xs, n - 1), rendered(xs@[n - 1].v)) {
            (Some(p), Some(t)) => Some(p + ("    "@ + indent(t) + ",\n"@)),
            _ => None,
        }
    }
}
// one `    "key": value,` line per property, in ascending key order
pub open spec fn props_upto(xo: Object, n: int) -> Option<Seq<char>>
    decreases xo, 1int, n
    via props_upto_decreases
{
    if n <= 0 || n > entries(xo@).len() { Some(Seq::empty()) }
    else {
        match (props_upto(xo, n - 1), rendered(entries(xo@)[n - 1].1.v)) {
            (Some(p), Some(t)) => Some(p + ("    \""@ + entries(xo@)[n - 1].0 + "\": "@ + indent(t) + ",\n"@)),
            _ => None,
        }
    }
}
#[via_fn]
proof fn props_upto_decreases(xo: Object, n: int) { broadcast use axiom_entries; }

pub proof fn lemma_items_none_stays_none(xs: Vec<SourcedValue>, i: int, j: int)
    requires 0 <= i <= j <= xs@.len(), items_upto(xs, i) is None,
    ensures items_upto(xs, j) is None,
    decreases j - i
{
    if i < j { lemma_items_none_stays_none(xs, i, j - 1); }
}
pub proof fn lemma_props_none_stays_none(xo: Object, i: int, j: int)
    requires 0 <= i <= j <= entries(xo@).len(), props_upto(xo, i) is None,
    ensures props_upto(xo, j) is None,
    decreases j - i
{
    if i < j { lemma_props_none_stays_none(xo, i, j - 1); }
}
"""

# The alias `Object` is copied from the repository; both std maps it could name have a shadow.  Only the
# ordered map's iteration is a function of its contents: over a hash map the order is unconstrained.
MAP_SHADOWS = r"""
#[verifier::external_body]
#[verifier::reject_recursive_types(K)]
#[verifier::accept_recursive_types(V)]
pub struct HashMap<K, V> { _p: core::marker::PhantomData<(K, V)> }
impl HashMap<String, SourcedValue> {
    pub uninterp spec fn view(&self) -> Map<Seq<char>, SourcedValue>;
}
pub trait EntriesOf: Sized {
    spec fn listed(&self, r: Seq<(&String, &SourcedValue)>) -> bool;
}
impl EntriesOf for BTreeMap<String, SourcedValue> {
    // std BTreeMap iteration (ASSUMED): the entries in ascending key order, each once
    open spec fn listed(&self, r: Seq<(&String, &SourcedValue)>) -> bool {
        r.len() == entries(self@).len()
        && forall|i: int| 0 <= i < r.len() ==> (#[trigger] r[i]).0@ == entries(self@)[i].0 && *r[i].1 == entries(self@)[i].1
    }
}
impl EntriesOf for HashMap<String, SourcedValue> {
    // std HashMap iteration: every entry once, in an order that is NOT a function of the contents
    open spec fn listed(&self, r: Seq<(&String, &SourcedValue)>) -> bool {
        r.len() == self@.len()
        && forall|i: int| 0 <= i < r.len() ==> self@.contains_key((#[trigger] r[i]).0@) && *r[i].1 == self@[r[i].0@]
    }
}
#[verifier::external_body]
pub fn entries_of<M: EntriesOf>(m: &M) -> (r: Vec<(&String, &SourcedValue)>)
    ensures m.listed(r@)
{ unimplemented!() }
"""

LAWS = r"""
// =========================================================================================
// "values that are == print identically regardless of aliasing or construction order"
// ASSUMED (std BTreeMap): the iteration order of an object is a function of its key set
// =========================================================================================
pub uninterp spec fn keys_in_order(d: Set<Seq<char>>) -> Seq<Seq<char>>;
pub open spec fn order_is_canonical() -> bool {
    forall|m: Map<Seq<char>, SourcedValue>, i: int| 0 <= i < entries(m).len() ==> (#[trigger] entries(m)[i]).0 == keys_in_order(m.dom())[i]
}
pub proof fn lemma_equal_values_print_identically(a: Value, b: Value)
    requires identity_ok(), order_is_canonical(), veq(a, b) == Cmp::B(true),
    ensures rendered(a) == rendered(b),
    decreases a, 0int, 0int
{
    match (a, b) {
        (Value::Str(x), Value::Str(y)) => { assert(x@ =~= y@); },
        (Value::List(xs), Value::List(ys)) => {
            if same_cell(xs, ys) { assert(a == b); } else {
                lemma_list_pointwise(xs.0.0, ys.0.0@, 0);
                lemma_items_equal(xs.0.0, ys.0.0, xs.0.0@.len() as int);
            }
        },
        (Value::Object(xs), Value::Object(ys)) => {
            if same_cell(xs, ys) { assert(a == b); } else {
                broadcast use axiom_entries;
                let xo = xs.0.0; let yo = ys.0.0;
                lemma_obj_pointwise(xo, yo@, 0);
                assert(xo@.dom().subset_of(yo@.dom())) by {
                    assert forall|k: Seq<char>| xo@.dom().contains(k) implies yo@.dom().contains(k) by {
                        let i = choose|i: int| 0 <= i < entries(xo@).len() && #[trigger] entries(xo@)[i].0 == k;
                    }
                }
                vstd::set_lib::lemma_subset_equality(xo@.dom(), yo@.dom());
                assert(xo@.dom() == yo@.dom());
                lemma_props_equal(xo, yo, entries(xo@).len() as int);
            }
        },
        _ => {},
    }
}
proof fn lemma_items_equal(xs: Vec<SourcedValue>, ys: Vec<SourcedValue>, n: int)
    requires identity_ok(), order_is_canonical(), xs@.len() == ys@.len(), 0 <= n <= xs@.len(),
        forall|j: int| 0 <= j < xs@.len() ==> #[trigger] veq(xs@[j].v, ys@[j].v) == Cmp::B(true),
    ensures items_upto(xs, n) == items_upto(ys, n),
    decreases xs, 1int, n
{
    if n > 0 {
        lemma_items_equal(xs, ys, n - 1);
        assert(veq(xs@[n - 1].v, ys@[n - 1].v) == Cmp::B(true));
        lemma_equal_values_print_identically(xs@[n - 1].v, ys@[n - 1].v);
    }
}
proof fn lemma_props_equal(xo: Object, yo: Object, n: int)
    requires identity_ok(), order_is_canonical(), xo@.dom() == yo@.dom(), 0 <= n <= entries(xo@).len(),
        forall|j: int| 0 <= j < entries(xo@).len() ==>
            yo@.contains_key(#[trigger] entries(xo@)[j].0) && veq(entries(xo@)[j].1.v, yo@[entries(xo@)[j].0].v) == Cmp::B(true),
    ensures props_upto(xo, n) == props_upto(yo, n),
    decreases xo, 1int, n
{
    broadcast use axiom_entries;
    assert(entries(xo@).len() == entries(yo@).len());
    if n > 0 {
        lemma_props_equal(xo, yo, n - 1);
        let k = entries(xo@)[n - 1].0;
        assert(entries(yo@)[n - 1].0 == k);
        assert(yo@[k] == entries(yo@)[n - 1].1);
        lemma_equal_values_print_identically(entries(xo@)[n - 1].1.v, entries(yo@)[n - 1].1.v);
    }
}
"""

SPEC_RENDER = r"""
    ensures
        (match r { Ok(s) => Some(s@), Err(_) => None }) == rendered(v.v), // [C19:the_rendering_is_the_canonical_function_of_the_structure_of_the_value]
        r matches Err(e) ==> e is BuiltinFuncErr, // [C19:the_only_rendering_failure_is_the_reported_invalid_utf8_error]
    decreases v
"""
SPEC_PRINT = r"""
    ensures
        r matches Ok(x) ==> x == (SourcedValue{v: Value::Null, source: None}) && args@.len() == 1 && this is None
            && rendered(args@[0].v) is Some, // [C19:print_takes_one_argument_and_returns_null]
"""
SPEC_ASSERT_ARGS = r"""
    ensures r is Ok <==> args@.len() == exp_args, // [C19:argument_count_is_checked]
"""
SPEC_ASSERT_NO_THIS = r"""
    ensures r is Ok <==> this is None, // [C19:print_is_not_a_method]
"""


def rust_unescape(lit, label):
    """Text of a Rust (non-raw) string literal body -> the string it denotes."""
    out = []
    i = 0
    while i < len(lit):
        c = lit[i]
        if c != "\\":
            out.append(c)
            i += 1
            continue
        n = lit[i + 1]
        if n == "n":
            out.append("\n")
        elif n == "t":
            out.append("\t")
        elif n == "r":
            out.append("\r")
        elif n in "\\\"'":
            out.append(n)
        elif n == "\n":
            i += 2
            while i < len(lit) and lit[i] in " \t\n\r":
                i += 1
            continue
        else:
            raise Undecided(f"{label}: unsupported escape \\{n} in a format string")
        i += 2
    return "".join(out)


def rust_escape(s):
    return s.replace("\\", "\\\\").replace("\"", "\\\"").replace("\n", "\\n").replace("\t", "\\t").replace("\r", "\\r")


def expand_format_string(lit, label, args=()):
    """`format!`: pieces of text and `{ident}` / `{ident:?}` / positional `{}` / `{:?}` holes."""
    s = rust_unescape(lit, label)
    args = list(args)
    pieces = []
    cur = ""
    i = 0
    while i < len(s):
        if s.startswith("{{", i):
            cur += "{"
            i += 2
        elif s.startswith("}}", i):
            cur += "}"
            i += 2
        elif s[i] == "{":
            j = s.index("}", i)
            hole = s[i + 1:j]
            m = re.fullmatch(r"([A-Za-z_][A-Za-z0-9_]*)?(:\?)?", hole)
            if not m:
                raise Undecided(f"{label}: unsupported format hole {{{hole}}}")
            if cur:
                pieces.append(f'fmt_lit("{rust_escape(cur)}")')
                cur = ""
            if m.group(1):
                arg = m.group(1)
            else:
                if not args:
                    raise Undecided(f"{label}: more positional holes than arguments in a format string")
                arg = "(" + args.pop(0) + ")"
            pieces.append(f"fmt_dbg(&{arg})" if m.group(2) else f"fmt_disp(&{arg})")
            i = j + 1
        elif s[i] == "}":
            raise Undecided(f"{label}: stray }} in a format string")
        else:
            cur += s[i]
            i += 1
    if args:
        raise Undecided(f"{label}: more arguments than positional holes in a format string")
    if cur or not pieces:
        pieces.append(f'fmt_lit("{rust_escape(cur)}")')
    e = pieces[0]
    for p in pieces[1:]:
        e = f"fmt_cat({e}, {p})"
    return e


def split_top_level_commas(text):
    out, depth, cur, i = [], 0, "", 0
    in_str = False
    while i < len(text):
        c = text[i]
        if in_str:
            cur += c
            if c == "\\":
                cur += text[i + 1]
                i += 1
            elif c == '"':
                in_str = False
        elif c == '"':
            in_str = True
            cur += c
        elif c in "([{":
            depth += 1
            cur += c
        elif c in ")]}":
            depth -= 1
            cur += c
        elif c == "," and depth == 0:
            out.append(cur.strip())
            cur = ""
        else:
            cur += c
        i += 1
    if cur.strip():
        out.append(cur.strip())
    return out


def expand_format_macros(text, label, names=("format",)):
    """D6: every `format!("..", args)` (one string literal, inline or positional arguments) -> fmt_cat / fmt_lit / fmt_disp chain;
    `println!` / `print!` / `eprintln!` -> std_println(..) / std_print(..) / std_eprintln(..)."""
    n = 0
    for name in names:
        while True:
            m = re.search(r"(?<![A-Za-z0-9_])" + name + r"!\(\s*\"", text)
            if not m:
                break
            op = text.index("(", m.start())
            cp = extract.match_brace(text, op)
            q = m.end() - 1
            k = q + 1
            while text[k] != '"':
                k += 2 if text[k] == "\\" else 1
            rest = text[k + 1:cp].strip()
            args = []
            if rest:
                if not rest.startswith(","):
                    raise Undecided(f"{label}: `{name}!` invocation has an unexpected shape")
                args = split_top_level_commas(rest[1:])
            e = expand_format_string(text[q + 1:k], label, args)
            if name in ("println", "print", "eprintln"):
                e = f"std_{name}({e})"
            text = text[:m.start()] + e + text[cp + 1:]
            n += 1
    return text, n


def build(read):
    b = Built()
    err_text, variants = parts.error_text(b, read)
    rel = "src/builtins/fns.rs"
    f = parts.copy_item(b, read, rel, "fn", "render")
    pr = parts.copy_item(b, read, rel, "fn", "print")
    aa = parts.copy_item(b, read, rel, "fn", "assert_args")
    ant = parts.copy_item(b, read, rel, "fn", "assert_no_this")
    sel = parts.selectors_text(b, variants, [pr])

    total = 0
    out = []
    for t, lab in ((f, "render"), (pr, "print"), (aa, "assert_args"), (ant, "assert_no_this")):
        t, n = expand_format_macros(t, lab, ("format", "println", "print"))
        total += n
        t, k = re.subn(r"(?m)^(\s*)(\w+) \+= ([^;]+);", r"\1add_str(&mut \2, \3);", t) if lab == "render" else (t, 0)
        if lab == "render" and k == 0:
            raise Undecided("render: no `s += ..` statement found")
        out.append(t)
    f, pr, aa, ant = out
    b.edits.append(f"D6: {total} `format!`/`println!` invocations expanded by std::fmt's documented meaning into fmt_lit / fmt_disp / fmt_dbg / fmt_cat "
                   "(assumed Display/Debug contracts); `s += x` -> add_str(&mut s, x) (assumed String AddAssign contract)")
    f, k_u = re.subn(r"String::from_utf8\(", "string_from_utf8(", f)
    f, k_l = re.subn(r"String::from_utf8_lossy\(", "string_from_utf8_lossy(", f)
    f, k = re.subn(r"\b(\w+)\.replace\(('[^']+'), (\"[^\"]*\")\)", r"str_replace(&\1, \2, \3)", f)
    if k != len(re.findall(r"\.replace\(", parts.copy_item(Built(), read, rel, "fn", "render"))):
        raise Undecided("render: a `.replace(..)` call has an unexpected shape")
    f, k_res = re.subn(r"\bOk\((\w+)\.to_string\(\)\)", r"Ok(\1.clone())", f)     # (`to_string` on a String: blanket impl without a spec)
    f, k_ts = re.subn(r"(\"(?:[^\"\\\\]|\\\\.)*\")\.to_string\(\)", r"str_to_string(\1)", f)
    b.edits.append(f"D6: {k_u}x String::from_utf8 -> string_from_utf8, {k_l}x String::from_utf8_lossy -> string_from_utf8_lossy, X.replace(c, t) -> str_replace(&X, c, t), "
                   f"{k_ts}x `\"..\".to_string()` -> str_to_string(..) (assumed std contracts); `s.to_string()` -> `s.clone()`")
    f = extract.rewrite_once(f, "for (name, prop) in &lock_deref!(props) {", "for (name, prop) in entries_of(&lock_deref!(props)) {", "render: object iteration")
    b.edits.append("D5: render: `for (name, prop) in &lock_deref!(props)` (BTreeMap iteration) -> `entries_of(..)` (assumed std contract: every entry once, ascending keys)")
    hdr, body = extract.fn_header_body(f)
    kinds = [k for k, _, _ in extract.find_loops(body)]
    if kinds != ["for", "for"]:
        raise Undecided(f"render: expected loops [for(list), for(object)], found {kinds}")
    body = desugar_for(body, 2, "__ito")
    body = desugar_for(body, 1, "__itl")
    b.edits.append("D5: render: both `for` loops -> Rust's own desugaring")
    loops = {
        1: {"before": "let ghost src = lock_deref!(items);\n            let ghost mut gi: int = 0;",
            "header": """                invariant
                    0 <= gi <= src@.len(),
                    __itl.remaining() == src@.map_values(|x: SourcedValue| &x).subrange(gi, src@.len() as int),
                    items_upto(src, gi) is Some,
                    s@ == "[\\n"@ + items_upto(src, gi).unwrap(), // [C19:a_list_is_rendered_one_indented_item_line_per_element_in_order]
                ensures
                    gi == src@.len(),
                decreases src@.len() - gi"""},
        2: {"before": "let ghost osrc = lock_deref!(props);\n            let ghost mut gj: int = 0;",
            "header": """                invariant
                    0 <= gj <= entries(osrc@).len(),
                    __ito.remaining().len() == entries(osrc@).len() - gj, // [C19:every_property_is_rendered_once]
                    forall|j: int| 0 <= j < __ito.remaining().len() ==> (#[trigger] __ito.remaining()[j]).0@ == entries(osrc@)[gj + j].0 && *__ito.remaining()[j].1 == entries(osrc@)[gj + j].1, // [C12_C19:object_properties_are_visited_in_an_order_that_depends_only_on_the_contents]
                    props_upto(osrc, gj) is Some,
                    s@ == "{\\n"@ + props_upto(osrc, gj).unwrap(), // [C12_C19:an_object_is_rendered_one_indented_key_value_line_per_property_in_ascending_key_order]
                ensures
                    gj == entries(osrc@).len(),
                decreases entries(osrc@).len() - gj"""},
    }
    f = extract.annotate_fn(hdr + body, spec=SPEC_RENDER, attrs="#[verifier::loop_isolation(false)]\n#[verifier::allow_complex_invariants]", loops=loops,
                            body_start="    broadcast use vstd::std_specs::vec::group_vec_axioms;\n    broadcast use axiom_entries;\n")
    f = extract.rewrite_once(f, "let item = match __itl.next() { Some(__x) => __x, None => break };\n",
                             "let item = match __itl.next() { Some(__x) => __x, None => break };\n proof { gi = gi + 1; assert(*item == src@[gi - 1]); assert(items_upto(src, gi) is None <==> rendered(item.v) is None); if rendered(item.v) is None { lemma_items_none_stays_none(src, gi, src@.len() as int); } }\n", "render: ghost index (list)")
    f = extract.rewrite_once(f, "let (name, prop) = match __ito.next() { Some(__x) => __x, None => break };\n",
                             "let (name, prop) = match __ito.next() { Some(__x) => __x, None => break };\n proof { gj = gj + 1; assert(*prop == entries(osrc@)[gj - 1].1); assert(props_upto(osrc, gj) is None <==> rendered(prop.v) is None); if rendered(prop.v) is None { lemma_props_none_stays_none(osrc, gj, entries(osrc@).len() as int); } }\n", "render: ghost index (object)")
    pr, k_ie = re.subn(r"\b(\w+)\.is_empty\(\)", r"string_is_empty(&\1)", pr)      # (in `print` only Strings have simple names)
    pr, k_out = re.subn(r"std_(println|print)\(", r"std_\1(&mut out, ", pr)
    if k_out < 1:
        raise Undecided("print: no `println!` / `print!` found")
    hdr_p, body_p = extract.fn_header_body(pr)
    last_semi = max(off for off, c in extract.code_positions(body_p) if c == ";" and body_p[:off].count("{") - body_p[:off].count("}") == 1)
    body_p = ("{\n    let mut out: Ghost<Seq<char>> = Ghost(Seq::empty());" + body_p[1:last_semi + 1]
              + "\n    assert(Some(out@) == with_newline(rendered(args@[0].v))); // [C19:print_writes_exactly_the_rendering_of_its_argument_followed_by_one_newline]"
              + body_p[last_semi + 1:])
    pr = hdr_p + body_p
    b.edits.append("D7: print: `println!(x)` / `print!(x)` append to a ghost output log (declared at the top of the body); where the function ends normally the log is asserted to be the rendering of the argument and one newline")
    pr = extract.annotate_fn(pr, spec=SPEC_PRINT)
    aa = extract.annotate_fn(aa, spec=SPEC_ASSERT_ARGS)
    ant = extract.annotate_fn(ant, spec=SPEC_ASSERT_NO_THIS)
    known = ["new_null", "new_bool", "new_int", "new_str", "new_list", "new_object", "new_str_from_string"]
    used = sorted(set(re.findall(r"\bvalue::(new_\w+)\(", f + pr + aa + ant)))
    for n in used:
        if n not in known:
            raise Undecided(f"print_render: constructor value::{n} has no contract in parts.value_ctors")
    ctors = ["new_val_ref_with_no_source"] + used
    eq_model = eq_unit.MODEL
    m = re.search(r"pub mod value \{.*?\n\}\n", eq_model, re.S)
    eq_model = eq_model[:m.start()] + eq_model[m.end():]      # eq's `value::ref_eq` is not called here
    m = re.search(r"// D5: `for \(k, x\) in &m` iterates.*?\n\{ unimplemented!\(\) \}\n", eq_model, re.S)
    eq_model = eq_model[:m.start()] + MAP_SHADOWS + eq_model[m.end():]
    alias = parts.copy_item(b, read, "src/eval/value.rs", "type", "Object")
    vm = parts.value_model(True)
    if vm.count("pub type Object = BTreeMap<String, SourcedValue>;") != 1:
        raise Undecided("value model: Object alias anchor lost")
    vm = vm.replace("pub type Object = BTreeMap<String, SourcedValue>;", "// ---- verbatim from src/eval/value.rs\n" + alias)
    b.text = assemble([
        "// GENERATED on every run by /verif/verus/print_render.py from /repo's working tree - do not edit",
        parts.HEADER.replace("use std::collections::HashSet;\n", ""), parts.OPAQUE_SCOPES,
        sel, err_text, parts.ast_text(b, read), parts.value_items(b, read), vm,
        eq_model.replace("macro_rules! format {\n    ($($t:tt)*) => { opaque_format() };\n}\n", ""),
        MODEL,
        parts.value_ctors(b, read, ctors),
        "// ---- functions under contract (verbatim bodies; contract text inserted at anchors)",
        aa, ant, f, pr,
        "// ---- laws of ==, from the eq unit (proved there against eval::eq; re-proved here)",
        eq_unit.LAWS, LAWS, parts.FOOTER,
    ])
    return b


def replays(failed):
    def exp(out=None, err=None):
        def judge(rc, o, e):
            if rc not in (0, 103):
                return f"interpreter crashed (exit {rc})"
            if out is not None and (rc != 0 or o != out):
                return f"expected stdout {out!r}"
            if err is not None and (rc != 103 or err not in e):
                return f"expected an error containing {err!r}"
            return None
        return judge
    yield ("scalars", "print(null)\nprint(true)\nprint(-12)\nprint(\"a b\")\n", exp("<null>\ntrue\n-12\na b\n"))
    yield ("nested list, four spaces per level", "print([1, [2, [3]], []])\n",
           exp("[\n    1,\n    [\n        2,\n        [\n            3,\n        ],\n    ],\n    [\n    ],\n]\n"))
    yield ("object in ascending key order whatever the construction order",
           "a := {\"b\": 1, \"a\": [2]}\nb := {\"a\": [2]}\nb[\"b\"] = 1\nprint(a)\nprint(b)\n",
           exp("{\n    \"a\": [\n        2,\n    ],\n    \"b\": 1,\n}\n" * 2))
    yield ("string with a newline inside a list is re-indented", "print([\"x\\ny\"])\n", exp("[\n    x\n    y,\n]\n"))
    yield ("print returns null", "print(print(1))\n", exp("1\n<null>\n"))
    yield ("print takes one argument", "print(1, 2)\n", exp(err="only takes 1 argument"))
    yield ("the empty string still prints its newline", "print(\"\")\nprint(\"a\")\n", exp("\na\n"))
    yield ("an empty object is rendered on two lines", "print({})\nprint([{}])\n", exp("{\n}\n[\n    {\n    },\n]\n"))
    yield ("a byte string that is not UTF-8 cannot be printed", "print(\"é\"[0])\n", exp(err="UTF-8"))
