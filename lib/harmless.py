#!/usr/bin/env python3
"""False-alarm test: run every Verus unit (all labels) and the given checks against a behaviour-preserving change.

usage: harmless.py <lane> <name> <patch.diff> [--checks C03,C09]
The patch is applied to a pristine copy of /repo's HEAD; result -> /verif/harmless/<name>.json
A unit result `failed` is a FALSE ALARM (the change preserves behaviour); `undecided` is tolerated (exit 2)."""
import json, os, subprocess, sys
VERIF = os.path.dirname(os.path.dirname(os.path.abspath(__file__)))
lane, name, patch = sys.argv[1], sys.argv[2], sys.argv[3]
checks = sys.argv[sys.argv.index("--checks") + 1].split(",") if "--checks" in sys.argv else []
target = f"/var/tmp/lane-{lane}/repo"
os.makedirs(target, exist_ok=True)
subprocess.run(f"find {target} -mindepth 1 -maxdepth 1 ! -name target -exec rm -rf {{}} + ; git -C /repo archive HEAD | tar -x -C {target}", shell=True, check=True)
r = subprocess.run(["git", "apply", patch], cwd=target, capture_output=True, text=True)
if r.returncode != 0:
    print(name, "patch does not apply", r.stderr[:200]); sys.exit(2)
os.environ["SEED_REPO"] = target
os.environ["SEED_VERIF_SCRATCH"] = f"/var/tmp/lane-{lane}/scratch"
os.environ.setdefault("SEED_VERIF_JOBS", "6")
sys.path.insert(0, os.path.join(VERIF, "lib")); sys.path.insert(0, os.path.join(VERIF, "verus"))
import props, verus_engine
from common import Undecided
out = {"name": name, "patch": open(patch).read(), "verus_units": {}, "checks": {}}
for u in props.ALL_V:
    try:
        ur = verus_engine.run_unit(u, "quick")
        out["verus_units"][u.name] = {"status": ur["status"], "failed": [f["obligation"] for f in ur.get("failed", [])], "why": (ur.get("why") or "")[:300]}
    except Undecided as e:
        out["verus_units"][u.name] = {"status": "undecided", "failed": [], "why": str(e)[:300]}
for c in checks:
    p = subprocess.run([os.path.join(VERIF, "check"), c, "--tier", "quick"], cwd=VERIF, capture_output=True, text=True, env=dict(os.environ))
    out["checks"][c] = {"exit": p.returncode, "lines": [l[:300] for l in p.stdout.splitlines() if l.startswith(("VIOLATION", "OK"))][:5],
                        "undecided": [l[:300] for l in p.stderr.splitlines() if l.startswith("UNDECIDED")][:3]}
json.dump(out, open(os.path.join(VERIF, "harmless", name + ".json"), "w"), indent=1)
fa = [u for u, v in out["verus_units"].items() if v["status"] == "failed"] + [c for c, v in out["checks"].items() if v["exit"] == 1]
und = [u for u, v in out["verus_units"].items() if v["status"] == "undecided"] + [c for c, v in out["checks"].items() if v["exit"] == 2]
print(name, "FALSE-ALARM" if fa else "quiet", "failed=" + ",".join(fa), "undecided=" + ",".join(und))
