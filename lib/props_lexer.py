"""Registry of the lexer / scanner Kani units (properties C18, C09, C03) with counterexample replays.

UNITS      : {"C18": [KUnit...], "C09": [...], "C03": [...]}
GENERATORS : scripts to run before building (they (re)write generated harness files under /verif/kani)

Replays: `replay(values)` gets the decoded kani::any() values of a failed harness and returns
(seed script text, judge(rc, stdout, stderr) -> reason-or-None); the script is run on the real
interpreter binary.  A replay raises ValueError when the counterexample cannot be expressed as a
script (the driver reports "replay template not applicable")."""
import os
import re
import subprocess
import sys

from kani_engine import KUnit

HERE = os.path.dirname(os.path.abspath(__file__))
KANI_DIR = os.path.join(os.path.dirname(HERE), "kani")
GEN_LAYOUT = os.path.join(KANI_DIR, "gen_layout.py")

GENERATORS = [GEN_LAYOUT]

SCANNER = "src/lexer/scanner.rs"
LEXER = "src/lexer/mod.rs"


def run_generators():
    for g in GENERATORS:
        subprocess.run([sys.executable, g], check=True, stdout=subprocess.DEVNULL)


# ---------------------------------------------------------------------------
# true position model (independent of the scanner): line from 1, column = chars since the last
# newline, every char counts one
# ---------------------------------------------------------------------------
def true_pos(text, offset):
    line, col = 1, 0
    for ch in text[:offset + 1]:
        if ch == "\n":
            line += 1
            col = 0
        else:
            col += 1
    return line, col


def _is_char(c):
    return isinstance(c, str) and len(c) == 1 and not (0xD800 <= ord(c) <= 0xDFFF)


def _expect_unexpected(text, offset):
    """Judge: the interpreter must reject `text` with `unexpected '<char at offset>'` at its true position."""
    line, col = true_pos(text, offset)
    ch = text[offset]
    want = f":{line}:{col}: unexpected '{ch}'"

    def judge(rc, out, err):
        if rc != 103:
            return f"expected a lexical error (exit 103) at {line}:{col}, got exit {rc}"
        if out != "":
            return "stdout not empty although the file has a lexical error"
        if want not in err:
            return f"expected `{want}` in the diagnostic (true line/column of the offending character)"
        return None
    return judge


def _expect_output(expected):
    def judge(rc, out, err):
        if rc != 0:
            return f"expected the script to run and print {expected!r}, got exit {rc}"
        if out.strip().split("\n") != expected.split("\n"):
            return f"expected output {expected!r}"
        return None
    return judge


def _expect_rejected():
    def judge(rc, out, err):
        if rc != 103:
            return f"expected a syntax error (exit 103): a terminator here ends the statement; got exit {rc}"
        if out != "":
            return "stdout not empty although the file has a syntax error"
        return None
    return judge


# ---------------------------------------------------------------------------
# C18 scanner
# ---------------------------------------------------------------------------
def _replay_new_base(v):
    c = v.get("c")
    if not _is_char(c):
        raise ValueError("first char is not a scalar value")
    if c == "\n":
        text = "\n&"
        return text, _expect_unexpected(text, 1)
    if c in " \t\r\x0c":
        text = c + "&"
        return text, _expect_unexpected(text, 1)
    if c.isascii() and (c.isalnum() or c in "_\"$#;}{][:,/.=><%*)(-+"):
        raise ValueError("first char starts a token; no single-diagnostic script")
    text = c
    return text, _expect_unexpected(text, 0)


def _replay_step(v):
    c0, c1 = v.get("c0"), v.get("c1")
    if not (_is_char(c0) and _is_char(c1)):
        raise ValueError("chars are not scalar values")
    for c in (c0, c1):
        if c in '"\\$':
            raise ValueError("char needs an escape inside a string literal")
    # the two chars sit inside a string literal in front of an offending `&`; the (line, col) state
    # of the counterexample is replaced by the state the scanner really has at that point
    text = 'x := "' + c0 + c1 + '"; &'
    # second script: a word and a number cut out of the source with Scanner::range right after the two chars
    text2 = 'x := "' + c0 + c1 + '"; zz9 := 1_2; print(zz9)\n'

    def judge2(rc, out, err):
        if rc not in (0, 103):
            return f"interpreter crashed (exit {rc}) while scanning after multi-byte text"
        if rc != 0 or out != "12\n":
            return "a word / number after the two characters was not scanned as written (expected stdout '12')"
        return None
    return [(text, _expect_unexpected(text, len(text) - 1)), (text2, judge2)]


def _replay_range(v):
    cs = [v.get("c0"), v.get("c1"), v.get("c2")]
    if not all(_is_char(c) for c in cs):
        raise ValueError("chars are not scalar values")
    if any(c in '"\\$' for c in cs):
        raise ValueError("char needs an escape inside a string literal")
    s = "".join(cs)
    # the identifier after the string is cut out with Scanner::range; a crash (exit 101) is the failure
    text = 'print("' + s + '")\n'

    def judge(rc, out, err):
        if rc not in (0, 103):
            return f"interpreter crashed (exit {rc}) while scanning multi-byte text"
        if rc == 0 and out != s + "\n":
            return "string literal text was not printed back unchanged"
        return None
    text2 = 'x := "' + s + '"; zz9 := 1_2; print(zz9)\n'

    def judge2(rc, out, err):
        if rc not in (0, 103):
            return f"interpreter crashed (exit {rc}) while scanning after multi-byte text"
        if rc != 0 or out != "12\n":
            return "a word / number after the three characters was not scanned as written (expected stdout '12')"
        return None
    return [(text, judge), (text2, judge2)]


C18_UNITS = [
    KUnit("c18_scanner_new_base", "scanner_step", SCANNER, ["lexer::scanner::Scanner::new", "Scanner::peek_char", "Scanner::loc"],
          inputs=[("c", "char"), ("d", "char")], replay=_replay_new_base,
          note="base case of the position induction: any first char (1-4 bytes), alone or followed by any char, and the empty text"),
    KUnit("c18_next_char_step", "scanner_step", SCANNER, ["lexer::scanner::Scanner::next_char", "Scanner::peek_char", "Scanner::loc"],
          inputs=[("c0", "char"), ("c1", "char"), ("line", "usize"), ("col", "usize")], replay=_replay_step,
          note="one-step contract for ANY state (line, col) < usize::MAX and ANY two chars; induction over steps is lemma L-pos"),
]

C03_SCANNER_UNITS = [
    KUnit("c03_scanner_range_in_bounds", "scanner_step", SCANNER, ["lexer::scanner::Scanner::next_char", "Scanner::range"],
          kind="bounded", bound="text = exactly 3 arbitrary chars (1-4 bytes each) then end of input; for longer texts the "
                                 "char-boundary invariant rests on the one-step contract c18_next_char_step plus std CharIndices",
          inputs=[("c0", "char"), ("c1", "char"), ("c2", "char")], replay=_replay_range,
          note="index is a char boundary <= len after every step over three arbitrary chars; range() between indices never panics"),
]


# ---------------------------------------------------------------------------
# C09 continuation rule: one generated harness per Token constructor
# ---------------------------------------------------------------------------
def _layout_table():
    sys.path.insert(0, KANI_DIR)
    try:
        import gen_layout
    finally:
        sys.path.pop(0)
    return gen_layout.units()


# token -> function(T, v) giving a statement with terminator text T right after the token; v = variable name.
_CONT_STMT = {
    "Sum": lambda T, v: f"print(1 +{T}2)",
    "Sub": lambda T, v: f"print(5 -{T}2)",
    "Mul": lambda T, v: f"print(2 *{T}3)",
    "Div": lambda T, v: f"print(6 /{T}2)",
    "Mod": lambda T, v: f"print(7 %{T}4)",
    "EqualsEquals": lambda T, v: f"print(1 =={T}1)",
    "BangEquals": lambda T, v: f"print(1 !={T}2)",
    "LessThan": lambda T, v: f"print(1 <{T}2)",
    "LessThanEquals": lambda T, v: f"print(1 <={T}2)",
    "GreaterThan": lambda T, v: f"print(1 >{T}2)",
    "GreaterThanEquals": lambda T, v: f"print(1 >={T}2)",
    "AmpAmp": lambda T, v: f"print(true &&{T}false)",
    "PipePipe": lambda T, v: f"print(false ||{T}true)",
    "Equals": lambda T, v: f"{v} := 0\n{v} ={T}3\nprint({v})",
    "ColonEquals": lambda T, v: f"{v} :={T}3\nprint({v})",
    "SumEquals": lambda T, v: f"{v} := 1\n{v} +={T}2\nprint({v})",
    "SubEquals": lambda T, v: f"{v} := 5\n{v} -={T}2\nprint({v})",
    "MulEquals": lambda T, v: f"{v} := 2\n{v} *={T}3\nprint({v})",
    "DivEquals": lambda T, v: f"{v} := 6\n{v} /={T}2\nprint({v})",
    "ModEquals": lambda T, v: f"{v} := 7\n{v} %={T}4\nprint({v})",
    "Comma": lambda T, v: f"print([1,{T}2])",
    "Dot": lambda T, v: f'{v} := {{"k": 3}}\nprint({v}.{T}k)',
    "ParenOpen": lambda T, v: f"print({T}3)",
    "BracketOpen": lambda T, v: f"print([{T}3])",
    "BraceOpen": lambda T, v: f"if true {{{T}print(3)\n}}",
}

# token -> (script with terminator T right after the token, expected stdout)  -- the terminator ends the statement
_END_OK = {
    "Ident": (lambda T: f"a := 1\nb := a{T}print(b)\n", "1"),
    "IntLiteral": (lambda T: f"a := 1{T}print(a)\n", "1"),
    "StrLiteral": (lambda T: f'a := "s"{T}print(a)\n', "s"),
    "InterpStrLiteral": (lambda T: f'a := $"s"{T}print(a)\n', "s"),
    "False": (lambda T: f"a := false{T}print(a)\n", "false"),
    "True": (lambda T: f"a := true{T}print(a)\n", "true"),
    "Null": (lambda T: f"a := null{T}print(a == null)\n", "true"),
    "Break": (lambda T: f"while true {{\nbreak{T}}}\nprint(1)\n", "1"),
    "Continue": (lambda T: f"for i in [1] {{\ncontinue{T}}}\nprint(1)\n", "1"),
    "BraceClose": (lambda T: f"if true {{\n}}{T}print(1)\n", "1"),
    "BracketClose": (lambda T: f"a := [1]{T}print(a[0])\n", "1"),
    "ParenClose": (lambda T: f"print(1){T}print(2)\n", "1\n2"),
    "StmtEnd": (lambda T: f"print(1)\n{T}print(2)\n", "1\n2"),
    None: (lambda T: f"{T}print(1)\n", "1"),
}

# token -> script in which a terminator right after the token must make the file a syntax error
# (these tokens are NOT in the documented continuation list)
_END_REJECT = {
    "Colon": lambda T: f'a := {{"k":{T}1}}\nprint(a)\n',
    "DotDot": lambda T: f"print(0 ..{T}2)\n",
    "DashGreaterThan": lambda T: f'print("abc"->{T}len())\n',
    "EqualsEqualsEquals": lambda T: f"a := []\nprint(a ==={T}a)\n",
    "BangEqualsEquals": lambda T: f"a := []\nprint(a !=={T}a)\n",
    "Return": lambda T: f"fn f() {{\nreturn{T}1\n}}\nprint(f())\n",
    "If": lambda T: f"if{T}true {{\n}}\nprint(1)\n",
    "While": lambda T: f"while{T}false {{\n}}\nprint(1)\n",
    "For": lambda T: f"for{T}i in [] {{\n}}\nprint(1)\n",
    "In": lambda T: f"for i in{T}[] {{\n}}\nprint(1)\n",
    "Fn": lambda T: f"fn{T}f() {{\n}}\nprint(1)\n",
    "Else": lambda T: f"if false {{\n}} else{T}{{\n}}\nprint(1)\n",
}


def layout_replay(tok, expectation):
    def mk(v):
        T = ";" if v.get("semi") else "\n"
        if expectation == "continue":
            f = _CONT_STMT[tok]
            # one-line form first, then the same statement broken after the token: same output twice
            script = f(" ", "a") + "\n" + f(T, "b") + "\n"

            def judge(rc, out, err):
                if rc != 0:
                    return (f"a line break / `;` directly after {tok} must continue the statement, "
                            f"but the script was rejected or failed (exit {rc})")
                lines = out.strip().split("\n")
                half = len(lines) // 2
                if len(lines) % 2 or lines[:half] != lines[half:]:
                    return "the broken statement printed something else than its one-line form"
                return None
            return script, judge
        if tok in _END_OK:
            f, exp = _END_OK[tok]
            return f(T), _expect_output(exp)
        if tok in _END_REJECT:
            return _END_REJECT[tok](T), _expect_rejected()
        raise ValueError("no script template for this token")
    return mk


def _c09_layout_units():
    units = []
    for harness, tok, expectation in _layout_table():
        inputs = [("semi", "bool")]
        if tok == "IntLiteral":
            inputs.append(("v", "i64"))
        what = {"continue": "continuation token: terminator suppressed",
                "repeat": "repeated terminator ignored",
                "start": "terminator at file start ignored",
                "end": "terminator ends the statement"}[expectation]
        units.append(KUnit(harness, "lexer_layout_gen", LEXER,
                           [f"lexer::<Lexer as Iterator>::next (last_token = {tok or 'none'})"],
                           kind="proof", inputs=inputs, replay=layout_replay(tok, expectation),
                           note=f"{what}; text is the concrete terminator `\\n` / `;` (the rule matches on the token constructor only)"))
    return units


def _replay_skip(v):
    cs = [v.get("c0"), v.get("c1"), v.get("c2")]
    if not all(_is_char(c) for c in cs):
        raise ValueError("chars are not scalar values")
    s = "".join(cs)
    # classify with the documented rule
    out, in_comment = [], False
    for c in s:
        if in_comment:
            if c == "\n":
                in_comment = False
                out.append(c)
            continue
        if c == "#":
            in_comment = True
            continue
        out.append(c)
    rest = "".join(out)
    if any(c not in " \t\r\x0c\n" for c in rest):
        raise ValueError("layout text contains token characters")
    if in_comment:
        raise ValueError("comment swallows the rest of the line")
    text = "print(1)" + s + "print(2)\n"
    if "\n" in rest:
        return text, _expect_output("1\n2")
    return text, _expect_rejected()


C09_UNITS = _c09_layout_units() + [
    KUnit("c09_skip_whitespace_and_comments", "lexer_layout", LEXER, ["lexer::Lexer::skip_whitespace_and_comments"],
          kind="bounded", bound="text = exactly 3 arbitrary chars then end of input (all 1-4 byte chars; runs of blanks / comment "
                                 "text longer than 3 chars are not covered)",
          inputs=[("c0", "char"), ("c1", "char"), ("c2", "char")], replay=_replay_skip,
          note="three arbitrary chars then end of input; longer runs of blanks/comments repeat the same loop body"),
]


# ---------------------------------------------------------------------------
# C03 symbol recognisers
# ---------------------------------------------------------------------------
_SYMBOL_SCRIPTS = {
    "}": ("if true {\nprint(1)\n}\n", "1"), "{": ("if true {\nprint(1)\n}\n", "1"),
    "]": ("print([7][0])\n", "7"), "[": ("print([7][0])\n", "7"),
    ":": ('o := {"k": 7}\nprint(o.k)\n', "7"), ",": ("fn f(a, b) {\nreturn b\n}\nprint(f(1, 2))\n", "2"),
    "/": ("print(6 / 2)\n", "3"), ".": ('o := {"k": 7}\nprint(o.k)\n', "7"),
    "=": ("x := 1\nx = 2\nprint(x)\n", "2"), ">": ("print(1 > 2)\n", "false"), "<": ("print(1 < 2)\n", "true"),
    "%": ("print(7 % 4)\n", "3"), "*": ("print(2 * 3)\n", "6"),
    ")": ("print(1)\n", "1"), "(": ("print(1)\n", "1"),
    "-": ("print(5 - 2)\n", "3"), "+": ("print(1 + 2)\n", "3"),
    "&&": ("print(true && false)\n", "false"), "!=": ("print(1 != 2)\n", "true"),
    ":=": ("x := 5\nprint(x)\n", "5"), "->": ('print("abc"->len())\n', "3"),
    "/=": ("x := 6\nx /= 2\nprint(x)\n", "3"), "..": ("print((5 .. 7)[1])\n", "6"),
    "==": ("print(1 == 1)\n", "true"), ">=": ("print(1 >= 2)\n", "false"), "<=": ("print(1 <= 2)\n", "true"),
    "%=": ("x := 7\nx %= 4\nprint(x)\n", "3"), "*=": ("x := 2\nx *= 3\nprint(x)\n", "6"),
    "||": ("print(false || true)\n", "true"), "-=": ("x := 5\nx -= 2\nprint(x)\n", "3"),
    "+=": ("x := 1\nx += 2\nprint(x)\n", "3"),
    "===": ("a := []\nprint(a === a)\n", "true"), "!==": ("a := []\nprint(a !== a)\n", "false"),
}


def _symbol_replay(names):
    def mk(v):
        cs = [v.get(n) for n in names]
        if not all(_is_char(c) for c in cs):
            raise ValueError("chars are not scalar values")
        s = "".join(cs)
        # longest documented symbol that is a prefix
        for n in (3, 2, 1):
            if s[:n] in _SYMBOL_SCRIPTS and len(s[:n]) == n:
                script, exp = _SYMBOL_SCRIPTS[s[:n]]
                return script, _expect_output(exp)
        raise ValueError("input is not a documented symbol; no script template")
    return mk


def _replay_lone(v):
    c = v.get("c")
    if not _is_char(c):
        raise ValueError("char is not a scalar value")
    return c, _expect_unexpected(c, 0)


SYM_FNS = ["lexer::Lexer::next_symbol_token", "lexer::Lexer::next_multi_symbol_token",
           "lexer::match_single_symbol_token", "lexer::match_double_symbol_token", "lexer::match_triple_symbol_token"]

C03_UNITS = C03_SCANNER_UNITS + [
    KUnit("c03_single_symbol_table", "lexer_symbols", LEXER, ["lexer::match_single_symbol_token"],
          inputs=[("c", "char")], replay=_symbol_replay(["c"]), note="all chars"),
    KUnit("c03_double_symbol_table", "lexer_symbols", LEXER, ["lexer::match_double_symbol_token"],
          inputs=[("a", "char"), ("b", "char")], replay=_symbol_replay(["a", "b"]), note="all (char, char)"),
    KUnit("c03_triple_symbol_table", "lexer_symbols", LEXER, ["lexer::match_triple_symbol_token"],
          inputs=[("a", "char"), ("b", "char"), ("c", "char")], replay=_symbol_replay(["a", "b", "c"]),
          note="all (char, char, char)"),
    KUnit("c03_longest_symbol_1char", "lexer_symbols", LEXER, SYM_FNS,
          inputs=[("a", "char")], replay=_symbol_replay(["a"]), note="text = one arbitrary char then end of input"),
    KUnit("c03_longest_symbol_2chars", "lexer_symbols", LEXER, SYM_FNS,
          inputs=[("a", "char"), ("b", "char")], replay=_symbol_replay(["a", "b"]),
          note="text = two arbitrary chars then end of input"),
    KUnit("c03_longest_symbol_3chars", "lexer_symbols", LEXER, SYM_FNS,
          inputs=[("a", "char"), ("b", "char"), ("c", "char")], replay=_symbol_replay(["a", "b", "c"]),
          note="text = three arbitrary chars (all 3-char suffixes); what follows a 3-char symbol is never inspected"),
    KUnit("c03_lone_non_token_char_is_rejected", "lexer_symbols", LEXER, ["lexer::Lexer::next_token (unexpected-character branch)"],
          inputs=[("c", "char")], replay=_replay_lone,
          note="word/int/string recognisers stubbed by `assert!(false)` (proved not reached under the precondition)"),
]

UNITS = {"C18": C18_UNITS, "C09": C09_UNITS, "C03": C03_UNITS}


if __name__ == "__main__":
    # self-test of the replay templates: props_lexer.py <seed binary>  -> every judge must accept a correct interpreter
    import tempfile
    binary = sys.argv[1]
    samples = {
        "c18_scanner_new_base": [{"c": "\n", "d": "x"}, {"c": "\t", "d": "x"}, {"c": "é", "d": "x"}, {"c": "&", "d": "x"}],
        "c18_next_char_step": [{"c0": "a", "c1": "\n"}, {"c0": "\n", "c1": "\t"}, {"c0": "\U0001F600", "c1": "é"}, {"c0": "\r", "c1": "\n"}],
        "c03_scanner_range_in_bounds": [{"c0": "\U0001F600", "c1": "é", "c2": "x"}],
        "c09_skip_whitespace_and_comments": [{"c0": " ", "c1": "\n", "c2": "\t"}, {"c0": "#", "c1": "x", "c2": "\n"}, {"c0": " ", "c1": "\t", "c2": "\r"},
                                             {"c0": "\r", "c1": "\n", "c2": " "}],
        "c03_single_symbol_table": [{"c": c} for c in "}{][:,/.=><%*)(-+"],
        "c03_double_symbol_table": [{"a": s[0], "b": s[1]} for s in _SYMBOL_SCRIPTS if len(s) == 2],
        "c03_triple_symbol_table": [{"a": "=", "b": "=", "c": "="}, {"a": "!", "b": "=", "c": "="}],
        "c03_longest_symbol_3chars": [{"a": "=", "b": "=", "c": "="}, {"a": "<", "b": "=", "c": "="}, {"a": "=", "b": "!", "c": "="}],
        "c03_lone_non_token_char_is_rejected": [{"c": "!"}, {"c": "|"}, {"c": "&"}, {"c": "é"}, {"c": "\x0b"}],
    }
    bad = 0
    n = 0
    for pid, us in UNITS.items():
        for u in us:
            vals = samples.get(u.harness)
            if vals is None and u.mod == "lexer_layout_gen":
                vals = [{"semi": False, "v": 5}, {"semi": True, "v": 5}]
            for v in vals or []:
                try:
                    script, judge = u.replay(v)
                except ValueError as e:
                    print(f"{u.harness} {v!r}: not applicable ({e})")
                    continue
                with tempfile.TemporaryDirectory() as d:
                    p = os.path.join(d, "replay.sd")
                    with open(p, "w") as f:
                        f.write(script)
                    r = subprocess.run([binary, "replay.sd"], cwd=d, capture_output=True, timeout=20)
                verdict = judge(r.returncode, r.stdout.decode("utf-8", "replace"), r.stderr.decode("utf-8", "replace"))
                n += 1
                if verdict:
                    bad += 1
                    print(f"{u.harness} {v!r}: JUDGE REJECTS: {verdict}\n   script={script!r} rc={r.returncode} out={r.stdout!r} err={r.stderr!r}")
    print(f"{n} replays run, {bad} rejected by their judge")
