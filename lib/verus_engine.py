"""Engine V placeholder (filled in below)."""
from common import Undecided


def run_unit(u, tier):
    raise Undecided("engine V not built yet")


def scan_assumptions(u):
    return []


def replay_failure(pid, u, ur, fs):
    return "", False
