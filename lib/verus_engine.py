"""Engine V: Verus on functions extracted mechanically from /repo on every run.

A unit module (/verif/verus/<unit>.py) exposes
    NAME, FUNCTIONS (names under contract), KIND ("proof"), build(reader) -> Built
where Built carries the assembled single-file Verus program, the list of edits applied to the
copied text (closed list D1..D5, counted) and the mapping from generated lines to obligation
labels.  The engine runs `verus <file> --output-json --time`, turns every Verus *verdict*
("postcondition not satisfied", "assertion failed", "precondition not satisfied", "invariant not
satisfied...", "decreases not satisfied") into a failed obligation, and everything else
(rlimit, parse/type error of the extracted text, lost anchor) into Undecided."""
import importlib
import json
import os
import re
import sys
import time

from common import REPO, SCRATCH, VERIF, Undecided, log, run, build_real_binary, run_script, sync_work
import extract

VERUS_DIR = os.path.join(VERIF, "verus")
sys.path.insert(0, VERUS_DIR)

VERDICTS = (
    "postcondition not satisfied",
    "assertion failed",
    "precondition not satisfied",
    "invariant not satisfied at end of loop body",
    "invariant not satisfied before loop",
    "loop invariant not satisfied",
    "decreases not satisfied",
    "possible arithmetic underflow/overflow",
    "possible division by zero",
    "recommendation not met",
    "could not prove termination",
    "index out of bounds",
    "failed precondition",
    "unable to prove post-condition of closure",
)
UNDECIDED_MARKERS = ("Resource limit (rlimit) exceeded", "resource limit", "Verus Internal Error", "panicked at")


class VUnit:
    def __init__(self, name, module, functions, kind="proof", bound=None, thorough_only=False):
        self.name = name
        self.module = module
        self.functions = functions
        self.kind = kind
        self.bound = bound
        self.thorough_only = thorough_only

    def mod(self):
        m = importlib.import_module(self.module)
        return m


class Reader:
    """Reads files of /repo's working tree; remembers what was read (for evidence)."""
    def __init__(self):
        self.files = {}

    def __call__(self, rel):
        p = os.path.join(REPO, rel)
        if not os.path.isfile(p):
            raise Undecided(f"anchor file {rel} not found in /repo")
        s = open(p).read()
        self.files[rel] = s
        return s


class Built:
    def __init__(self):
        self.text = ""
        self.edits = []       # human-readable list of every edit applied to copied text
        self.copied = []      # (kind, name, file, line) of verbatim-copied items
        self.assumed = []     # external_body contracts etc. (also mechanically scanned)
        self.dropped = []     # text dropped from the verified program
        self.skipped_clauses = []   # labels of in-body assertions whose anchor was not found: those clauses are NOT checked in this run


def gen_clone_impls(type_names):
    """D1: #[derive(Clone)] replaced by an assumed structural Clone."""
    out = []
    for t in type_names:
        out.append(f"impl Clone for {t} {{\n    #[verifier::external_body]\n"
                   f"    fn clone(&self) -> (r: Self) ensures r == *self {{ unimplemented!() }}\n}}\n")
    return "".join(out)


def parse_enum_variants(enum_text):
    """[(variant, [(field, type)])] of a struct-like/unit enum (as in eval/error.rs)."""
    a = enum_text.index("{")
    b = extract.match_brace(enum_text, a)
    body = enum_text[a + 1:b]
    variants = []
    i = 0
    code = body
    # split at top-level commas
    depth = 0
    cur = []
    parts = []
    for idx, c in extract.code_positions(code):
        pass
    # simple state machine over characters (attributes/comments were stripped before)
    for c in code:
        if c in "{(<[":
            depth += 1
        elif c in "})>]":
            depth -= 1
        if c == "," and depth == 0:
            parts.append("".join(cur))
            cur = []
        else:
            cur.append(c)
    if "".join(cur).strip():
        parts.append("".join(cur))
    for p in parts:
        p = p.strip()
        if not p:
            continue
        m = re.match(r"([A-Za-z0-9_]+)\s*(\{(.*)\})?\s*$", p, re.S)
        if not m:
            raise Undecided(f"cannot parse enum variant: {p[:60]!r}")
        name = m.group(1)
        fields = []
        if m.group(3):
            d = 0
            cur = []
            fparts = []
            for c in m.group(3):
                if c in "{(<[":
                    d += 1
                elif c in "})>]":
                    d -= 1
                if c == "," and d == 0:
                    fparts.append("".join(cur))
                    cur = []
                else:
                    cur.append(c)
            if "".join(cur).strip():
                fparts.append("".join(cur))
            for fp in fparts:
                fp = fp.strip()
                if not fp:
                    continue
                fn, ft = fp.split(":", 1)
                fields.append((fn.strip(), " ".join(ft.split())))
        variants.append((name, fields))
    return variants


def gen_selectors(variants, needed):
    """D4: snafu context selectors.  For each variant with a `source` field that is used as
    `.context(Sel ...)` in the unit: a selector struct with the remaining fields and a spec `wrap` that
    builds exactly that variant (what snafu's derive generates; `source: Box<Error>` is boxed)."""
    out = []
    byname = dict(variants)
    for n in needed:
        if n not in byname:
            raise Undecided(f"context selector {n} has no variant in enum Error")
        fields = byname[n]
        src = [f for f in fields if f[0] == "source"]
        if not src:
            raise Undecided(f"selector {n}: variant has no `source` field")
        sty = src[0][1]
        if sty == "Box<Error>":
            ety, sexp = "Error", "Box::new(e)"
        else:
            ety, sexp = sty, "e"
        rest = [f for f in fields if f[0] != "source"]
        if rest:
            decl = "pub struct %s { %s }\n" % (n, ", ".join(f"pub {a}: {b}" for a, b in rest))
            build = ", ".join(f"{a}: self.{a}" for a, _ in rest)
            out.append(decl + f"impl Selector<{ety}> for {n} {{ open spec fn wrap(self, e: {ety}) -> Error "
                       f"{{ Error::{n}{{source: {sexp}, {build}}} }} }}\n")
        else:
            out.append(f"pub struct {n};\nimpl Selector<{ety}> for {n} {{ open spec fn wrap(self, e: {ety}) -> Error "
                       f"{{ Error::{n}{{source: {sexp}}} }} }}\n")
    return "".join(out)


SELECTOR_PRELUDE = """
// D4: snafu's `.context(Selector)` on a Result<T, E>: Ok stays Ok with the same value; Err(e) becomes
// Err(<variant named like the selector>{source: e (boxed for Box<Error>), ..selector fields}).
pub trait Selector<E>: Sized {
    spec fn wrap(self, e: E) -> Error;
}
pub trait ResultExt<T, E>: Sized {
    spec fn view_res(self) -> std::result::Result<T, E>;
    fn context<S: Selector<E>>(self, s: S) -> (r: Result<T>)
        ensures
            match self.view_res() { Ok(v) => r == Ok::<T, Error>(v), Err(e) => r == Err::<T, Error>(s.wrap(e)) };
}
impl<T, E> ResultExt<T, E> for std::result::Result<T, E> {
    open spec fn view_res(self) -> std::result::Result<T, E> { self }
    #[verifier::external_body]
    fn context<S: Selector<E>>(self, s: S) -> (r: Result<T>) { unimplemented!() }
}
"""


def desugar_for(body, k, it_name="__it"):
    """D5: the k-th loop of `body`, a `for PAT in EXPR {`, is replaced by Rust's own desugaring
         let mut __it = (EXPR).into_iter(); loop { let PAT = match __it.next() { Some(__x) => __x, None => break }; ...
       (Verus' native `for` supports neither `continue` nor a ghost position).  Returns new body.
       The loop keeps its ordinal k (it is now a `loop`)."""
    loops = extract.find_loops(body)
    if k < 1 or k > len(loops):
        raise Undecided(f"desugar_for: loop #{k} not found")
    kw, start, brace = loops[k - 1]
    if kw != "for":
        raise Undecided(f"desugar_for: loop #{k} is `{kw}`, not `for`")
    hdr = body[start:brace]
    # split at the `in` keyword that is outside the pattern's braces/parens
    depth = 0
    cut = None
    for off, c in extract.code_positions(hdr):
        if off < 3:
            continue
        if c in "([{":
            depth += 1
        elif c in ")]}":
            depth -= 1
        elif depth == 0 and re.match(r"in\b", hdr[off:]) and hdr[off - 1].isspace():
            cut = off
            break
    if cut is None:
        raise Undecided("desugar_for: cannot split header")
    pat, expr = hdr[3:cut].strip(), hdr[cut + 2:].strip()
    new_hdr = (f"let mut {it_name} = ({expr}).into_iter();\n"
               f"loop {{\n let {pat} = match {it_name}.next() {{ Some(__x) => __x, None => break }};\n")
    return body[:start] + new_hdr + body[brace + 1:]


def assemble(parts):
    return "\n".join(p.rstrip("\n") + "\n" for p in parts if p)


def label_map(text):
    """line number -> label for lines carrying `// [label]`."""
    m = {}
    for i, line in enumerate(text.splitlines(), 1):
        mm = re.search(r"//\s*\[(\S+)\]\s*$", line)
        if mm:
            m[i] = mm.group(1)
    return m


def fn_at_line(text, line):
    """Name of the fn item enclosing generated line `line` (scan backwards for `fn name`)."""
    lines = text.splitlines()
    for i in range(min(line, len(lines)) - 1, -1, -1):
        mm = re.match(r"\s*(pub\s+)?(proof\s+|exec\s+|open\s+spec\s+|closed\s+spec\s+|spec\s+)?fn\s+([A-Za-z0-9_]+)", lines[i])
        if mm:
            return mm.group(3)
    return "?"


UNTYPED_CLOSURE = re.compile(r"(?:[(,=]|\breturn\b)\s*(?:move\s+)?\|\s*(?:_|&?[a-z_]\w*|\([^|():]*\))(?:\s*,\s*(?:_|&?[a-z_]\w*|\([^|():]*\)))*\s*\|(?!\|)")


def parse_verus_errors(stderr, text):
    """Return (failures, hard_errors).  failures: [{kind, fn, label, line, snippet}]"""
    failures = []
    hard = []
    labels = label_map(text)
    blocks = re.split(r"\n(?=error)", "\n" + stderr)
    for b in blocks:
        b = b.strip("\n")
        if not b.startswith("error"):
            continue
        first = b.splitlines()[0]
        msg = first.split(":", 1)[1].strip() if ":" in first else first
        if msg.startswith("aborting due to"):
            continue
        locs = [int(x) for x in re.findall(r"-->\s*[^\s:]+:(\d+):\d+", b)]
        # lines shown in the snippet with a marker
        # (the `note:` parts that may follow - e.g. trigger reports - quote unrelated lines: not part of the verdict)
        snippet_lines = [(int(a), t) for a, t in re.findall(r"\n\s*(\d+)\s*\|(.*)", re.split(r"\nnote:", b)[0])]
        is_verdict = any(msg.startswith(v) for v in VERDICTS)
        if not is_verdict:
            hard.append(b[:1500])
            continue
        # an obligation that failed at a line whose value passes through an exec closure WITHOUT a contract (untyped
        # parameters: `.map_err(|e| ..)?`): Verus knows nothing about the closure's result, so the failure says nothing
        # about the code - undecided, never an alarm
        if any(UNTYPED_CLOSURE.search(t) for _ln, t in snippet_lines):
            hard.append("an obligation failed at a line that passes through a closure without a contract (nothing is known about its "
                        "result): undecided, not a violation\n" + b[:1500])
            continue
        label = None
        for ln, _t in snippet_lines:
            if ln in labels:
                label = labels[ln]
                break
        line = locs[0] if locs else (snippet_lines[0][0] if snippet_lines else 0)
        failures.append({"kind": msg, "fn": fn_at_line(text, line), "label": label, "line": line,
                         "snippet": "\n".join(b.splitlines()[:14])})
    return failures, hard


def scan_assumptions(u):
    """Mechanical scan of the last generated file of this unit for assume/admit/external_body."""
    p = os.path.join(SCRATCH, "verus", u.name + ".rs")
    out = []
    if not os.path.isfile(p):
        return out
    lines = open(p).read().splitlines()
    n_ext = 0
    for i, line in enumerate(lines):
        s = line.strip()
        if s.startswith("//"):
            continue
        if "external_body" in s or "external_type_specification" in s or "assume_specification" in s:
            n_ext += 1
            # name of the item that follows
            name = "?"
            for j in range(i + 1, min(i + 6, len(lines))):
                mm = re.search(r"\b(fn|struct|enum)\s+([A-Za-z0-9_]+)", lines[j])
                if mm:
                    name = mm.group(1) + " " + mm.group(2)
                    break
            out.append(f"verus/{u.name}: {s} on {name} (assumed contract / opaque item)")
        if re.search(r"\b(assume|admit)\s*\(", s):
            out.append(f"verus/{u.name}:{i+1}: {s}")
        if "uninterp spec fn" in s:
            out.append(f"verus/{u.name}: {s.rstrip('; ')} (uninterpreted: holds for every interpretation)")
    return out


def run_unit(u, tier):
    mod = u.mod()
    importlib.reload(mod)
    reader = Reader()
    built = mod.build(reader)
    d = os.path.join(SCRATCH, "verus")
    os.makedirs(d, exist_ok=True)
    path = os.path.join(d, u.name + ".rs")
    with open(path, "w") as f:
        f.write(built.text)
    rlimit = getattr(mod, "RLIMIT", 60)
    cmd = ["verus", path, "--output-json", "--time", "--multiple-errors", "20", "--rlimit", str(rlimit)]
    t0 = time.time()
    rc, out, secs, to = run_split(cmd, timeout=getattr(mod, "TIMEOUT", 900))
    stdout, stderr = out
    if to:
        raise Undecided(f"verus timed out after {secs:.0f}s")
    try:
        js = json.loads(stdout[stdout.index("{"):])
    except Exception:
        raise Undecided("verus produced no JSON result:\n" + (stderr or stdout)[-3000:])
    vr = js.get("verification-results", {})
    failures, hard = parse_verus_errors(stderr, built.text)
    smt = (((js.get("times-ms") or {}).get("smt")) or {})
    fn_times = []
    for m in smt.get("smt-run-module-times", []) or []:
        for fb in m.get("function-breakdown", []) or []:
            fn_times.append({"function": fb.get("function"), "mode": fb.get("mode:"), "ms": fb.get("time"),
                             "success": fb.get("success")})
    ur = {"unit": u.name, "engine": "verus", "backend": "Verus 0.2026.09.13 / Z3 (bundled)", "kind": u.kind,
          "bound": u.bound, "functions": u.functions, "failed": [], "vunit": u,
          "obligations": int(vr.get("verified", 0)) + int(vr.get("errors", 0)),
          "discharged": int(vr.get("verified", 0)),
          "solver_s": round((smt.get("smt-run") or 0) / 1000.0, 3), "wall_s": round(secs, 2),
          "named_clauses": sorted(set(label_map(built.text).values())),
          "edits": built.edits, "copied": built.copied, "dropped": built.dropped, "skipped_clauses": built.skipped_clauses,
          "fn_times": fn_times, "generated_file": path}
    if vr.get("encountered-vir-error") or (hard and not failures) or (vr.get("encountered-error") and not failures):
        ur["status"] = "undecided"
        ur["why"] = "extracted text rejected by Verus (unsupported construct / type error) or tool error:\n" + \
                    ("\n".join(hard) or stderr[-2000:])
        return ur
    if any(mk in stderr for mk in UNDECIDED_MARKERS):
        ur["status"] = "undecided"
        ur["why"] = "rlimit / tool limit:\n" + stderr[-1500:]
        if not failures:
            return ur
    for f in failures:
        lab = f["label"] or f["kind"]
        ur["failed"].append({"obligation": f"{u.name}/{f['fn']}:{lab}", "detail": f})
    ur["all_failed"] = list(ur["failed"])
    if failures:
        ur["status"] = "failed"
    elif vr.get("success") and int(vr.get("errors", 0)) == 0:
        ur["status"] = "ok"
        if ur["obligations"] == 0:
            ur["status"] = "undecided"
            ur["why"] = "zero obligations"
        else:
            vacuity_probe(u, mod, built, d, rlimit, ur)
    else:
        ur["status"] = "undecided"
        ur["why"] = "verus did not report success:\n" + stderr[-1500:]
    return ur


PROBE = "/*VACUITY_PROBE*/"


def vacuity_probe(u, mod, built, d, rlimit, ur):
    """Guard against vacuous success: every function under contract gets `assert(false)` as its first statement and
    the unit is verified again; each of these assertions MUST fail.  One that is proved means the function's
    precondition is contradictory (or its body is unreachable) and its verified postconditions say nothing."""
    n = built.text.count(PROBE)
    ur["vacuity_probe"] = {"functions": n, "failed_as_expected": 0}
    if n == 0:
        return
    text = built.text.replace(PROBE, "assert(false); // [VACUITY]")
    path = os.path.join(d, u.name + "_probe.rs")
    with open(path, "w") as f:
        f.write(text)
    cmd = ["verus", path, "--output-json", "--time", "--multiple-errors", "2", "--rlimit", str(rlimit)]
    rc, out, secs, to = run_split(cmd, timeout=getattr(mod, "TIMEOUT", 900))
    if to:
        raise Undecided("vacuity probe: verus timed out")
    failures, hard = parse_verus_errors(out[1], text)
    probe_lines = {i for i, line in enumerate(text.splitlines(), 1) if "// [VACUITY]" in line}
    hit = {f["line"] for f in failures if f["label"] == "VACUITY"}
    ur["vacuity_probe"]["failed_as_expected"] = len(hit & probe_lines)
    ur["vacuity_probe"]["wall_s"] = round(secs, 2)
    missing = sorted(probe_lines - hit)
    if missing:
        fns = sorted({fn_at_line(text, ln) for ln in missing})
        ur["status"] = "undecided"
        ur["why"] = ("vacuity probe: `assert(false)` at the start of " + ", ".join(fns) + " did not fail - the precondition is "
                     "contradictory or the probe run was rejected:\n" + ("\n".join(hard)[:1500] or out[1][-1500:]))


def run_split(cmd, timeout):
    import subprocess
    t0 = time.time()
    try:
        p = subprocess.run(cmd, capture_output=True, timeout=timeout)
        return p.returncode, (p.stdout.decode("utf-8", "replace"), p.stderr.decode("utf-8", "replace")), time.time() - t0, False
    except subprocess.TimeoutExpired as e:
        return -9, ((e.stdout or b"").decode("utf-8", "replace"), (e.stderr or b"").decode("utf-8", "replace")), time.time() - t0, True
    except FileNotFoundError as e:
        raise Undecided(f"verus not found: {e}")


def replay_failure(pid, u, ur, fs):
    """Verus gives no counterexample: run the unit's paired replay generator (scripts derived from
    the contract's case split) on the real binary; first script contradicting the property is the replay."""
    mod = u.mod()
    lines = [f"property: {pid}", f"unit: Verus unit {u.name} (contracts /verif/verus/{u.module}.py; generated {ur.get('generated_file')})",
             f"functions under contract: {', '.join(u.functions)}", "failed obligations:"]
    for f in fs:
        lines.append(f"  - {f['obligation']}  [{f['detail']['kind']}]")
    lines.append("--- verifier output ---")
    for f in fs:
        lines.append(f["detail"]["snippet"])
    reproduced = False
    gen = getattr(mod, "replays", None)
    if gen:
        try:
            sync_work({})
            binary = build_real_binary()
            for title, script, judge in gen([f["obligation"] for f in fs]):
                rc, so, se = run_script(binary, script)
                verdict = judge(rc, so, se)
                if verdict:
                    lines.append(f"replay candidate `{title}` (run on the real binary built from /repo's working tree):")
                    for l in script.splitlines():
                        lines.append("    | " + l)
                    lines.append(f"  exit status: {rc}")
                    lines.append(f"  stdout: {so!r}")
                    lines.append(f"  stderr: {se[:600]!r}")
                    lines.append(f"  REPRODUCED on the real binary: {verdict}")
                    reproduced = True
                    break
            if not reproduced:
                # fall back on the batteries of all other units: every script states documented behaviour and is
                # judged correct on the unchanged tree (lib/vreplaytest.py), so a contradiction is a genuine failing input
                import glob
                for fpath in sorted(glob.glob(os.path.join(VERIF, "verus", "*.py"))):
                    oname = os.path.basename(fpath)[:-3]
                    if oname == u.module or reproduced:
                        continue
                    try:
                        omod = importlib.import_module(oname)
                    except Exception:
                        continue
                    ogen = getattr(omod, "replays", None)
                    if not ogen:
                        continue
                    for title, script, judge in ogen([]):
                        rc, so, se = run_script(binary, script)
                        verdict = judge(rc, so, se)
                        if verdict:
                            lines.append(f"replay candidate `{title}` (from the replay battery of unit {oname}; run on the real binary built from /repo's working tree):")
                            for l in script.splitlines():
                                lines.append("    | " + l)
                            lines.append(f"  exit status: {rc}")
                            lines.append(f"  stdout: {so!r}")
                            lines.append(f"  stderr: {se[:600]!r}")
                            lines.append(f"  REPRODUCED on the real binary: {verdict}")
                            reproduced = True
                            break
        except Undecided as e:
            lines.append(f"replay generator could not run: {e}")
    if not reproduced:
        lines.append("no-failing-input-found: none of the paired replay scripts contradicts the property on the real binary")
    return "\n".join(lines) + "\n", reproduced
