"""Registry of the leaf function-contract units (Kani) for C06 (comparisons, op-assign), C10 (== / ===),
C11 (range reads, concatenation) and C07 (for-iteration snapshot).  Imported by props.py.

Harness sources: /verif/kani/{eval_cmp,bind_opassign,eval_eq,eval_range,eval_pairs}.rs
Measured times and the mutation table: /verif/kani/REPORT_eval_leaf.md"""
from kani_engine import KUnit
from common import seed_int

I64_MIN, I64_MAX = -(2 ** 63), 2 ** 63 - 1

EVAL = "src/eval/mod.rs"
BIND = "src/eval/bind.rs"


# ---------------------------------------------------------------------------
# helpers for replay scripts (Seed source text)
# ---------------------------------------------------------------------------
def _b(x):
    return "true" if x else "false"


def _crashed(rc):
    if rc not in (0, 103):
        return f"interpreter crashed (exit {rc}) instead of completing or reporting a diagnostic"
    return None


def _expect_lines(lines):
    want = "\n".join(lines) + "\n"

    def judge(rc, out, err):
        c = _crashed(rc)
        if c:
            return c
        if rc != 0 or out != want:
            return f"expected exit 0 and stdout {want!r}"
        return None
    return judge


def _expect_error():
    def judge(rc, out, err):
        c = _crashed(rc)
        if c:
            return c
        if rc != 103:
            return "expected a reported error (exit 103)"
        return None
    return judge


def _expressible(x):
    # `\\xNN` in a Seed literal denotes a *character* (UTF-8 encoded), so only ASCII bytes can be written
    return x < 0x80 and x not in (0x00, 0x0a, 0x0d)


def seed_str(bs):
    """Seed string literal for a byte string (ASCII only)."""
    for x in bs:
        if not _expressible(x):
            raise ValueError("byte not expressible in a Seed string literal")
    return '"' + "".join(f"\\x{x:02x}" for x in bs) + '"'


def standins(*byte_seqs):
    """The solver picks arbitrary bytes (0x80, 0x00, ...) where the value does not matter.  Map every byte
    that cannot be written in a literal to an unused ASCII letter, injectively, so that the equality
    structure of the counterexample is preserved; expressible bytes stay as they are."""
    used = {x for bs in byte_seqs for x in bs}
    free = [c for c in range(0x61, 0x7b) if c not in used] + [c for c in range(0x41, 0x5b) if c not in used]
    m = {}
    for bs in byte_seqs:
        for x in bs:
            if x not in m:
                m[x] = x if _expressible(x) else free.pop(0)
    return [bytes(m[x] for x in bs) for bs in byte_seqs]


def seed_list(ns):
    return "[" + ", ".join(seed_int(n) for n in ns) + "]"


def _index(n):
    if n > I64_MAX:
        raise ValueError("bound above i64::MAX is not reachable from a script")
    return str(n)


def _len2(v, p):
    return int(bool(v[p + "b0"])) + int(bool(v[p + "b1"]))


# ---------------------------------------------------------------------------
# C06: comparisons, op-assign
# ---------------------------------------------------------------------------
ARITH_INPUTS = [("a", "i64"), ("b", "i64"), ("l", "usize"), ("c", "usize")]


def _cmp_replay(sym, pyop):
    def mk(v):
        a, b = v["a"], v["b"]
        return f"print({seed_int(a)} {sym} {seed_int(b)});\n", _expect_lines([_b(pyop(a, b))])
    return mk


def _tdiv(a, b):
    q = abs(a) // abs(b)
    return q if (a < 0) == (b < 0) else -q


def _trem(a, b):
    return a - _tdiv(a, b) * b


def _op_assign_replay(sym, pyop):
    """`xs[0] op= b` and `o.f op= b` (the two users of binary_operation_assign) against exact arithmetic."""
    def mk(v):
        a, b = v["a"], v["b"]
        script = (f"xs := [{seed_int(a)}];\nxs[0] {sym}= {seed_int(b)};\nprint(xs[0]);\n"
                  f"o := {{\"f\": {seed_int(a)}}};\no.f {sym}= {seed_int(b)};\nprint(o.f);\n")
        try:
            exact = pyop(a, b)
        except ZeroDivisionError:
            exact = None
        if exact is not None and I64_MIN <= exact <= I64_MAX:
            return script, _expect_lines([str(exact), str(exact)])
        return script, _expect_error()
    return mk


OP_ASSIGN_INPUTS = [("a", "i64"), ("s", "i64"), ("b", "i64"), ("l", "usize"), ("c", "usize"),
                    ("stub_ok", "bool"), ("stub_ret", "i64")]


def _plain_assign_replay(v):
    b = v["b"]
    script = f"xs := [{seed_int(v['a'])}];\nxs[0] = {seed_int(b)};\nprint(xs[0]);\n"
    return script, _expect_lines([str(b)])


C06_LEAF_UNITS = [
    KUnit("c06_cmp_gt", "eval_cmp", EVAL, ["eval::apply_binary_operation (Gt, Int x Int)"],
          inputs=ARITH_INPUTS, replay=_cmp_replay(">", lambda a, b: a > b)),
    KUnit("c06_cmp_gte", "eval_cmp", EVAL, ["eval::apply_binary_operation (Gte, Int x Int)"],
          inputs=ARITH_INPUTS, replay=_cmp_replay(">=", lambda a, b: a >= b)),
    KUnit("c06_cmp_lt", "eval_cmp", EVAL, ["eval::apply_binary_operation (Lt, Int x Int)"],
          inputs=ARITH_INPUTS, replay=_cmp_replay("<", lambda a, b: a < b)),
    KUnit("c06_cmp_lte", "eval_cmp", EVAL, ["eval::apply_binary_operation (Lte, Int x Int)"],
          inputs=ARITH_INPUTS, replay=_cmp_replay("<=", lambda a, b: a <= b)),
    KUnit("c06_cmp_eq", "eval_cmp", EVAL, ["eval::apply_binary_operation (Eq, Int x Int)", "eval::eq"],
          inputs=ARITH_INPUTS, replay=_cmp_replay("==", lambda a, b: a == b)),
    KUnit("c06_cmp_ne", "eval_cmp", EVAL, ["eval::apply_binary_operation (Ne, Int x Int)", "eval::eq"],
          inputs=ARITH_INPUTS, replay=_cmp_replay("!=", lambda a, b: a != b)),
    KUnit("c06_op_assign_sum", "bind_opassign", BIND, ["eval::bind::binary_operation_assign", "eval::scope::set"],
          inputs=OP_ASSIGN_INPUTS, replay=_op_assign_replay("+", lambda a, b: a + b),
          chain_cover="chain_operator_invoked",
          note="callee eval::apply_binary_operation replaced by a recording nondet stub (contract chaining)"),
    KUnit("c06_op_assign_sub", "bind_opassign", BIND, ["eval::bind::binary_operation_assign", "eval::scope::set"],
          inputs=OP_ASSIGN_INPUTS, replay=_op_assign_replay("-", lambda a, b: a - b),
          chain_cover="chain_operator_invoked",
          note="callee eval::apply_binary_operation replaced by a recording nondet stub (contract chaining)"),
    KUnit("c06_op_assign_div", "bind_opassign", BIND, ["eval::bind::binary_operation_assign", "eval::scope::set"],
          inputs=OP_ASSIGN_INPUTS, replay=_op_assign_replay("/", _tdiv),
          chain_cover="chain_operator_invoked",
          note="callee eval::apply_binary_operation replaced by a recording nondet stub (contract chaining)"),
    KUnit("c06_op_assign_mod", "bind_opassign", BIND, ["eval::bind::binary_operation_assign", "eval::scope::set"],
          inputs=OP_ASSIGN_INPUTS, replay=_op_assign_replay("%", _trem),
          chain_cover="chain_operator_invoked",
          note="callee eval::apply_binary_operation replaced by a recording nondet stub (contract chaining)"),
    KUnit("c06_plain_assign_stores_rhs", "bind_opassign", BIND,
          ["eval::bind::binary_operation_assign (op = None)", "eval::scope::set"],
          inputs=[("a", "i64"), ("s", "i64"), ("b", "i64"), ("t", "i64"), ("rhs_has_source", "bool")],
          replay=_plain_assign_replay),
]


# ---------------------------------------------------------------------------
# C10: == / != / === / !==
# ---------------------------------------------------------------------------
def _eq_scalar_replay(lit):
    def mk(v):
        x, y, z = lit(v["x"]), lit(v["y"]), lit(v["z"])
        script = (f"a := {x};\nb := {y};\nd := {z};\n"
                  "print(a == a);\nprint(a == b);\nprint(b == a);\nprint(a != b);\nprint(b == d);\nprint(a == d);\n")
        ab, bd, ad = v["x"] == v["y"], v["y"] == v["z"], v["x"] == v["z"]
        return script, _expect_lines([_b(True), _b(ab), _b(ab), _b(not ab), _b(bd), _b(ad)])
    return mk


def _str2(v, p):
    n = _len2(v, p)
    return bytes([v[p + "0"], v[p + "1"]][:n])


def _eq_str_replay(v):
    x, y, z = standins(_str2(v, "x"), _str2(v, "y"), _str2(v, "z"))
    script = (f"a := {seed_str(x)};\nb := {seed_str(y)};\nd := {seed_str(z)};\n"
              "print(a == a);\nprint(a == b);\nprint(b == a);\nprint(a != b);\nprint(b == d);\nprint(a == d);\n")
    return script, _expect_lines([_b(True), _b(x == y), _b(x == y), _b(x != y), _b(y == z), _b(x == z)])


def _eq_list_replay(nx, ny):
    def mk(v):
        xs = [v["x0"], v["x1"]][:nx]
        ys = [v["y0"], v["y1"]][:ny]
        script = (f"a := {seed_list(xs)};\nb := {seed_list(ys)};\n"
                  "print(a == b);\nprint(b == a);\nprint(a != b);\nprint(a == a);\n"
                  f"print(a == {seed_list(xs)});\nprint(a);\nprint(b);\n")

        def judge(rc, out, err):
            c = _crashed(rc)
            if c:
                return c
            want = [_b(xs == ys), _b(xs == ys), _b(xs != ys), "true", "true"]
            got = out.splitlines()[:5]
            if rc != 0 or got != want:
                return f"expected exit 0 and first five lines {want}"
            return None
        return script, judge
    return mk


def _eq_list_transitive_replay(n):
    def mk(v):
        xs, ys, zs = ([v[p + "0"], v[p + "1"]][:n] for p in "xyz")
        script = (f"a := {seed_list(xs)};\nb := {seed_list(ys)};\nd := {seed_list(zs)};\n"
                  "print(a == b);\nprint(b == d);\nprint(a == d);\n")
        return script, _expect_lines([_b(xs == ys), _b(ys == zs), _b(xs == zs)])
    return mk


def _eq_list_alias_replay(n):
    def mk(v):
        xs = [v["x0"], v["x1"]][:n]
        script = (f"a := {seed_list(xs)};\nb := a;\nprint(a === b);\nprint(a == b);\nprint(a == a);\n"
                  f"print(a == {seed_list(xs)});\nprint({seed_list(xs)} == a);\n")
        return script, _expect_lines(["true"] * 5)
    return mk


def _eq_list_mismatch_replay(idx):
    def mk(v):
        xs = [seed_int(v["x0"]), seed_int(v["x1"])]
        ys = list(xs)
        ys[idx] = _b(v["yb"])
        script = f"print([{', '.join(xs)}] != [{', '.join(ys)}]);\n"

        def judge(rc, out, err):
            c = _crashed(rc)
            if c:
                return c
            if rc != 103 or "'int'" not in err or "'bool'" not in err or err.index("'int'") > err.index("'bool'"):
                return "expected a reported error naming 'int' and 'bool' in operand order"
            return None
        return script, judge
    return mk


LIST2 = [("x0", "i64"), ("x1", "i64"), ("y0", "i64"), ("y1", "i64"), ("l", "usize"), ("c", "usize")]
BOUND_LIST = "list length <= 2, elements Int (payloads symbolic); lengths concrete per harness"
EQ_FNS = ["eval::eq", "eval::apply_binary_operation (Eq, Ne)"]

C10_UNITS = [
    KUnit("c10_ref_eq_list", "eval_eq", EVAL,
          ["eval::ref_eq", "eval::value::ref_eq", "eval::apply_binary_operation (RefEq, RefNe)"],
          inputs=[("l", "usize"), ("c", "usize")], note="kind proof: identity does not look at the contents"),
    KUnit("c10_ref_eq_object", "eval_eq", EVAL,
          ["eval::ref_eq", "eval::value::ref_eq", "eval::apply_binary_operation (RefEq, RefNe)"],
          inputs=[("l", "usize"), ("c", "usize")], note="kind proof: identity does not look at the contents"),
    KUnit("c10_ref_eq_func", "eval_eq", EVAL,
          ["eval::ref_eq", "eval::value::ref_eq", "eval::apply_binary_operation (RefEq, RefNe)"],
          inputs=[("l", "usize"), ("c", "usize")], note="kind proof: identity does not look at the contents"),
    KUnit("c10_eq_null", "eval_eq", EVAL, EQ_FNS, inputs=[("l", "usize"), ("c", "usize")]),
    KUnit("c10_eq_bool", "eval_eq", EVAL, EQ_FNS,
          inputs=[("x", "bool"), ("y", "bool"), ("z", "bool"), ("l", "usize"), ("c", "usize")],
          replay=_eq_scalar_replay(_b)),
    KUnit("c10_eq_int", "eval_eq", EVAL, EQ_FNS,
          inputs=[("x", "i64"), ("y", "i64"), ("z", "i64"), ("l", "usize"), ("c", "usize")],
          replay=_eq_scalar_replay(seed_int)),
    KUnit("c10_eq_str", "eval_eq", EVAL, EQ_FNS, kind="bounded", bound="string length <= 2, bytes symbolic",
          inputs=[(p + s, t) for p in "xyz" for s, t in (("b0", "bool"), ("b1", "bool"), ("0", "u8"), ("1", "u8"))]
          + [("l", "usize"), ("c", "usize")],
          replay=_eq_str_replay),
    KUnit("c10_eq_type_mismatch_scalars", "eval_eq", EVAL, ["eval::eq", "eval::error::render_type"],
          inputs=[("i", "i64"), ("b", "bool"), ("ch", "u8")],
          note="kind proof over 6 concrete kind pairs (int/bool, bool/int, null/int, string/null, list/object, "
               "object/string); containers empty"),
    KUnit("c10_eq_two_functions_is_error", "eval_eq", EVAL,
          ["eval::eq", "eval::apply_binary_operation (Eq)", "eval::error::render_type"],
          inputs=[("l", "usize"), ("c", "usize")], note="kind proof: func/func (also aliased) and builtin/func"),
]
for _n in (0, 1, 2):
    C10_UNITS.append(KUnit(f"c10_eq_list_structural_len{_n}", "eval_eq", EVAL, EQ_FNS, kind="bounded",
                           bound=BOUND_LIST, inputs=LIST2, replay=_eq_list_replay(_n, _n)))
for _nx, _ny in ((0, 1), (1, 2), (0, 2)):
    C10_UNITS.append(KUnit(f"c10_eq_list_lengths_{_nx}_{_ny}", "eval_eq", EVAL, EQ_FNS, kind="bounded",
                           bound=BOUND_LIST, inputs=LIST2, replay=_eq_list_replay(_nx, _ny)))
for _n in (1, 2):
    C10_UNITS.append(KUnit(f"c10_eq_list_transitive_len{_n}", "eval_eq", EVAL, ["eval::eq"], kind="bounded",
                           bound=BOUND_LIST,
                           inputs=[(p + s, "i64") for p in "xyz" for s in "01"],
                           replay=_eq_list_transitive_replay(_n)))
for _n in (0, 1, 2):
    C10_UNITS.append(KUnit(f"c10_eq_list_alias_agrees_with_copy_len{_n}", "eval_eq", EVAL,
                           ["eval::eq", "eval::ref_eq"], kind="bounded", bound=BOUND_LIST,
                           inputs=[("x0", "i64"), ("x1", "i64")], replay=_eq_list_alias_replay(_n)))
for _i in (0, 1):
    C10_UNITS.append(KUnit(f"c10_eq_list_elem_type_mismatch_at_{_i}", "eval_eq", EVAL,
                           ["eval::eq", "eval::apply_binary_operation (Ne)", "eval::error::render_type"],
                           kind="bounded", bound="two 2-element lists, Int vs Bool at one index",
                           inputs=[("x0", "i64"), ("x1", "i64"), ("yb", "bool"), ("l", "usize"), ("c", "usize")],
                           replay=_eq_list_mismatch_replay(_i)))
C10_UNITS += [
    KUnit("c10_eq_object_alias_implies_equal", "eval_eq", EVAL, ["eval::eq", "eval::ref_eq"], kind="bounded",
          bound="object with 1 key (\"k\"), value Int", inputs=[("v", "i64")]),
    KUnit("c10_eq_object_one_key_vs_empty", "eval_eq", EVAL, ["eval::eq"], kind="bounded",
          bound="objects with 1 key vs 0 keys, value Int", inputs=[("x", "i64"), ("y", "i64")]),
    KUnit("c10_eq_object_empty_vs_empty", "eval_eq", EVAL, ["eval::eq"], kind="bounded",
          bound="two distinct empty objects", inputs=[("x", "i64"), ("y", "i64")]),
]


# ---------------------------------------------------------------------------
# C11: range reads, concatenation
# ---------------------------------------------------------------------------
RANGE_INPUTS_STR = [("e0", "u8"), ("e1", "u8"), ("e2", "u8"), ("has_start", "bool"), ("start", "usize"),
                    ("has_end", "bool"), ("end", "usize")]
RANGE_INPUTS_LIST = [("e0", "i64"), ("e1", "i64"), ("e2", "i64"), ("has_start", "bool"), ("start", "usize"),
                     ("has_end", "bool"), ("end", "usize")]


def _range_replay(n, lit, is_str=False):
    def mk(v):
        elems = [v["e0"], v["e1"], v["e2"]][:n]
        if is_str:
            elems = list(standins(bytes(elems))[0])
        a = v["start"] if v["has_start"] else 0
        b = v["end"] if v["has_end"] else n
        sa = _index(v["start"]) if v["has_start"] else ""
        sb = _index(v["end"]) if v["has_end"] else ""
        script = f"s := {lit(elems)};\nr := s[{sa}:{sb}];\n"
        if a <= b <= n:
            script += f"print(r == {lit(elems[a:b])});\nprint(s == {lit(elems)});\n"
            return script, _expect_lines(["true", "true"])
        return script, _expect_error()
    return mk


def _concat_replay(lit, with_identity, is_str=False):
    def mk(v):
        xs = [v["x0"], v["x1"]][:_len2(v, "x")]
        ys = [v["y0"], v["y1"]][:_len2(v, "y")]
        if is_str:
            xs, ys = (list(t) for t in standins(bytes(xs), bytes(ys)))
        script = f"a := {lit(xs)};\nb := {lit(ys)};\nr := a + b;\nprint(r == {lit(xs + ys)});\n"
        want = ["true"]
        if with_identity:
            script += "print(r === a);\nprint(r === b);\n"
            want += ["false", "false"]
        script += f"print(a == {lit(xs)});\nprint(b == {lit(ys)});\n"
        return script, _expect_lines(want + ["true", "true"])
    return mk


def _concat_self_replay(v):
    xs = [v["x0"], v["x1"]][:_len2(v, "x")]
    script = (f"a := {seed_list(xs)};\nr := a + a;\nprint(r == {seed_list(xs + xs)});\nprint(r === a);\n"
              f"print(a == {seed_list(xs)});\n")
    return script, _expect_lines(["true", "false", "true"])


C11_UNITS = []
for _n in (0, 1, 2, 3):
    C11_UNITS.append(KUnit(f"c11_str_range_len{_n}", "eval_range", EVAL, ["eval::get_str_range_index"],
                           kind="bounded", bound="sequence length <= 3 (one harness per length); bytes and both "
                           "optional bounds (full usize domain) symbolic",
                           inputs=RANGE_INPUTS_STR, replay=_range_replay(_n, lambda e: seed_str(bytes(e)), True)))
def _list_range_cells_replay(n, cells):
    """All defined cells of the group print `true`; then the first out-of-domain cell must stop with exit 103."""
    def mk(v):
        elems = [v["e0"], v["e1"], v["e2"]][:n]
        script = f"s := {seed_list(elems)};\nr := [];\n"
        n_def, bad = 0, None
        for st, en in cells:
            a = 0 if st is None else st
            b = n if en is None else en
            rng = f"s[{'' if st is None else st}:{'' if en is None else en}]"
            if a <= b <= n:
                script += f"r = {rng};\nprint(r == {seed_list(elems[a:b])});\nprint(r === s);\n"
                n_def += 1
            elif bad is None:
                bad = rng
        script += f"print(s == {seed_list(elems)});\n"
        if bad:
            script += f"print({bad});\n"
        want = "true\nfalse\n" * n_def + "true\n"

        def judge(rc, out, err):
            c = _crashed(rc)
            if c:
                return c
            if out != want:
                return f"expected stdout {want!r}"
            if rc != (103 if bad else 0):
                return "expected a reported error for the out-of-domain range" if bad else "expected exit 0"
            return None
        return script, judge
    return mk


def _cells(n, starts):
    vals = [None] + list(range(n + 2))
    return [(st, en) for st in starts for en in vals]


LIST_RANGE_INPUTS = [("e0", "i64"), ("e1", "i64"), ("e2", "i64")]
BOUND_LIST_RANGE = ("sequence length in {0, 1, 3}, elements Int (payloads symbolic); each bound omitted or a "
                    "CONCRETE number in 0..=len+1 (all combinations); bounds above len+1 only for strings")
_LIST_RANGE_GROUPS = [("c11_list_range_len0", 0, [None, 0, 1]),
                      ("c11_list_range_len1_from_omitted_or_0", 1, [None, 0]),
                      ("c11_list_range_len1_from_1_or_2", 1, [1, 2])]
_LIST_RANGE_GROUPS += [(f"c11_list_range_len3_from_{'omitted' if st is None else st}", 3, [st])
                       for st in (None, 0, 1, 2, 3, 4)]
for _name, _n, _starts in _LIST_RANGE_GROUPS:
    C11_UNITS.append(KUnit(_name, "eval_range", EVAL, ["eval::get_list_range_index"], kind="bounded",
                           bound=BOUND_LIST_RANGE, inputs=LIST_RANGE_INPUTS,
                           replay=_list_range_cells_replay(_n, _cells(_n, _starts))))

CONCAT_STR_INPUTS = [(p + s, t) for p in "xy" for s, t in (("b0", "bool"), ("b1", "bool"), ("0", "u8"), ("1", "u8"))] \
    + [("l", "usize"), ("c", "usize")]
C11_UNITS += [
    KUnit("c11_concat_str", "eval_range", EVAL, ["eval::apply_binary_operation (Sum, Str x Str)"],
          kind="bounded", bound="both strings of length <= 2, bytes symbolic",
          inputs=CONCAT_STR_INPUTS, replay=_concat_replay(lambda e: seed_str(bytes(e)), False, True)),
]


def _concat_empty_replay(v):
    script = ("a := [];\nb := [];\nr := a + b;\nprint(r == []);\nprint(r === a);\nprint(r === b);\n"
              "q := a + a;\nprint(q == []);\nprint(q === a);\n")
    return script, _expect_lines(["true", "false", "false", "true", "false"])


BOUND_CONCAT_LIST = ("both lists EMPTY (any cell with an element does not finish symbolic execution in 300 s: "
                     "the operator drops temporary Vec<SourcedValue> copies)")
C11_UNITS += [
    KUnit("c11_concat_list_empty_empty", "eval_range", EVAL, ["eval::apply_binary_operation (Sum, List x List)"],
          kind="bounded", bound=BOUND_CONCAT_LIST,
          inputs=[("x0", "i64"), ("x1", "i64"), ("y0", "i64"), ("y1", "i64"), ("l", "usize"), ("c", "usize")],
          replay=_concat_empty_replay),
    KUnit("c11_concat_list_empty_with_itself", "eval_range", EVAL,
          ["eval::apply_binary_operation (Sum, List x List, same list twice)"],
          kind="bounded", bound=BOUND_CONCAT_LIST,
          inputs=[("x0", "i64"), ("x1", "i64"), ("l", "usize"), ("c", "usize")],
          replay=_concat_empty_replay),
]


# ---------------------------------------------------------------------------
# C07 (leaf): iteration snapshot
# ---------------------------------------------------------------------------
def _pairs_replay(n, lit, is_str=False):
    def mk(v):
        elems = [v["e0"], v["e1"], v["e2"]][:n]
        if is_str:
            elems = list(standins(bytes(elems))[0])
        script = (f"s := {lit(elems)};\ni := 0;\nfor p in s {{\n    print(p == [i, s[i]]);\n    i += 1;\n}}\n"
                  "print(i);\n")
        return script, _expect_lines(["true"] * n + [str(n)])
    return mk


def _pairs_list_snapshot_replay(n):
    def mk(v):
        elems = [v["e0"], v["e1"], v["e2"]][:n]
        x = seed_int(v["extra"])
        # the body mutates the iterated list: element 0 overwritten, one element appended per iteration
        script = (f"s := {seed_list(elems)};\nt := {seed_list(elems)};\ni := 0;\n"
                  f"for p in s {{\n    print(p == [i, t[i]]);\n    s[0] = {x};\n    s += [{x}];\n    i += 1;\n}}\n"
                  "print(i);\n")
        return script, _expect_lines(["true"] * n + [str(n)])
    return mk


def _pairs_object_replay(v):
    script = (f"o := {{\"b\": {seed_int(v['vb'])}, \"a\": {seed_int(v['va'])}}};\n"
              "for p in o {\n    print(p[0]);\n}\n"
              f"for p in o {{\n    print(p[1] == o[p[0]]);\n}}\n")
    return script, _expect_lines(["a", "b", "true", "true"])


def _not_iterable_replay(v):
    script = f"for p in {seed_int(v['i'])} {{\n    print(p);\n}}\n"
    return script, _expect_error()


PAIRS_FN = ["eval::value_to_pairs"]
C07_LEAF_UNITS = []
for _k in ("null", "bool", "int", "func"):   # "builtin": dropped, does not finish in 300 s
    C07_LEAF_UNITS.append(KUnit(f"c07_pairs_{_k}_not_iterable", "eval_pairs", EVAL, PAIRS_FN,
                                inputs=[("i", "i64"), ("b", "bool")],
                                replay=_not_iterable_replay if _k == "int" else None,
                                note="kind proof: this kind is not iterable (payload symbolic where there is one)"))
for _k in ("str", "list", "object"):
    C07_LEAF_UNITS.append(KUnit(f"c07_pairs_empty_{_k}_iterable", "eval_pairs", EVAL, PAIRS_FN,
                                note="kind proof: this kind is iterable; the empty container yields no pairs"))
for _n in (1, 2, 3):
    C07_LEAF_UNITS.append(KUnit(f"c07_pairs_str_len{_n}", "eval_pairs", EVAL, PAIRS_FN, kind="bounded",
                                bound="string length <= 3 (one harness per length), bytes symbolic",
                                inputs=[("e0", "u8"), ("e1", "u8"), ("e2", "u8")],
                                replay=_pairs_replay(_n, lambda e: seed_str(bytes(e)), True)))
for _n in (1, 2, 3):
    C07_LEAF_UNITS.append(KUnit(f"c07_pairs_list_len{_n}", "eval_pairs", EVAL, PAIRS_FN, kind="bounded",
                                bound="list length <= 3 (one harness per length), elements Int (payloads symbolic)",
                                inputs=[("e0", "i64"), ("e1", "i64"), ("e2", "i64"), ("extra", "i64")],
                                replay=_pairs_list_snapshot_replay(_n)))
# c07_pairs_object_ascending_keys: dropped (2-key object > 12 GB); see REPORT_eval_leaf.md


UNITS = {
    "C06": C06_LEAF_UNITS,
    "C10": C10_UNITS,
    "C11": C11_UNITS,
    "C07": C07_LEAF_UNITS,
}
