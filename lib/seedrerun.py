#!/usr/bin/env python3
"""Re-run checks against kept seeded changes: seedrerun.py [--checks C07,C13] [dir ...]
Applies /verif/seeded/<id>/patch.diff to /repo, runs the checks (default: the property the change
targets), undoes it (git checkout -- .) and records the outcome in meta.json["detection"]."""
import argparse, glob, json, os, subprocess, sys, time
VERIF = os.path.dirname(os.path.dirname(os.path.abspath(__file__)))
ap = argparse.ArgumentParser()
ap.add_argument("--checks", default=None)
ap.add_argument("--lane", default=None, help="apply the patch to a pristine private copy of /repo's HEAD (SEED_REPO) instead of /repo itself; results replace meta['checks']")
ap.add_argument("dirs", nargs="*")
a = ap.parse_args()
dirs = [os.path.abspath(x) for x in a.dirs] or sorted(glob.glob(os.path.join(VERIF, "seeded", "*")))
if not a.lane and subprocess.run("git status --porcelain", shell=True, cwd="/repo", capture_output=True, text=True).stdout.strip():
    print("REFUSING: /repo not clean"); sys.exit(2)
for d in dirs:
    meta = json.load(open(os.path.join(d, "meta.json")))
    checks = (a.checks or meta["property"]).split(",")
    target = "/repo"
    cenv = dict(os.environ)
    if a.lane:
        target = f"/var/tmp/lane-{a.lane}/repo"
        os.makedirs(target, exist_ok=True)
        subprocess.run(f"find {target} -mindepth 1 -maxdepth 1 ! -name target -exec rm -rf {{}} + ; git -C /repo archive HEAD | tar -x -C {target}", shell=True)
        cenv["SEED_REPO"] = target
        cenv["SEED_VERIF_SCRATCH"] = f"/var/tmp/lane-{a.lane}/scratch"
        cenv.setdefault("SEED_VERIF_JOBS", "6")
    r = subprocess.run(["git", "apply", os.path.join(d, "patch.diff")], cwd=target, capture_output=True, text=True)
    if r.returncode != 0:
        print(os.path.basename(d), "patch no longer applies"); continue
    try:
        if a.lane:
            meta.setdefault("checks", {}).update(meta.pop("detection", {}))      # keep the latest recorded outcome of the checks not re-run now
            meta["what_i_ran"] = ("confirmed earlier in the sub-agent's scratch worktree (applies, builds, 339 tests pass, demo differs); this run: patch applied to a pristine "
                                  "copy of /repo's HEAD handed to the checks as SEED_REPO; ./check <ids> --tier quick")
        det = meta.setdefault("checks" if a.lane else "detection", {})
        for c in checks:
            t0 = time.time()
            p = subprocess.run([os.path.join(VERIF, "check"), c, "--tier", "quick"], cwd=VERIF, capture_output=True, text=True, env=cenv)
            lines = [l for l in p.stdout.splitlines() if l.startswith(("VIOLATION", "OK"))]
            det[c] = {"exit": p.returncode, "lines": [l[:400] for l in lines][:6], "undecided": [l[:300] for l in p.stderr.splitlines() if l.startswith("UNDECIDED")][:3], "wall_s": round(time.time() - t0, 1)}
            print(os.path.basename(d), c, {0: "MISSED", 1: "DETECTED", 2: "UNDECIDED"}.get(p.returncode, p.returncode))
    finally:
        if not a.lane:
            subprocess.run("git checkout -- .", shell=True, cwd="/repo")
    json.dump(meta, open(os.path.join(d, "meta.json"), "w"), indent=1)
