#!/usr/bin/env python3
"""Write /verif/seeded/SUMMARY.md from the meta.json files (latest recorded run of each check)."""
import glob, json, os
VERIF = os.path.dirname(os.path.dirname(os.path.abspath(__file__)))
rows = []
for d in sorted(glob.glob(os.path.join(VERIF, "seeded", "*"))):
    mp = os.path.join(d, "meta.json")
    if not os.path.isfile(mp):
        continue
    m = json.load(open(mp))
    res = dict(m.get("checks", {}))
    res.update(m.get("detection", {}))
    cells = []
    for c in sorted(res):
        ex = res[c].get("exit")
        cells.append(f"{c}: " + {0: "missed", 1: "DETECTED", 2: "undecided"}.get(ex, str(ex)))
    notes = ""
    np = os.path.join(d, "notes.txt")
    what = m.get("what", "")
    if not what and os.path.isfile(np):
        txt = open(np).read().strip().splitlines()
        what = " ".join(txt[:2])[:160]
    obl = []
    for c in sorted(res):
        for l in res[c].get("lines", []):
            if l.startswith("VIOLATION"):
                import re
                mm = re.search(r"obligations=\[(.*)", l)
                if mm:
                    obl.append(mm.group(1)[:140])
                break
    rows.append((os.path.basename(d), m.get("property"), "; ".join(cells), (obl[0] if obl else ""), what))
with open(os.path.join(VERIF, "seeded", "SUMMARY.md"), "w") as f:
    f.write("# Seeded changes: which check catches which change\n\n")
    f.write("Each change was produced by a fresh sub-agent that saw only the property text and a scratch worktree, then re-confirmed by "
            "`lib/seedtest.py` (applies, builds, 339 tests pass, demo differs).  `DETECTED` = exit 1 with a VIOLATION line; `undecided` = exit 2 "
            "(anchor lost / extracted text rejected / timeout - never an alarm); `missed` = exit 0.\n\n")
    f.write("| change | property | checks run -> outcome | first failed obligation | what the change is |\n|---|---|---|---|---|\n")
    for r in rows:
        f.write("| " + " | ".join(x.replace("|", "\\|").replace("\n", " ") for x in r) + " |\n")
print(f"{len(rows)} rows")
