"""Units of property C16 -- "No implicit conversions: out-of-domain operands are type errors
naming the types".

    from props_c16 import UNITS, GENERATORS

UNITS       one KUnit per Kani harness:
              240  c16_<op>_<lhs kind>_x_<scalar|heap>  eval_matrix.rs (GENERATED)  eval::apply_binary_operation
                   (4 rhs cells each: 15 operators x 8 lhs kinds x 8 rhs kinds = 960 cells)
               32  c16_to_<bool|i64|index|str>_<kind>  eval_coerce.rs            eval::eval_expr_to_*
                8  c16_typename_<kind>              typefn_names.rs             render_type x2, any_type
GENERATORS  scripts the driver must run before building, so that generated harness files are fresh.

Replay: every unit carries a `replay(values)` that turns the cell (and, where they matter, the
scalar payloads of Kani's counterexample) into a Seed script for the real interpreter binary and a
judge `(rc, stdout, stderr) -> reason-or-None`.
"""
import importlib.util
import os
import re

from kani_engine import KUnit
from common import seed_int

_HERE = os.path.dirname(os.path.abspath(__file__))
_GEN = os.path.join(os.path.dirname(_HERE), "kani", "gen_matrix.py")

GENERATORS = ["/verif/kani/gen_matrix.py"]

_spec = importlib.util.spec_from_file_location("c16_gen_matrix", _GEN)
gen_matrix = importlib.util.module_from_spec(_spec)
_spec.loader.exec_module(gen_matrix)

EVAL = "src/eval/mod.rs"
TYPEFN = "src/builtins/type_functions.rs"

KINDS = gen_matrix.KINDS
TYPE_NAME = gen_matrix.TYPE_NAME

# If True, every cell that has a non-scalar operand (string of one byte, empty list, empty object,
# function with empty body, builtin) is labelled "bounded".  If False (default) only the cells whose
# documented result depends on the *contents* of the operands are labelled "bounded"; the other
# cells' clauses are about the dispatch on the operands' constructors only.
STRICT_BOUNDS = False

SHAPES = "strings of one (symbolic) byte; lists and objects empty; functions with an empty body and empty closure"


# ---------------------------------------------------------------------------------------------
# Seed source text for a value of a kind
# ---------------------------------------------------------------------------------------------
def seed_str_byte(b):
    if b is None:
        return '"s"'
    if 0x20 <= b < 0x7f and chr(b) not in '"\\$':
        return '"' + chr(b) + '"'
    raise ValueError(f"byte {b} has no plain Seed string literal")


def seed_value(kind, payload=None):
    if kind == "null":
        return "null"
    if kind == "bool":
        return "true" if (payload is None or payload) else "false"
    if kind == "int":
        return seed_int(1 if payload is None else payload)
    if kind == "string":
        return seed_str_byte(payload)
    if kind == "list":
        return "[]"
    if kind == "object":
        return "{}"
    if kind == "func":
        return "(fn() { })"
    if kind == "builtin":
        return "print"
    raise ValueError(kind)


def _crashed(rc):
    if rc not in (0, 103):
        return f"interpreter crashed or aborted (exit {rc}) instead of completing or reporting a diagnostic"
    return None


def _names_in_order(err, *names):
    """the quoted names appear in this order in the diagnostic"""
    pat = ".*".join(re.escape(f"'{n}'") for n in names)
    return re.search(pat, err, re.S) is not None


# ---------------------------------------------------------------------------------------------
# operator matrix
# ---------------------------------------------------------------------------------------------
def matrix_script(sym, lk, rk, a=None, b=None):
    return f"print({seed_value(lk, a)} {sym} {seed_value(rk, b)});\n"


def matrix_judge(op, sym, lk, rk):
    dom = gen_matrix.domain(op, lk, rk)
    lt, rt = TYPE_NAME[lk], TYPE_NAME[rk]

    def judge(rc, out, err):
        c = _crashed(rc)
        if c:
            return c
        if dom is None:
            if rc == 0:
                return (f"`{lt} {sym} {rt}` is outside the documented domain of `{sym}` but was evaluated "
                        f"(printed {out.strip()!r}) instead of stopping with a type diagnostic")
            if not _names_in_order(err, sym, lt, rt):
                return (f"the diagnostic for `{lt} {sym} {rt}` does not name the operator and both operand "
                        f"types in order: {err.strip()!r}")
            return None
        # in domain
        if rc == 103:
            if _names_in_order(err, sym, lt, rt):
                return f"`{lt} {sym} {rt}` is in the documented domain of `{sym}` but was rejected: {err.strip()!r}"
            if dom != "int":
                return f"`{lt} {sym} {rt}` is in the documented domain of `{sym}` but failed: {err.strip()!r}"
            return None      # arithmetic result outside 64 bits / undefined quotient (C06)
        o = out.strip()
        if dom == "bool" and o not in ("true", "false"):
            return f"`{lt} {sym} {rt}` must give a bool, printed {o!r}"
        if dom == "int" and not re.fullmatch(r"-?\d+", o):
            return f"`{lt} {sym} {rt}` must give an int, printed {o!r}"
        return None
    return judge


def matrix_replay(op, sym, lk, rks):
    """A harness covers 4 rhs cells.  The replay runs the script of every cell of the harness on the
    real binary (payloads from the counterexample where Kani gave them) and hands back the first cell
    whose outcome contradicts the property -- or the first cell if none does."""
    def mk(values):
        cells = []
        for i, rk in enumerate(rks):
            try:
                script = matrix_script(sym, lk, rk, values.get(f"a{i}"), values.get(f"b{i}"))
            except ValueError:
                script = matrix_script(sym, lk, rk)      # payload has no literal: default payload
            cells.append((script, matrix_judge(op, sym, lk, rk)))
        try:
            from common import build_real_binary, run_script
            binary = build_real_binary()
            for script, judge in cells:
                rc, so, se = run_script(binary, script, name="c16-probe.sd")
                if judge(rc, so, se):
                    return script, judge
        except Exception:      # no binary: fall through, the engine reports its own failure to build
            pass
        return cells[0]
    return mk


def matrix_kind(op, lk, rks):
    scalar = ("null", "bool", "int")
    if STRICT_BOUNDS:
        return "proof" if (lk in scalar and all(rk in scalar for rk in rks)) else "bounded"
    # cells whose documented result depends on the *contents* of the operands
    content_dependent = any(
        gen_matrix.domain(op, lk, rk) is not None and op in ("Sum", "Eq", "Ne") and lk in ("string", "list", "object")
        for rk in rks)
    return "bounded" if content_dependent else "proof"


def matrix_units():
    us = []
    for (optag, op, sym, lk, group, rks) in gen_matrix.harnesses():
        kind = matrix_kind(op, lk, rks)
        descr = []
        for rk in rks:
            dom = gen_matrix.domain(op, lk, rk)
            descr.append(f"{lk} {sym} {rk}: " + (f"in domain -> {dom}" if dom else "type diagnostic"))
        us.append(KUnit(
            gen_matrix.harness_name(optag, lk, group), "eval_matrix", EVAL,
            [f"eval::apply_binary_operation ({op}; " + "; ".join(descr) + ")"],
            kind=kind,
            bound=(SHAPES if kind == "bounded" else None),
            inputs=gen_matrix.inputs_for(lk, rks, op),
            replay=matrix_replay(op, sym, lk, rks),
            note=("operand kinds concrete, scalar payloads full-domain symbolic; non-scalar operands are "
                  "represented by " + SHAPES),
        ))
    return us


# ---------------------------------------------------------------------------------------------
# typed coercion points (eval_expr stubbed by a one-kind stub; contract chaining)
# ---------------------------------------------------------------------------------------------
COERCE = {
    # fn tag: (function, accepted kind, expected type name, script template)
    "bool": ("eval::eval_expr_to_bool", "bool", "bool", "if {v} {{ }}\n"),
    "i64": ("eval::eval_expr_to_i64", "int", "int", "print(0 .. {v});\n"),
    "index": ("eval::eval_expr_to_index", "int", "int", "xs := [1, 2];\nprint(xs[{v}]);\n"),
    "str": ("eval::eval_expr_to_str", "string", "string", "print({{{v}: 1}});\n"),
}
_PAYLOAD = {"bool": ("b", "bool"), "int": ("n", "i64"), "string": ("b", "u8")}


def coerce_replay(tag, kind):
    _fn, accepted, exp, tmpl = COERCE[tag]

    def mk(values):
        pname = _PAYLOAD.get(kind, (None, None))[0]
        payload = values.get(pname) if pname else None
        script = tmpl.format(v=seed_value(kind, payload))

        def judge(rc, out, err):
            c = _crashed(rc)
            if c:
                return c
            if kind != accepted:
                if rc == 0:
                    return f"a '{TYPE_NAME[kind]}' was accepted where '{exp}' is required (implicit conversion)"
                if not _names_in_order(err, exp, TYPE_NAME[kind]):
                    return f"the diagnostic does not name the expected and the actual type: {err.strip()!r}"
                return None
            if tag == "index" and payload is not None and payload < 0:
                if rc == 0:
                    return f"negative index {payload} was accepted"
                return None
            if rc == 103 and _names_in_order(err, exp):
                return f"a '{exp}' was rejected where '{exp}' is required: {err.strip()!r}"
            return None
        return script, judge
    return mk


def coerce_units():
    us = []
    for tag in ("bool", "i64", "index", "str"):
        fn, accepted, _exp, _tmpl = COERCE[tag]
        for kind in KINDS:
            ins = [("l", "usize"), ("c", "usize")]
            if kind in _PAYLOAD:
                ins.append(_PAYLOAD[kind])
            bounded = (kind == "string" and accepted == "string") or (STRICT_BOUNDS and kind not in ("null", "bool", "int"))
            us.append(KUnit(
                f"c16_to_{tag}_{kind}", "eval_coerce", EVAL,
                [f"{fn} (operand kind {kind}; callee eval::eval_expr replaced by its one-kind stub)"],
                kind="bounded" if bounded else "proof",
                bound=(SHAPES if bounded else None),
                inputs=ins,
                replay=coerce_replay(tag, kind),
                chain_cover="chain_callee_evaluated_once",
                note="contract chaining: eval_expr is stubbed (kani::stub) and returns Ok(value of this kind)",
            ))
    return us


# ---------------------------------------------------------------------------------------------
# type names
# ---------------------------------------------------------------------------------------------
def typename_replay(kind):
    def mk(values):
        script = f"print({seed_value(kind, values.get('p'))}->type());\n"

        def judge(rc, out, err):
            c = _crashed(rc)
            if c:
                return c
            if kind == "null":
                if rc == 0:
                    return "`null->type()` is documented as undefined but was evaluated"
                return None
            if rc != 0:
                return f"`->type()` is not defined for a '{TYPE_NAME[kind]}' value: {err.strip()!r}"
            if out.strip() != TYPE_NAME[kind]:
                return f"`->type()` of a {kind} value printed {out.strip()!r}, documented name is '{TYPE_NAME[kind]}'"
            return None
        return script, judge
    return mk


def typename_units():
    us = []
    for kind in KINDS:
        fns = ["builtins::type_functions::render_type", "eval::error::render_type"]
        if kind not in ("null", "func"):
            fns.append("builtins::type_functions::any_type")
        ins = {"bool": [("p", "bool")], "int": [("p", "i64")], "string": [("p", "u8")]}.get(kind, [])
        us.append(KUnit(
            f"c16_typename_{kind}", "typefn_names", TYPEFN, fns,
            kind="bounded" if (STRICT_BOUNDS and kind not in ("null", "bool", "int")) else "proof",
            bound=(SHAPES if (STRICT_BOUNDS and kind not in ("null", "bool", "int")) else None),
            inputs=ins,
            replay=typename_replay(kind),
            note=("any_type not exercised for this kind: " +
                  ("`null->type()` is undefined" if kind == "null" else
                   "a reachable drop of a user-function value does not terminate in CBMC; covered by the builtin kind"))
            if kind in ("null", "func") else "",
        ))
    return us


MATRIX_UNITS = matrix_units()
COERCE_UNITS = coerce_units()
TYPENAME_UNITS = typename_units()
UNITS = MATRIX_UNITS + COERCE_UNITS + TYPENAME_UNITS


def self_test(binary):
    """Run every replay script with default payloads on an interpreter binary and return the list of
    (unit, reason) the judges object to.  On a correct interpreter this list is empty."""
    from common import run_script
    bad = []
    for (optag, op, sym, lk, group, rks) in gen_matrix.harnesses():
        for rk in rks:
            script, judge = matrix_script(sym, lk, rk), matrix_judge(op, sym, lk, rk)
            rc, so, se = run_script(binary, script, name="c16-selftest.sd")
            why = judge(rc, so, se)
            if why:
                bad.append((gen_matrix.harness_name(optag, lk, group), why))
    for u in COERCE_UNITS + TYPENAME_UNITS:
        script, judge = u.replay({})
        rc, so, se = run_script(binary, script, name="c16-selftest.sd")
        why = judge(rc, so, se)
        if why:
            bad.append((u.harness, why))
    return bad


if __name__ == "__main__":
    import sys
    print(f"{len(UNITS)} units: {len(MATRIX_UNITS)} matrix, {len(COERCE_UNITS)} coercion, {len(TYPENAME_UNITS)} type-name; "
          f"{sum(1 for u in UNITS if u.kind == 'proof')} proof, {sum(1 for u in UNITS if u.kind != 'proof')} bounded")
    if len(sys.argv) > 1:
        for h, why in self_test(sys.argv[1]):
            print("REPLAY OBJECTS:", h, why)
