"""Engine K: Kani contract harnesses run on a byte-identical copy of /repo's working tree.

A unit (KUnit) is one harness = one function contract: symbolic full-domain inputs, the call to
the real function, the postcondition as named assertions, covers for vacuity.  A FAILED named
assertion or a FAILED Kani default check (panic, overflow, division by zero, OOB, unwinding
assertion) is a verifier verdict -> violation.  Timeout / crash / compile error -> undecided."""
import json
import os
import re

from common import (WORK, SCRATCH, VERIF, Undecided, log, run, sync_work, build_real_binary,
                    run_script, env_offline)

KANI_DIR = os.path.join(VERIF, "kani")


class KUnit:
    def __init__(self, harness, mod, anchor, functions, kind="proof", bound=None, inputs=None,
                 replay=None, note="", must_cover=None, chain_cover=None):
        self.harness = harness          # fn name of the #[kani::proof]
        self.mod = mod                  # file stem under /verif/kani
        self.anchor = anchor            # /repo source file the module is attached to
        self.functions = functions      # functions under contract (names in /repo)
        self.kind = kind                # "proof" | "bounded"
        self.bound = bound              # text of the bound for bounded units
        self.inputs = inputs or []      # [(name, type)] in kani::any() order, for counterexample decoding
        self.replay = replay            # fn(values dict) -> (script text, judge fn(rc,out,err)->str|None)
        self.note = note
        self.chain_cover = chain_cover  # cover name which, if unsatisfied, means "contract chain lost" (undecided)

    @property
    def mod_name(self):
        return "verif_kani_" + self.mod


def injections_for(units):
    inj = {}
    for u in units:
        lst = inj.setdefault(u.anchor, [])
        ent = (u.mod_name, os.path.join(KANI_DIR, u.mod + ".rs"))
        if ent not in lst:
            lst.append(ent)
    return inj


def named_obligations(mod):
    """Names of the contract clauses (assert!/cover! messages) in a harness file, for evidence."""
    p = os.path.join(KANI_DIR, mod + ".rs")
    txt = open(p).read()
    return sorted(set(re.findall(r'"([a-zA-Z0-9_\[\]<>=!.,:|&+*/%-]+)"\s*\)', txt)))


def scan_assumptions(mods):
    """Mechanical scan: every kani::assume / kani::stub in the harness files used."""
    out = []
    for m in sorted(set(mods)):
        p = os.path.join(KANI_DIR, m + ".rs")
        for i, line in enumerate(open(p), 1):
            s = line.strip()
            if s.startswith("//"):
                continue
            if "kani::assume" in s or "kani::stub(" in s:
                out.append(f"kani/{m}.rs:{i}: {s}")
    return out


def _decode(ty, bs):
    n = int.from_bytes(bytes(bs), "little", signed=False)
    bits = 8 * len(bs)
    if ty in ("i64", "i32", "i8", "i16", "isize", "i128"):
        if n >= 1 << (bits - 1):
            n -= 1 << bits
        return n
    if ty == "bool":
        return bool(n & 1)
    if ty == "char":
        try:
            return chr(n)
        except ValueError:
            return n
    return n


def run_kani(units, per_harness_timeout=300, jobs=16):
    """Build + verify.  Returns dict harness -> result."""
    if not units:
        return {}
    jobs = int(os.environ.get("SEED_VERIF_JOBS", jobs))      # development only: several checks side by side
    sync_work(injections_for(units))
    out_json = os.path.join(SCRATCH, "kani-out.json")
    if os.path.exists(out_json):
        os.remove(out_json)
    cmd = ["cargo", "kani", "-Z", "stubbing", "-Z", "function-contracts", "-Z", "unstable-options",
           "-j", str(jobs), "--output-format", "terse",
           "--harness-timeout", f"{per_harness_timeout}s", "--export-json", out_json, "--exact"]
    for u in units:
        cmd += ["--harness", harness_path(u)]
    total_to = 600 + per_harness_timeout * (1 + len(units) // max(1, jobs // 2))
    rc, out, secs, timed_out = run(cmd, cwd=WORK, timeout=total_to)
    # (run() starts cargo kani in its own session and kills that whole process group on timeout,
    #  so no cbmc of ours survives; never pkill globally - other checks may be running)
    results = {}
    if timed_out:
        raise Undecided(f"cargo kani overall timeout after {secs:.0f}s")
    if not os.path.isfile(out_json):
        # compile error (signature changed, anchor lost) or tool crash
        tail = "\n".join(l for l in out.splitlines() if not l.startswith("warning"))[-3000:]
        raise Undecided("cargo kani produced no result (harness does not compile against /repo or tool crash):\n" + tail)
    data = json.load(open(out_json))
    by_id = {}
    for r in data.get("verification_results", {}).get("results", []):
        by_id[r["harness_id"]] = r
    err_by = {e["harness_id"]: e for e in data.get("error_details", [])}
    cb_by = {e["harness_id"]: e for e in data.get("cbmc", [])}
    for u in units:
        hid = harness_path(u)
        r = by_id.get(hid)
        if r is None:
            results[u.harness] = {"status": "MISSING", "detail": "harness not found in Kani output"}
            continue
        checks = r.get("checks") or []
        err = err_by.get(hid, {})
        stats = (cb_by.get(hid) or {}).get("cbmc_stats") or {}
        res = {
            "status": r.get("status"),
            "duration_s": (r.get("duration_ms") or 0) / 1000.0,
            "solver_s": stats.get("runtime_solver_s"),
            "symex_s": stats.get("runtime_symex_s"),
            "exit_status": err.get("exit_status"),
            "passed": 0, "failed": [], "undetermined": 0, "unreachable": 0,
            "covers_sat": [], "covers_unsat": [],
        }
        for c in checks:
            st = c.get("status")
            cat = c.get("category") or ""
            desc = c.get("description") or ""
            if cat == "cover" or st in ("Satisfied", "Unsatisfiable", "Covered", "Uncovered"):
                if st in ("Satisfied", "Covered"):
                    res["covers_sat"].append(desc)
                else:
                    res["covers_unsat"].append(desc)
                continue
            if st == "Success":
                res["passed"] += 1
            elif st == "Failure":
                loc = c.get("location") or {}
                res["failed"].append({"description": desc, "function": c.get("function"),
                                      "category": cat,
                                      "location": f"{loc.get('file')}:{loc.get('line')}"})
            elif st == "Unreachable":
                res["unreachable"] += 1
            else:
                res["undetermined"] += 1
        if res["exit_status"] == "timeout" or (not checks and res["status"] != "Success"):
            res["status"] = "TIMEOUT" if res["exit_status"] == "timeout" else "ERROR"
        results[u.harness] = res
    return results


def harness_path(u):
    # module path of the harness inside the crate, from the anchor file
    rel = u.anchor[len("src/"):-len(".rs")]
    parts = rel.split("/")
    if parts[-1] in ("mod", "main"):
        parts = parts[:-1]
    return "::".join(parts + [u.mod_name, u.harness])


def counterexample(u, timeout=600):
    """Re-run one failed harness with concrete playback; returns list of dicts name->value (one per failed check)."""
    cmd = ["cargo", "kani", "-Z", "stubbing", "-Z", "function-contracts", "-Z", "concrete-playback",
           "--concrete-playback=print", "--output-format", "terse", "--exact", "--harness", harness_path(u)]
    rc, out, secs, to = run(cmd, cwd=WORK, timeout=timeout)
    cexs = []
    for m in re.finditer(r"/// Check for `[^`]*`: \"(.*?)\"\n(.*?)kani::concrete_playback_run", out, re.S):
        check = m.group(1)
        vecs = re.findall(r"vec!\[([0-9, ]*)\],", m.group(2))
        vals = {}
        raw = []
        for i, v in enumerate(vecs):
            bs = [int(x) for x in v.split(",") if x.strip()]
            raw.append(bs)
            if i < len(u.inputs):
                name, ty = u.inputs[i]
                vals[name] = _decode(ty, bs)
        cexs.append({"check": check, "values": vals, "raw": raw})
    return cexs, out


def replay_failure(pid, u, res):
    """Build the replay text for a failed unit; returns (text, reproduced: bool)."""
    lines = [f"property: {pid}", f"unit: Kani harness {harness_path(u)} (file /verif/kani/{u.mod}.rs)",
             f"functions under contract: {', '.join(u.functions)}", "failed obligations:"]
    for f in res["failed"]:
        lines.append(f"  - {f['description']}   [{f['category']}] in {f['function']} at {f['location']}")
    reproduced = False
    try:
        cexs, raw_out = counterexample(u)
    except Undecided as e:
        cexs, raw_out = [], str(e)
    if not cexs:
        lines.append("verifier counterexample: none extracted")
        lines.append("--- verifier output (tail) ---")
        lines.append(raw_out[-3000:])
    binary = None
    for cx in cexs:
        lines.append(f"counterexample for '{cx['check']}': {cx['values']}  raw={cx['raw']}")
        if u.replay and cx["values"]:
            try:
                cands = u.replay(cx["values"])
            except Exception as e:  # template cannot express these values
                lines.append(f"  replay template not applicable: {e}")
                continue
            if isinstance(cands, tuple):          # one (script, judge) pair, or a list of pairs
                cands = [cands]
            stop = False
            for script, judge in cands:
                if script is None:
                    continue
                if binary is None:
                    try:
                        binary = build_real_binary()
                    except Undecided as e:
                        lines.append(f"  could not build real binary: {e}")
                        stop = True
                        break
                rc, so, se = run_script(binary, script)
                verdict = judge(rc, so, se)
                lines.append("  replay script (run on the real binary built from /repo's working tree):")
                for l in script.splitlines():
                    lines.append("    | " + l)
                lines.append(f"  exit status: {rc}")
                lines.append(f"  stdout: {so!r}")
                lines.append(f"  stderr: {se!r}")
                if verdict:
                    lines.append(f"  REPRODUCED on the real binary: {verdict}")
                    reproduced = True
                else:
                    lines.append("  not reproduced by this script")
            if stop:
                break
    return "\n".join(lines) + "\n", reproduced
