#!/usr/bin/env python3
"""Confirm a seeded change and run the checks against it.

usage: seedtest.py <PID> <out-dir> <worktree> [--checks C07,C17,...] [--only k]

For each change<k>.diff in <out-dir>:
  1. in the scratch worktree: apply, cargo build, full test suite (must be 339 passed), run the demo
     with and without the change (must differ; must match expected without);
  2. apply to /repo's working tree, run the listed checks (quick tier), undo (git checkout -- .);
  3. keep it as /verif/seeded/<PID>-<k>/ {patch.diff, demo.sd, expected.txt, notes.txt, meta.json}.
Nothing is ever committed to /repo."""
import argparse
import glob
import json
import os
import re
import shutil
import subprocess
import sys
import time

VERIF = os.path.dirname(os.path.dirname(os.path.abspath(__file__)))
REPO = "/repo"


def sh(cmd, cwd=None, timeout=3600, env=None):
    p = subprocess.run(cmd, cwd=cwd, shell=isinstance(cmd, str), capture_output=True, text=True, timeout=timeout, env=env)
    return p.returncode, p.stdout, p.stderr


def run_demo(wt, demo):
    e = dict(os.environ)
    e["RUST_BACKTRACE"] = "0"
    shutil.copy(demo, os.path.join(wt, "__demo.sd"))
    try:
        p = subprocess.run(["./target/debug/seed", "__demo.sd"], cwd=wt, capture_output=True, text=True, timeout=30, env=e)
        return p.returncode, p.stdout, p.stderr
    except subprocess.TimeoutExpired:
        return -9, "", "<timeout>"
    finally:
        os.remove(os.path.join(wt, "__demo.sd"))


def main():
    ap = argparse.ArgumentParser()
    ap.add_argument("pid")
    ap.add_argument("outdir")
    ap.add_argument("worktree")
    ap.add_argument("--checks", default=None)
    ap.add_argument("--only", default=None)
    ap.add_argument("--lane", default=None, help="run the checks against a private copy of /repo (SEED_REPO) with a private scratch, "
                                                 "so several seeds can be processed side by side; /repo itself is not touched")
    a = ap.parse_args()
    checks = (a.checks or a.pid).split(",")
    wt = a.worktree
    rc, out, err = sh("git status --porcelain", cwd=REPO)
    if out.strip():
        print("REFUSING: /repo working tree is not clean:\n" + out)
        return 2
    for diff in sorted(glob.glob(os.path.join(a.outdir, "change*.diff"))):
        k = re.search(r"change(\d+)\.diff", diff).group(1)
        if a.only and k != a.only:
            continue
        demo = os.path.join(a.outdir, f"change{k}_demo.sd")
        exp = os.path.join(a.outdir, f"change{k}_expected.txt")
        notes = os.path.join(a.outdir, f"change{k}_notes.txt")
        meta = {"property": a.pid, "change": k, "confirmed": {}, "checks": {}}
        done = os.path.join(VERIF, "seeded", f"{a.pid}-{k}", "meta.json")
        if os.path.isfile(done) and time.time() - os.path.getmtime(done) < 6 * 3600 and not os.environ.get("SEEDTEST_REDO"):
            print(f"=== {a.pid} change {k}: processed less than 6 h ago, skipped (SEEDTEST_REDO=1 to force)")
            continue
        print(f"=== {a.pid} change {k}")
        # ---- 1. confirm in the scratch worktree
        sh("git checkout -- .", cwd=wt)
        rc, _, _ = sh("cargo build --offline", cwd=wt)
        base = run_demo(wt, demo)
        rc, out, err = sh(f"git apply {diff}", cwd=wt)
        if rc != 0:
            print("  patch does not apply:", err[:300])
            meta["confirmed"]["applies"] = False
            continue
        meta["confirmed"]["applies"] = True
        rc, out, err = sh("cargo build --offline", cwd=wt)
        meta["confirmed"]["builds"] = rc == 0
        rc, out, err = sh("cargo test --offline 2>&1 | grep -E '^test result' ", cwd=wt)
        passed = sum(int(x) for x in re.findall(r"(\d+) passed", out))
        failed = sum(int(x) for x in re.findall(r"(\d+) failed", out))
        meta["confirmed"]["tests_passed"] = passed
        meta["confirmed"]["tests_failed"] = failed
        mut = run_demo(wt, demo)
        sh("git checkout -- .", cwd=wt)
        sh("cargo build --offline", cwd=wt)
        meta["confirmed"]["demo_unchanged"] = {"rc": base[0], "stdout": base[1][:2000], "stderr": base[2][:500]}
        meta["confirmed"]["demo_with_change"] = {"rc": mut[0], "stdout": mut[1][:2000], "stderr": mut[2][:500]}
        meta["confirmed"]["demo_differs"] = (base[0], base[1]) != (mut[0], mut[1]) or base[2] != mut[2]
        ok = meta["confirmed"]["builds"] and passed == 339 and failed == 0 and meta["confirmed"]["demo_differs"]
        print(f"  confirmed: builds={meta['confirmed']['builds']} tests={passed} passed/{failed} failed demo_differs={meta['confirmed']['demo_differs']} -> {'KEEP' if ok else 'REJECT'}")
        if not ok:
            continue
        # ---- 2. run the checks against /repo with the change applied
        target = REPO
        cenv = dict(os.environ)
        if a.lane:
            target = f"/var/tmp/lane-{a.lane}/repo"
            os.makedirs(target, exist_ok=True)
            # a pristine copy of /repo's HEAD (NOT of its working tree: another run may have a seeded patch applied there right now)
            sh(f"find {target} -mindepth 1 -maxdepth 1 ! -name target -exec rm -rf {{}} + ; git -C {REPO} archive HEAD | tar -x -C {target}")
            cenv["SEED_REPO"] = target
            cenv["SEED_VERIF_SCRATCH"] = f"/var/tmp/lane-{a.lane}/scratch"
            cenv.setdefault("SEED_VERIF_JOBS", "6")
        rc, out, err = sh(f"git apply {diff}", cwd=target)
        if rc != 0:
            print("  does not apply to /repo:", err[:300])
            continue
        try:
            for c in checks:
                t0 = time.time()
                rc, out, err = sh([os.path.join(VERIF, "check"), c, "--tier", "quick"], cwd=VERIF, timeout=5400, env=cenv)
                lines = [l for l in out.splitlines() if l.startswith(("VIOLATION", "OK", "KNOWN-FINDING"))]
                und = [l for l in err.splitlines() if l.startswith("UNDECIDED")]
                meta["checks"][c] = {"exit": rc, "lines": lines, "undecided": und[:5], "wall_s": round(time.time() - t0, 1)}
                verdict = {0: "MISSED (exit 0)", 1: "DETECTED", 2: "UNDECIDED (exit 2)"}.get(rc, f"exit {rc}")
                print(f"  check {c}: {verdict}")
                for l in lines[:4]:
                    print("     ", l[:300])
                for l in und[:2]:
                    print("     ", l[:300])
        finally:
            if not a.lane:
                sh("git checkout -- .", cwd=REPO)
        # ---- 3. keep
        d = os.path.join(VERIF, "seeded", f"{a.pid}-{k}")
        os.makedirs(d, exist_ok=True)
        shutil.copy(diff, os.path.join(d, "patch.diff"))
        shutil.copy(demo, os.path.join(d, "demo.sd"))
        if os.path.isfile(exp):
            shutil.copy(exp, os.path.join(d, "expected.txt"))
        if os.path.isfile(notes):
            shutil.copy(notes, os.path.join(d, "notes.txt"))
        meta["what_i_ran"] = ("scratch worktree: git apply; cargo build --offline; cargo test --offline (339 passed); demo with/without; "
                              "then git -C /repo apply; ./check <ids> --tier quick; git -C /repo checkout -- ."
                              + (" (this run: the patch was applied to a private copy of /repo's working tree passed to the check as SEED_REPO)" if a.lane else ""))
        with open(os.path.join(d, "meta.json"), "w") as f:
            json.dump(meta, f, indent=1)
    rc, out, err = sh("git status --porcelain", cwd=REPO)
    if out.strip():
        print("WARNING: /repo not clean after run:\n" + out)
    return 0


if __name__ == "__main__":
    sys.exit(main())
