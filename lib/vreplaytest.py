#!/usr/bin/env python3
"""Developer tool: every replay script of every Verus unit must be judged `as the property says` on the
unchanged tree's binary (a replay that misjudges correct code would make a wrong counterexample claim).
usage: vreplaytest.py <seed binary>"""
import importlib, os, subprocess, sys, glob
sys.path.insert(0, os.path.dirname(os.path.abspath(__file__)))
sys.path.insert(0, os.path.join(os.path.dirname(os.path.dirname(os.path.abspath(__file__))), "verus"))
BIN = sys.argv[1]
d = "/var/tmp/vreplaytest"
os.makedirs(d, exist_ok=True)
bad = 0
n = 0
for f in sorted(glob.glob(os.path.join(os.path.dirname(os.path.dirname(os.path.abspath(__file__))), "verus", "*.py"))):
    name = os.path.basename(f)[:-3]
    m = importlib.import_module(name)
    if not hasattr(m, "replays"):
        continue
    for what, script, judge in m.replays([]):
        n += 1
        open(os.path.join(d, "replay.sd"), "w").write(script)
        r = subprocess.run([BIN, "replay.sd"], cwd=d, capture_output=True, timeout=20)
        v = judge(r.returncode, r.stdout.decode("utf-8", "replace"), r.stderr.decode("utf-8", "replace"))
        if v:
            bad += 1
            print(f"MISJUDGED {name}: {what}: {v}\n{script}\n rc={r.returncode}\n{r.stdout.decode()[:300]}\n{r.stderr.decode()[:300]}")
print(f"replays={n} misjudged={bad}")
sys.exit(1 if bad else 0)
