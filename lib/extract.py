"""Mechanical extraction of Rust items from /repo for Engine V.

No logic is rewritten by pattern: items are located by keyword + name, delimited by brace
matching (string / char / comment aware) and copied verbatim.  Every edit that is applied to the
copied text is one of a closed list (D1..D5 in DESIGN.md), is counted, and is printed in the
evidence.  If something cannot be located exactly, Undecided is raised (exit 2), never a verdict."""
import re

from common import Undecided


def _skip_string(s, i):
    """s[i] == '"' (possibly preceded by r/#).  Return index after the closing quote."""
    j = i + 1
    while j < len(s):
        if s[j] == "\\":
            j += 2
            continue
        if s[j] == '"':
            return j + 1
        j += 1
    raise Undecided("unterminated string literal while scanning source")


def _skip_raw_string(s, i):
    # s[i] == 'r', followed by #*"
    j = i + 1
    n = 0
    while s[j] == "#":
        n += 1
        j += 1
    if s[j] != '"':
        return None
    end = s.find('"' + "#" * n, j + 1)
    if end < 0:
        raise Undecided("unterminated raw string")
    return end + 1 + n


def code_positions(s):
    """Yield (index, char) for characters that are code (not in comments / strings / char literals)."""
    i = 0
    n = len(s)
    while i < n:
        c = s[i]
        if c == "/" and i + 1 < n and s[i + 1] == "/":
            j = s.find("\n", i)
            i = n if j < 0 else j
            continue
        if c == "/" and i + 1 < n and s[i + 1] == "*":
            j = s.find("*/", i + 2)
            i = n if j < 0 else j + 2
            continue
        if c == '"':
            i = _skip_string(s, i)
            continue
        if c == "r" and i + 1 < n and s[i + 1] in '#"' and (i == 0 or not (s[i - 1].isalnum() or s[i - 1] == "_")):
            j = _skip_raw_string(s, i)
            if j is not None:
                i = j
                continue
        if c == "'":
            # char literal or lifetime
            m = re.match(r"'(\\.[^']*|[^'\\])'", s[i:])
            if m:
                i += m.end()
                continue
            # lifetime: skip the quote only
            i += 1
            continue
        yield i, c
        i += 1


def match_brace(s, open_idx):
    """Index of the brace matching s[open_idx] ('{', '(' or '[')."""
    op = s[open_idx]
    cl = {"{": "}", "(": ")", "[": "]"}[op]
    depth = 0
    for i, c in code_positions(s[open_idx:]):
        if c == op:
            depth += 1
        elif c == cl:
            depth -= 1
            if depth == 0:
                return open_idx + i
    raise Undecided("unbalanced braces while extracting")


def find_item(src, kind, name):
    """Return (start, end) of item `kind name` (kind in fn/enum/struct/type/impl), including
    leading `pub`/`pub(..)` and excluding attributes and doc comments."""
    code = dict(code_positions(src))
    if kind == "type":
        pat = re.compile(r"(?m)^[ \t]*(pub(\([a-z]+\))?\s+)?type\s+" + re.escape(name) + r"\b")
    elif kind == "macro":
        pat = re.compile(r"(?m)^[ \t]*macro_rules!\s+" + re.escape(name) + r"\b")
    else:
        pat = re.compile(r"(?m)^[ \t]*(pub(\([a-z]+\))?\s+)?" + kind + r"\s+" + re.escape(name) + r"\b")
    hits = [m for m in pat.finditer(src) if m.start() + (len(m.group(0)) - len(m.group(0).lstrip())) in code]
    if len(hits) != 1:
        raise Undecided(f"anchor lost: `{kind} {name}` found {len(hits)} times")
    m = hits[0]
    start = m.start()
    if kind == "type":
        end = src.index(";", m.end()) + 1
        return start, end
    # find the body's opening brace: first code '{' after the header that is at paren-depth 0
    depth = 0
    i = m.end()
    body = None
    for off, c in code_positions(src[i:]):
        if c in "([":
            depth += 1
        elif c in ")]":
            depth -= 1
        elif c == "{" and depth == 0:
            body = i + off
            break
        elif c == ";" and depth == 0:
            return start, i + off + 1
    if body is None:
        raise Undecided(f"no body for `{kind} {name}`")
    end = match_brace(src, body) + 1
    return start, end


def extract_item(src, kind, name):
    a, b = find_item(src, kind, name)
    return src[a:b]


def item_line(src, kind, name):
    a, _ = find_item(src, kind, name)
    return src.count("\n", 0, a) + 1


def strip_attributes(text):
    """D1: remove every `#[...]` attribute (derive/allow/snafu).  Returns (text, count)."""
    out = []
    i = 0
    n = 0
    code = dict(code_positions(text))
    while i < len(text):
        if text[i] == "#" and i in code and i + 1 < len(text) and text[i + 1] == "[":
            j = match_brace(text, i + 1)
            i = j + 1
            # swallow a directly following newline + indentation
            m = re.match(r"[ \t]*\n", text[i:])
            if m:
                i += m.end()
                # also remove the indentation that preceded the attribute
                k = len(out)
                while k > 0 and out[k - 1] in " \t":
                    k -= 1
                del out[k:]
            n += 1
            continue
        out.append(text[i])
        i += 1
    return "".join(out), n


def strip_comments(text):
    """Remove // line comments (cosmetic; keeps extracted files small).  Strings are respected."""
    res = []
    last = 0
    i = 0
    n = len(text)
    while i < n:
        c = text[i]
        if c == '"':
            i = _skip_string(text, i)
            continue
        if c == "'":
            m = re.match(r"'(\\.[^']*|[^'\\])'", text[i:])
            i += m.end() if m else 1
            continue
        if c == "/" and i + 1 < n and text[i + 1] == "/":
            j = text.find("\n", i)
            j = n if j < 0 else j
            res.append(text[last:i].rstrip(" \t"))
            last = j
            i = j
            continue
        i += 1
    res.append(text[last:])
    out = "".join(res)
    return re.sub(r"\n[ \t]*\n([ \t]*\n)+", "\n\n", out)


def rewrite_once(text, old, new, label):
    """D5: exact, site-listed substitution; must match exactly once."""
    c = text.count(old)
    if c != 1:
        raise Undecided(f"rewrite site `{label}` matched {c} times (expected exactly 1)")
    return text.replace(old, new)


def rewrite_regex_once(text, pattern, repl, label):
    """D5 with a hole: the site is given as a regex with capture groups (the captured text is
    copied verbatim into the replacement); must match exactly once."""
    ms = list(re.finditer(pattern, text))
    if len(ms) != 1:
        raise Undecided(f"rewrite site `{label}` matched {len(ms)} times (expected exactly 1)")
    return re.sub(pattern, repl, text, count=1)


def fn_header_body(fn_text):
    """Split a fn item into (header up to and excluding the body's '{', body including braces)."""
    depth = 0
    for i, c in code_positions(fn_text):
        if c in "([":
            depth += 1
        elif c in ")]":
            depth -= 1
        elif c == "{" and depth == 0:
            return fn_text[:i], fn_text[i:]
    raise Undecided("fn without body")


def name_return(header, rname="r"):
    """`-> T` becomes `-> (r: T)` so that the postcondition can name the result."""
    # last top-level "->" in the header
    depth = 0
    pos = None
    for i, c in code_positions(header):
        if c in "([<":
            depth += 1 if c != "<" else 0
        elif c in ")]":
            depth -= 1
        elif c == "-" and header[i + 1:i + 2] == ">" and depth == 0:
            pos = i
    if pos is None:
        return header, False
    ty = header[pos + 2:].strip()
    # drop a trailing where-clause? (none in this code base)
    return header[:pos] + f"-> ({rname}: {ty})\n", True


LOOP_RE = re.compile(r"\b(for|while|loop)\b")


def find_loops(body):
    """Positions (keyword start, '{' index) of loops in body, in textual order."""
    code = dict(code_positions(body))
    res = []
    for m in LOOP_RE.finditer(body):
        if m.start() not in code:
            continue
        kw = m.group(1)
        # header ends at first '{' at depth 0 (struct literals do not occur in loop headers here);
        # for a `for`, braces of the pattern before the `in` keyword are skipped
        depth = 0
        rest = body[m.end():]
        seen_in = kw != "for"
        for off, c in code_positions(rest):
            if not seen_in:
                if c in "([{":
                    depth += 1
                elif c in ")]}":
                    depth -= 1
                elif depth == 0 and re.match(r"\bin\b", rest[off:]) and (off == 0 or not (rest[off - 1].isalnum() or rest[off - 1] == "_")):
                    seen_in = True
                continue
            if c in "([":
                depth += 1
            elif c in ")]":
                depth -= 1
            elif c == "{" and depth == 0:
                res.append((kw, m.start(), m.end() + off))
                break
    return res


def annotate_fn(fn_text, spec="", attrs="", loops=None, body_start="", rname="r"):
    """Insert contract text into a verbatim fn item.
       spec: requires/ensures text placed between header and body.
       loops: {k (1-based): {"binder": "it", "header": "invariant ...", "body_start": "proof {..}", "before": "let ghost ..."}}"""
    loops = loops or {}
    header, body = fn_header_body(fn_text)
    header, _ = name_return(header.rstrip() + "\n", rname)
    found = find_loops(body)
    for k in loops:
        if k < 1 or k > len(found):
            raise Undecided(f"loop #{k} not found (function has {len(found)} loops)")
    # apply from last to first so indices stay valid
    for k in sorted(loops, reverse=True):
        kw, start, brace = found[k - 1]
        ann = loops[k]
        hdr = body[start:brace]
        if ann.get("binder"):
            if kw != "for":
                raise Undecided("binder on non-for loop")
            hdr2 = re.sub(r"\bin\s+", "in " + ann["binder"] + ": ", hdr, count=1)
            if hdr2 == hdr:
                raise Undecided("could not add iterator binder")
            hdr = hdr2
        new = hdr.rstrip() + "\n" + ann.get("header", "") + "\n{" + ("\n" + ann["body_start"] if ann.get("body_start") else "")
        before = (ann["before"] + "\n") if ann.get("before") else ""
        if ann.get("after"):
            close = match_brace(body, brace)
            body = body[:close + 1] + "\n" + ann["after"] + body[close + 1:]
        body = body[:start] + before + new + body[brace + 1:]
    if body_start:
        body = "{\n" + body_start + body[1:]
    if spec.strip():
        # vacuity probe site: the engine re-runs every unit with `assert(false)` here and expects it to FAIL
        # (if it were provable, the precondition would be contradictory and every postcondition vacuous)
        body = "{ /*VACUITY_PROBE*/" + body[1:]
    return (attrs + "\n" if attrs else "") + header + spec + "\n" + body
