#!/usr/bin/env python3
"""Developer tool: run Kani harnesses of one harness module against the current /repo (or SEED_REPO).
usage: kdev.py --anchor src/eval/mod.rs --mod eval_arith [--timeout 300] harness [harness...]
Set SEED_VERIF_SCRATCH to a private directory to avoid sharing the build cache lock."""
import argparse
import json
import os
import sys

sys.path.insert(0, os.path.dirname(os.path.abspath(__file__)))
from common import WorkLock, Undecided        # noqa: E402
import kani_engine                             # noqa: E402

ap = argparse.ArgumentParser()
ap.add_argument("--anchor", required=True)
ap.add_argument("--mod", required=True)
ap.add_argument("--timeout", type=int, default=300)
ap.add_argument("--jobs", type=int, default=8)
ap.add_argument("harness", nargs="+")
a = ap.parse_args()
units = [kani_engine.KUnit(h, a.mod, a.anchor, ["dev"]) for h in a.harness]
try:
    with WorkLock():
        res = kani_engine.run_kani(units, per_harness_timeout=a.timeout, jobs=a.jobs)
except Undecided as e:
    print("UNDECIDED:", e)
    sys.exit(2)
for h, r in res.items():
    print(f"== {h}: {r['status']} passed={r.get('passed')} failed={len(r.get('failed', []))} "
          f"undet={r.get('undetermined')} covers_sat={len(r.get('covers_sat', []))} covers_unsat={r.get('covers_unsat')} "
          f"solver_s={r.get('solver_s')} symex_s={r.get('symex_s')} wall={r.get('duration_s')}")
    for f in r.get("failed", []):
        print("   FAILED:", f["description"], "@", f["location"], "in", f["function"])
