#!/usr/bin/env python3
"""Developer tool: build + run one Verus unit.  usage: vdev.py <module> [--show]"""
import os, sys, json
sys.path.insert(0, os.path.dirname(os.path.abspath(__file__)))
import verus_engine
from common import Undecided
name = sys.argv[1]
u = verus_engine.VUnit(name, name, ["dev"])
try:
    ur = verus_engine.run_unit(u, "quick")
except Undecided as e:
    print("UNDECIDED:", e); sys.exit(2)
print("status:", ur["status"], "obligations:", ur["obligations"], "discharged:", ur["discharged"], "solver_s:", ur["solver_s"], "wall:", ur["wall_s"])
if ur.get("why"): print(ur["why"][:6000])
for f in ur["failed"]:
    print("FAILED", f["obligation"]); print(f["detail"]["snippet"])
print("file:", ur["generated_file"])
for t in ur["fn_times"]:
    print("  ", t)
