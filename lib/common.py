"""Shared plumbing for the /verif checks: work copy of /repo, process helpers,
known-findings, evidence writing.  Nothing here decides a property."""
import fcntl
import hashlib
import json
import os
import re
import shutil
import subprocess
import sys
import time

VERIF = os.path.dirname(os.path.dirname(os.path.abspath(__file__)))
REPO = os.environ.get("SEED_REPO", "/repo")
# Scratch lives outside /repo, /verif and /tmp.  It is only a build cache: every
# run re-syncs it from /repo's *working tree* and everything is rebuilt if it is
# missing.
SCRATCH = os.environ.get("SEED_VERIF_SCRATCH", "/var/tmp/seed-verif")
WORK = os.path.join(SCRATCH, "work")          # copy of /repo used by cargo kani / cargo build
STAGE = os.path.join(SCRATCH, "stage")
# development runs against a copy (SEED_REPO=<copy>, used for seeded changes) must not overwrite the evidence of /repo itself
EVIDENCE_DIR = os.path.join(VERIF, "evidence") if REPO == "/repo" else os.path.join(SCRATCH, "evidence")
REPLAY_DIR = os.path.join(VERIF, "replays")
KNOWN_FINDINGS = os.path.join(VERIF, "known-findings.txt")

EXIT_OK = 0
EXIT_VIOLATION = 1
EXIT_UNDECIDED = 2


class Undecided(Exception):
    """Infrastructure / tool limit: never reported as a violation (exit 2)."""


def log(*a):
    print(*a, file=sys.stderr, flush=True)


def env_offline():
    e = dict(os.environ)
    e["CARGO_NET_OFFLINE"] = "true"
    e.setdefault("CARGO_TERM_COLOR", "never")
    return e


def run(cmd, cwd=None, timeout=None, env=None, stdin=None):
    """Run, capture combined output.  Returns (rc, output, seconds, timed_out)."""
    t0 = time.time()
    try:
        p = subprocess.Popen(cmd, cwd=cwd, env=env or env_offline(), stdout=subprocess.PIPE,
                             stderr=subprocess.STDOUT, stdin=subprocess.DEVNULL if stdin is None else subprocess.PIPE,
                             start_new_session=True)
        try:
            out, _ = p.communicate(input=stdin, timeout=timeout)
            try:
                os.killpg(p.pid, 9)   # reap stragglers of our own process group only
            except (ProcessLookupError, PermissionError):
                pass
            return p.returncode, out.decode("utf-8", "replace"), time.time() - t0, False
        except subprocess.TimeoutExpired:
            try:
                os.killpg(p.pid, 9)
            except ProcessLookupError:
                pass
            out, _ = p.communicate()
            return -9, out.decode("utf-8", "replace"), time.time() - t0, True
    except FileNotFoundError as e:
        raise Undecided(f"tool missing: {e}")


class WorkLock:
    def __enter__(self):
        os.makedirs(SCRATCH, exist_ok=True)
        self.f = open(os.path.join(SCRATCH, "lock"), "w")
        fcntl.flock(self.f, fcntl.LOCK_EX)
        return self

    def __exit__(self, *a):
        fcntl.flock(self.f, fcntl.LOCK_UN)
        self.f.close()


def repo_tree_digest():
    """sha256 over the files of /repo's working tree that are compiled (src, build.rs, Cargo.*)."""
    h = hashlib.sha256()
    paths = []
    for root, dirs, files in os.walk(os.path.join(REPO, "src")):
        for f in files:
            paths.append(os.path.join(root, f))
    for f in ("build.rs", "Cargo.toml", "Cargo.lock"):
        paths.append(os.path.join(REPO, f))
    for p in sorted(paths):
        h.update(p.encode())
        try:
            with open(p, "rb") as fh:
                h.update(fh.read())
        except OSError:
            h.update(b"<missing>")
    return h.hexdigest()


def repo_head():
    rc, out, _, _ = run(["git", "-C", REPO, "rev-parse", "--short", "HEAD"])
    return out.strip() if rc == 0 else "unknown"


def sync_work(injections):
    """Mirror /repo's working tree into WORK (keeping WORK/target as a cache) and append the
    #[cfg(kani)] module lines.  `injections`: {relative source file: [(mod_name, abs harness path)]}.
    The copy is otherwise byte-identical to /repo; the appended lines are inert unless cfg(kani)."""
    os.makedirs(STAGE, exist_ok=True)
    rc, out, _, _ = run(["rsync", "-a", "--delete", "--exclude", "/target", "--exclude", "/.git",
                         REPO.rstrip("/") + "/", STAGE + "/"])
    if rc != 0:
        raise Undecided("rsync of /repo failed: " + out[-400:])
    os.makedirs(os.path.join(STAGE, ".cargo"), exist_ok=True)
    with open(os.path.join(STAGE, ".cargo", "config.toml"), "w") as f:
        f.write("[net]\noffline = true\n")
    for rel, mods in injections.items():
        p = os.path.join(STAGE, rel)
        if not os.path.isfile(p):
            raise Undecided(f"anchor file {rel} not found in /repo")
        with open(p, "a") as f:
            f.write("\n")
            for mod_name, hpath in mods:
                f.write(f'#[cfg(kani)] #[path = "{hpath}"] mod {mod_name};\n')
    os.makedirs(WORK, exist_ok=True)
    # --checksum keeps mtimes of unchanged files, so cargo's incremental cache stays valid
    rc, out, _, _ = run(["rsync", "-a", "--checksum", "--delete", "--exclude", "/target",
                         STAGE + "/", WORK + "/"])
    if rc != 0:
        raise Undecided("rsync into work dir failed: " + out[-400:])


def build_real_binary():
    """cargo build of the (copied, un-instrumented apart from inert cfg(kani) lines) crate.
    Returns path of the seed binary."""
    rc, out, secs, to = run(["cargo", "build", "--offline"], cwd=WORK, timeout=900)
    if rc != 0:
        raise Undecided("cargo build of /repo copy failed:\n" + out[-2000:])
    b = os.path.join(WORK, "target", "debug", "seed")
    if not os.path.isfile(b):
        raise Undecided("seed binary not produced")
    return b


def run_script(binary, text, name="replay.sd", timeout=20):
    d = os.path.join(SCRATCH, "scripts")
    os.makedirs(d, exist_ok=True)
    p = os.path.join(d, name)
    with open(p, "w") as f:
        f.write(text)
    t0 = time.time()
    try:
        e = dict(os.environ)
        e["RUST_BACKTRACE"] = "0"
        r = subprocess.run([binary, name], cwd=d, capture_output=True, timeout=timeout, env=e)
        return r.returncode, r.stdout.decode("utf-8", "replace"), r.stderr.decode("utf-8", "replace")
    except subprocess.TimeoutExpired:
        return -9, "", "<timeout>"


def seed_int(n):
    """Seed source text for integer n (i64::MIN has no literal)."""
    if n == -(2 ** 63):
        return "(-9223372036854775807 - 1)"
    if n < 0:
        return f"(0 - {-n})" if False else f"(-{-n})"
    return str(n)


# ---------------------------------------------------------------------------
# known findings
# ---------------------------------------------------------------------------
def load_known_findings():
    """Lines: 'finding: property=<id> obligation=<regex> :: <what fails>'  (suppresses exactly the
    obligations whose name matches) and 'fixed: property=<id> <commit> <what failed>' (suppresses nothing)."""
    findings = []
    if os.path.isfile(KNOWN_FINDINGS):
        for line in open(KNOWN_FINDINGS):
            line = line.strip()
            if not line or line.startswith("#"):
                continue
            m = re.match(r"finding:\s+property=(\S+)\s+obligation=(\S+)\s+::\s+(.*)$", line)
            if m:
                findings.append({"property": m.group(1), "obligation": m.group(2), "what": m.group(3)})
    return findings


def split_known(pid, failures):
    """failures: list of dicts with 'obligation'.  Returns (new, known) where known are those
    listed in the known-findings file for this property."""
    kf = [k for k in load_known_findings() if k["property"] == pid]
    new, known = [], []
    for f in failures:
        hit = None
        for k in kf:
            if re.fullmatch(k["obligation"], f["obligation"]):
                hit = k
                break
        if hit:
            g = dict(f)
            g["known"] = hit
            known.append(g)
        else:
            new.append(f)
    return new, known


# ---------------------------------------------------------------------------
# evidence
# ---------------------------------------------------------------------------
def write_evidence(pid, tier, level, coverage, assumptions, wall_s, violations):
    os.makedirs(EVIDENCE_DIR, exist_ok=True)
    seed = 0
    try:
        seed = int(os.environ.get("VERIF_SEED", "0"))
    except ValueError:
        pass
    ev = {
        "property_id": pid,
        "tier": tier,
        "seed": seed,
        "level": level,
        "coverage": coverage,
        "assumptions": assumptions,
        "wall_s": round(wall_s, 2),
        "violations": violations,
    }
    p = os.path.join(EVIDENCE_DIR, f"{pid}.json")
    tmp = p + ".tmp"
    with open(tmp, "w") as f:
        json.dump(ev, f, indent=1, sort_keys=False)
        f.write("\n")
    os.replace(tmp, p)
    return p


def write_replay(pid, unit, text):
    os.makedirs(REPLAY_DIR, exist_ok=True)
    safe = re.sub(r"[^A-Za-z0-9_.-]", "_", unit)
    p = os.path.join(REPLAY_DIR, f"{pid}-{safe}.txt")
    with open(p, "w") as f:
        f.write(text)
    return p
