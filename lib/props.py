"""Registry: which units decide which property."""
from kani_engine import KUnit
from verus_engine import VUnit
from common import seed_int

I64_MIN, I64_MAX = -(2 ** 63), 2 ** 63 - 1


class Prop:
    def __init__(self, pid, level, explanation, kunits=None, vunits=None, assumptions=None,
                 trusted_base=None, not_covered=None, ktimeout=300):
        self.pid = pid
        self.level = level
        self.explanation = explanation
        self._k = kunits or []
        self._v = vunits or []
        self.assumptions = assumptions or []
        self.trusted_base = trusted_base or []
        self.not_covered = not_covered or []
        self._kt = ktimeout

    def kani_units(self, tier):
        return [u for u in self._k if tier == "thorough" or not getattr(u, "thorough_only", False)]

    def verus_units(self, tier):
        return [u for u in self._v if tier == "thorough" or not getattr(u, "thorough_only", False)]

    def kani_timeout(self, tier):
        return self._kt if tier == "quick" else self._kt * 3

    def checker_cmd(self, tier):
        return f"/verif/check {self.pid} --tier {tier}  (cargo kani -Z stubbing -Z function-contracts --harness ... on a copy of /repo; verus <extracted>.rs)"


COMMON_TRUST = [
    "Kani 0.68 / CBMC 6.11 / cadical: soundness of the Rust->GOTO translation and of the SAT back end",
    "rustc: the cfg(kani) module lines appended to the copy of /repo are inert in normal builds",
]

ARITH_INPUTS = [("a", "i64"), ("b", "i64"), ("l", "usize"), ("c", "usize")]


def _arith_replay(sym, pyop):
    def mk(v):
        a, b = v["a"], v["b"]
        script = f"print({seed_int(a)} {sym} {seed_int(b)});\n"

        def judge(rc, out, err):
            try:
                exact = pyop(a, b)
            except ZeroDivisionError:
                exact = None
            if rc not in (0, 103):
                return f"interpreter crashed (exit {rc}) instead of completing or reporting a diagnostic"
            if exact is not None and I64_MIN <= exact <= I64_MAX:
                if rc != 0 or out.strip() != str(exact):
                    return f"expected exact result {exact}"
            else:
                if rc != 103:
                    return "expected a reported error (result undefined or outside 64 bits)"
            return None
        return script, judge
    return mk


def _tdiv(a, b):
    q = abs(a) // abs(b)
    return q if (a < 0) == (b < 0) else -q


def _trem(a, b):
    return a - _tdiv(a, b) * b


EVAL = "src/eval/mod.rs"

C06_UNITS = [
    KUnit("c06_sum_exact_or_error", "eval_arith", EVAL, ["eval::apply_binary_operation (Sum, Int x Int)"],
          inputs=ARITH_INPUTS, replay=_arith_replay("+", lambda a, b: a + b)),
    KUnit("c06_sub_exact_or_error", "eval_arith", EVAL, ["eval::apply_binary_operation (Sub, Int x Int)"],
          inputs=ARITH_INPUTS, replay=_arith_replay("-", lambda a, b: a - b)),
    KUnit("c06_mul_exact_or_error", "eval_arith", EVAL, ["eval::apply_binary_operation (Mul, Int x Int)"],
          inputs=ARITH_INPUTS, replay=_arith_replay("*", lambda a, b: a * b)),
    KUnit("c06_div_chain", "eval_arith", EVAL, ["eval::apply_binary_operation (Div, Int x Int)"],
          inputs=ARITH_INPUTS, replay=_arith_replay("/", _tdiv)),
    KUnit("c06_mod_chain", "eval_arith", EVAL, ["eval::apply_binary_operation (Mod, Int x Int)"],
          inputs=ARITH_INPUTS, replay=_arith_replay("%", _trem)),
]

PROPS = {}
V_LDIV = VUnit("l_div", "l_div", ["lemma L-div: checked_div / checked_rem / wrapping_rem == truncating quotient / remainder; (a/b)*b + a%b == a; overflow only for MIN / -1"])

PROPS["C06"] = Prop(
    "C06", "proof",
    "Function contracts on eval::apply_binary_operation (Int x Int arms of every operator), "
    "bind::binary_operation_assign and bind::bind_next_name, checked for all 2^128 operand pairs "
    "(no bound, loop-free): + - * against i128 arithmetic by SAT; / % by contract chaining "
    "(std primitive stubbed by its contract in Kani, meaning of the primitive proved in Verus lemma L-div).",
    kunits=C06_UNITS,
    vunits=[V_LDIV, VUnit("name_bind", "name_bind", ["bind::bind_next_name", "bind::bind_name"]), VUnit("bind_next", "bind_next", ["bind::binary_operation_assign", "bind::bind_next"]), VUnit("expr", "expr", ["eval::eval_expr (Range arm)"])],
    assumptions=[
        "integer literal decoding (lexer next_int, unary minus in the grammar) is not under contract",
        "range materialisation: eval_expr's Range arm is under contract (V-expr) with `(start..end).map(new_int).collect()` replaced by its std contract (ascending integers)",
    ],
    trusted_base=COMMON_TRUST + [
        "vstd's specification of i64 `/` and `%` (truncating) matches core",
        "core::i64::wrapping_rem(a,b) == (if b == -1 {0} else {a % b}) (its definition in core)",
    ],
    not_covered=["literal decoding", "`..` range construction", "op-assign on elements/properties beyond the shared helper"],
)


V_CTL = VUnit("ctl", "ctl", ["eval::eval_stmts_with_scope_stack", "eval::eval_stmt (all 13 arms)", "eval::eval_prog"])

VERUS_TRUST = [
    "Verus 0.2026.09.13 / Z3: soundness of the verifier and of vstd's specifications of Vec, Option, Result, String::clone, vec!, Iterator::next (prophetic iterator model)",
    "extraction D1-D7 (printed per run under samples[].edits): the verified text is the text of /repo apart from the listed, counted edits",
    "A-ext: every external callee is deterministic in (abstract world, arguments) - contracts are uninterpreted functions, so proofs hold for every such behaviour",
    "A-lock: lock_deref!/try_lock succeed (no lock-discipline claim in Engine V)",
]

PROPS["C07"] = Prop(
    "C07", "proof",
    "Unit V-ctl: eval_stmts_with_scope_stack, eval_stmt and eval_prog are copied verbatim from /repo on every run and "
    "verified by Verus against the control-flow reading of the property (spec_stmts / spec_stmt / spec_if / spec_while / spec_for): "
    "for every behaviour of the callees (uninterpreted contracts), every statement list, every nesting, with no bound. "
    "Partial correctness (termination of user loops is not claimed).",
    vunits=[V_CTL, VUnit('scoped', 'scoped', ['eval::eval_stmts', 'eval::eval_stmts_in_new_scope']), VUnit('call', 'call', ['eval::eval_call'])],
    assumptions=[
        "the contracts of eval_stmts (unit V-scoped), eval_stmt / sequence (V-ctl) and eval_call (V-call) are proved separately; that they refer to the same uninterpreted semantics is by name (sem_scoped)",
        "value_to_pairs is modelled as a function of the iterable's value at its single call",
    ],
    trusted_base=VERUS_TRUST,
    not_covered=["termination", "callees honouring their side of the contract (they are other units / other properties)"],
)


V_RANGE = VUnit("range_assign", "range_assign", ["bind::bind_range_index"])

PROPS["C11"] = Prop(
    "C11", "proof",
    "Unit V-range: bind::bind_range_index copied verbatim from /repo and verified by Verus for lists and right-hand sides of "
    "every length and every value/error of the bound expressions (postcondition over the whole list view: accepted exactly on "
    "0 <= a < b <= len with len(ys) == b-a, omitted bounds 0 / len(xs); element-wise write; frame; unchanged on error; no overflow/OOB). "
    "Range reads and concatenation: Kani leaf contracts (bounded in sequence length, listed as bounded).",
    vunits=[V_RANGE, VUnit('expr', 'expr', ['eval::eval_expr']), VUnit('bind_next', 'bind_next', ['bind::bind_next'])],
    assumptions=["A-lock: the list cell is modelled as exclusively owned (no aliasing between the list, the right-hand side and the bound expressions' effects)",
                 "single-index write: the bound check and the operator application are under contract (V-bindnext); that the write lands in the shared cell is not (A-lock)"],
    trusted_base=VERUS_TRUST + COMMON_TRUST,
    not_covered=["aliasing between xs and ys", "range reads / concatenation beyond the Kani bounds"],
)


V_RENDER = VUnit("render", "render", ["main::eval_err_to_stacktrace"])

PROPS["C17"] = Prop(
    "C17", "proof",
    "(1) Unit V-render: main.rs::eval_err_to_stacktrace copied verbatim and verified against a specification GENERATED from the "
    "extracted enum Error on every run: every variant carrying `source: Box<Error>` other than AtLoc / EvalFuncCallFailed / "
    "EvalBuiltinFuncCallFailed is invisible to the renderer, each user-call wrapper yields exactly one stack-trace line. "
    "(2) Located-ness as an inductive postcondition `located(e)` (AtLoc, or a context wrapper of a located error) on every function "
    "of the V units: assuming callees return located errors, the function returns located errors.",
    vunits=[V_RENDER, V_CTL, V_RANGE, VUnit('name_bind', 'name_bind', ['bind::bind_next_name', 'bind::bind_name']), VUnit('list_bind', 'list_bind', ['bind::bind_list']), VUnit('call', 'call', ['eval::eval_call']), VUnit('scoped', 'scoped', ['eval::eval_stmts', 'eval::eval_stmts_in_new_scope']), VUnit('items', 'items', ['eval::eval_list_items']), VUnit('object_bind', 'object_bind', ['bind::bind_object', 'bind::bind_object_prop']), VUnit('bind_next', 'bind_next', ['bind::bind_next', 'bind::bind', 'bind::binary_operation_assign']), VUnit('expr', 'expr', ['eval::eval_expr'])],
    assumptions=[
        "message TEXT is not under contract (format! is opaque): 'human-readable, no internal identifier' follows from transparency + located-ness only for errors whose Display text is human-readable",
        "stdout/stderr ordering and exit status 103 (process-level, main is I/O) are not under contract",
        "raise sites inside validate_args, value_to_pairs, the typed coercions, interpolate_string and the builtins are not in a V unit: their located-ness is an assumed callee contract",
    ],
    trusted_base=VERUS_TRUST,
    not_covered=["message wording", "process exit status / stream ordering", "raise sites in validate_args, interpolate_string, builtins"],
)


V_BINDNEXT = VUnit("bind_next", "bind_next", ["bind::bind_next", "bind::bind", "bind::binary_operation_assign", "scope::set"])
V_OBJECT = VUnit("object_bind", "object_bind", ["bind::bind_object", "bind::bind_object_prop"])
V_NAME = VUnit("name_bind", "name_bind", ["bind::bind_next_name", "bind::bind_name", "value::new_val_ref_with_no_source"])

PROPS["C20"] = Prop(
    "C20", "proof",
    "Unit V-name: bind::bind_next_name and bind::bind_name copied verbatim and verified by Verus against the property's clauses "
    "(`_` never binds; once per pattern; := declares in the innermost scope only and cites the earlier position on conflict; "
    "= / op= update the nearest enclosing declaration or report Undefined at the name) over an abstract scope-chain view, for all names, "
    "all chains and all values.",
    vunits=[V_NAME, V_BINDNEXT, VUnit('expr', 'expr', ['eval::eval_expr']), VUnit('scoped', 'scoped', ['eval::eval_stmts', 'eval::eval_stmts_in_new_scope']), VUnit('ctl', 'ctl', ['eval::eval_stmt'])],
    assumptions=[
        "ScopeStack::{declare,get,assign} are under ASSUMED contracts read off src/eval/scope.rs (HashMap + Arc<Mutex> are outside both engines)",
        "std HashSet<String> is replaced by an assumed mathematical-set contract",
        "when a scope is pushed or popped (blocks, calls, loop iterations) is not under contract here (C04 territory)",
    ],
    trusted_base=VERUS_TRUST,
    not_covered=["non-bindable parameter rejection in validate_args",
                 "scope push/pop discipline", "bind_object_prop's `_` short-circuit"],
)


V_LIST = VUnit("list_bind", "list_bind", ["bind::bind_list"])
V_CALL = VUnit("call", "call", ["eval::eval_call", "value::new_val_ref_with_no_source", "value::new_null", "value::new_list"])

PROPS["C13"] = Prop(
    "C13", "proof",
    "Unit V-list: bind::bind_list copied verbatim and verified by Verus for patterns and source lists of every length: equal lengths "
    "(or at least n-1 with a final ..rest), pattern i bound to element i left to right, rest = a fresh list of exactly xs[n-1..] "
    "(so prefix + rest == xs, lemma), spread item rejected, no index underflow/OOB; bind_next external (any behaviour). "
    "Unit V-name contributes the once-per-pattern name set clause.",
    vunits=[V_LIST, V_NAME, V_CALL, VUnit('items', 'items', ['eval::eval_list_items']), VUnit('object_bind', 'object_bind', ['bind::bind_object', 'bind::bind_object_prop']), VUnit('bind_next', 'bind_next', ['bind::bind_next'])],
    assumptions=[
        "grammar invariant: `..` (collect) is only produced together with a pattern/parameter (ParamList, ReverseExprList in parser.lalrpop, by inspection)",
        "A-lock: list cell modelled as exclusively owned",
        "validate_args is not under contract; std BTreeMap / HashSet replaced by assumed finite-map / set contracts",
    ],
    trusted_base=VERUS_TRUST,
    not_covered=["object spread in literals (eval_expr Object arm)", "validate_args", "patterns in for-target / parameter position reach bind_next through bind::bind (verified) from eval_stmts (verified); that the grammar builds the same AST for them is not under contract"],
)


# ---------------------------------------------------------------------------------------------
# Lexer / scanner leaf contracts (Engine K)
# ---------------------------------------------------------------------------------------------
import props_lexer

GENERATORS = list(props_lexer.GENERATORS)

PROPS["C18"] = Prop(
    "C18", "proof",
    "Scanner position bookkeeping as a ONE-STEP function contract (Kani, full-domain state (line, col) and chars): after next_char the "
    "position is (line+1, 0) for a newline and (line, col+1) for every other char (tab, CR, multi-byte count one); base case Scanner::new. "
    "Lemma L-pos (Verus) lifts the step contract by induction to the closed form for input of any length. Operator / name / keyword "
    "errors carry the stored position of their node (clauses of the K and V units of C06/C16/C20/C07).",
    kunits=props_lexer.UNITS["C18"],
    vunits=[VUnit("l_pos", "l_pos", ["lemma L-pos: one-step scanner contract => closed form (line = 1 + newlines before-or-at, column = chars since the last newline)"])],
    assumptions=["token start capture in next_token and the `col -= 1` end adjustment are under contract only for the rejected-character case",
                 "`@L` positions attached by the generated parser are not under contract"],
    trusted_base=COMMON_TRUST,
    not_covered=["token spans (start/end) for words, ints and strings", "positions produced by the LALRPOP grammar", "call / stack-trace positions"],
)

PROPS["C09"] = Prop(
    "C09", "proof",
    "Continuation rule as a contract over ALL 50 token constructors (one generated Kani harness each): with that token as the previous "
    "token, a newline or `;` is suppressed iff the token is one of the 25 documented continuation tokens (or a terminator / file start). "
    "skip_whitespace_and_comments: stops exactly at newline / EOF / a non-whitespace char, `#` runs to end of line exclusive (bounded: 3 arbitrary chars).",
    kunits=props_lexer.UNITS["C09"],
    assumptions=["`_` digit separators, `\\xHH` equivalence and 'same message at the moved position' are not under contract (string/int lexing is outside Kani's reach)"],
    trusted_base=COMMON_TRUST,
    not_covered=["whole-program layout invariance", "the grammar's Stmt/Block terminator rules"],
    ktimeout=400,
)

PROPS["C03"] = Prop(
    "C03", "proof",
    "Symbol recognisers: match_single/double/triple_symbol_token equal the documented tables for every char / pair / triple; "
    "next_symbol_token returns the longest documented symbol for every text of 1..3 arbitrary chars (incl. EOF after 1 or 2), consumes exactly it, "
    "and returns None (-> `unexpected`) exactly when no prefix is a token, never indexing outside the input; a lone non-token char is rejected at (1,1).",
    kunits=props_lexer.UNITS["C03"],
    assumptions=["the LALRPOP-generated parser, main's parse-before-eval ordering and stderr format are not under contract",
                 "next_int / next_str_literal / next_keyword_or_ident over arbitrary text are outside Kani's reach (measured)"],
    trusted_base=COMMON_TRUST,
    not_covered=["parser", "process-level behaviour (exit status, stdout empty)", "word / int / string recognisers"],
)


V_EXPR = VUnit("expr", "expr", ["eval::eval_expr (all 14 arms)", "value::new_* constructors"])

PROPS["C12"] = Prop(
    "C12", "proof",
    "Unit V-expr: eval_expr copied verbatim and verified against the relational specification `ev`: object literals (entries in source order, "
    "computed names must be strings, `{a}` shorthand, `x..` spread, later entry wins), `o.k` and `o[\"k\"]` read the same property and remember o "
    "as the source, a missing property is an error. Unit V-bindnext: `o[k] = v` / `o.k = v` / op-assign update the existing entry or insert a new key "
    "(and op-assign on a missing key is an error) - the operation performed on the locked cell; both write paths follow the same rule.",
    vunits=[V_EXPR, V_BINDNEXT],
    assumptions=[
        "std BTreeMap<String, SourcedValue> is replaced by an ASSUMED finite-map contract (new/get/get_mut/insert/len); ascending-key iteration order "
        "(for / print) is a property of std BTreeMap and of value_to_pairs / render, not under contract here",
        "A-lock: object cells are modelled as exclusively owned; that a write through one alias is visible through another is NOT claimed (C05)",
    ],
    trusted_base=VERUS_TRUST,
    not_covered=["iteration / printing order", "aliasing", "== between objects (C10)"],
)


def _vu(name, fns):
    return VUnit(name, name, fns)


ALL_V = [
    _vu("ctl", ["eval::eval_stmts_with_scope_stack", "eval::eval_stmt", "eval::eval_prog"]),
    _vu("scoped", ["eval::eval_stmts", "eval::eval_stmts_in_new_scope"]),
    _vu("call", ["eval::eval_call"]),
    _vu("expr", ["eval::eval_expr"]),
    _vu("items", ["eval::eval_list_items"]),
    _vu("bind_next", ["bind::bind_next", "bind::bind", "bind::binary_operation_assign", "scope::set"]),
    _vu("name_bind", ["bind::bind_next_name", "bind::bind_name"]),
    _vu("list_bind", ["bind::bind_list"]),
    _vu("object_bind", ["bind::bind_object", "bind::bind_object_prop"]),
    _vu("range_assign", ["bind::bind_range_index"]),
    _vu("render", ["main::eval_err_to_stacktrace"]),
]

PROPS["C14"] = Prop(
    "C14", "proof",
    "Call-site half, per function contract: arguments are evaluated once, left to right, before the callee (V-items, V-call); the count is checked "
    "(exactly n / at least n-1 with a rest parameter); each value is DECLARED as a fresh variable in a new scope pushed on the closure's chain, not the "
    "caller's (V-call, V-scoped); `this` is bound exactly when the function value carries a source and to that source (V-call); property / index / "
    "type-function reads attach the object read from as the source (V-expr). Provenance is preserved by every copy site under contract: declaration and "
    "assignment store the value with its source (V-name), list items, arguments and return values are passed on unchanged (V-items, V-call, V-ctl).",
    vunits=[_vu("call", ["eval::eval_call"]), _vu("expr", ["eval::eval_expr"]), _vu("items", ["eval::eval_list_items"]),
            _vu("scoped", ["eval::eval_stmts"]), _vu("name_bind", ["bind::bind_next_name"]), _vu("ctl", ["eval::eval_stmt"]),
            _vu("bind_next", ["bind::bind_next", "bind::binary_operation_assign", "scope::set"])],
    assumptions=[
        "the property quantifies over ROUTES a function value takes through the heap; what is proved is that each route step under contract preserves "
        "the (value, source) pair - the composition over a whole history is an argument over these contracts, not a machine-checked theorem",
        "stores into lists/objects through bind_next (element / property writes) keep the stored SourcedValue (V-bindnext: slot receives rhs) but heap "
        "visibility through aliases is not claimed (A-lock)",
        "ScopeStack stores and returns the pair unchanged (assumed scope contract)",
    ],
    trusted_base=VERUS_TRUST,
    not_covered=["aliasing / heap histories", "assigning to a parameter not affecting the caller (scope discipline, C04)"],
)

PROPS["C02"] = Prop(
    "C02", "other",
    "Crash-freedom is decided trap class by trap class. (1) Arithmetic traps: every Int x Int arm of apply_binary_operation runs under Kani's "
    "overflow / division-by-zero / panic checks for all operand pairs (units of C06). (2) Index / slice arithmetic and Option/Result unwraps in the "
    "evaluator: every Verus unit verifies its extracted function with Verus' built-in obligations (no arithmetic overflow, every index in bounds, every "
    "callee precondition such as `start <= len` for a tail slice) - eval_call, eval_expr, eval_list_items, bind_next, bind_list, bind_object, "
    "bind_range_index, eval_stmt. NOT decided: lock discipline (try_lock().unwrap() on an already locked cell - `==` on shared sub-structure, "
    "`xs[0] += xs`, render of a cyclic value), host stack depth, and the interpolation slot offsets (byte vs char) used by interpolate_string.",
    kunits=C06_UNITS,
    vunits=ALL_V,
    assumptions=[
        "A-lock: every lock_deref!/try_lock succeeds - lock re-entrancy panics are explicitly OUT of what is decided (known by reading: `a := [[]]; [a] == a`, `xs[0] += xs`)",
        "interpolate_string's string slicing by lexer-provided offsets is not under contract (multi-byte text before a slot panics on the pinned tree; found by reading, not reported by any check)",
        "grammar invariant: a rest parameter / collect pattern always comes with at least one item",
        "usize -> i64 casts (CastFailed) and host stack depth are not modelled",
    ],
    trusted_base=VERUS_TRUST + COMMON_TRUST,
    not_covered=["lock discipline", "interpolation slot offsets", "stack overflow", "builtins::fns::render", "lexer string/int paths"],
)


# ---------------------------------------------------------------------------------------------
# Evaluator leaf contracts (Engine K): comparisons, op-assign helper, equality, range reads, pairs
# ---------------------------------------------------------------------------------------------
import props_eval_leaf

PROPS["C06"]._k = C06_UNITS + props_eval_leaf.UNITS["C06"]
PROPS["C11"]._k = props_eval_leaf.UNITS["C11"]
PROPS["C11"]._kt = 400
PROPS["C07"]._k = props_eval_leaf.UNITS["C07"]
PROPS["C07"].assumptions = [a for a in PROPS["C07"].assumptions] + [
    "value_to_pairs: Kani leaf contracts (kinds: proof; strings / lists up to length 3: bounded; object with >= 1 key and the builtin kind: dropped, CBMC does not terminate)"]
PROPS["C02"]._k = C06_UNITS + props_eval_leaf.UNITS["C06"][:6]

PROPS["C10"] = Prop(
    "C10", "other",
    "Leaf contracts (Kani) on eval::eq, eval::ref_eq and the Eq/Ne/RefEq/RefNe arms of apply_binary_operation. PROOF (all payloads): identity "
    "comparison is Some(ptr_eq) exactly for list/list, object/object, func/func and RefNe is its negation; == on null / bool / int is reflexive, symmetric, "
    "transitive, != is its negation; differently-typed scalars and two functions are an error naming both types in operand order. BOUNDED (not counted "
    "as proved): strings up to 2 bytes; flat integer lists up to length 2 (structural answer, symmetry, transitivity, alias-agrees-with-copy, element "
    "type mismatch reports the types, operands unchanged and unlocked afterwards); objects with at most one key. NOT decided: nested / shared "
    "sub-structure (the recursive comparison holds both operands' locks while descending: `a := [[]]; [a] == a` aborts on the pinned tree - found by "
    "reading; depth-2 eq does not terminate in Kani and Verus would have to assume away the aliasing at issue).",
    kunits=props_eval_leaf.UNITS["C10"],
    assumptions=["lock re-entrancy of eq on shared sub-structure is not decided (known crash by reading, not reported by any check)",
                 "objects with >= 2 keys and two distinct 1-key objects: CBMC does not terminate (dropped)"],
    trusted_base=COMMON_TRUST,
    not_covered=["nested values", "shared sub-structure", "objects beyond one key", "deep copies at depth > 1"],
    ktimeout=400,
)


V_COERCE = VUnit("coerce", "coerce", ["eval::eval_expr_to_bool", "eval::eval_expr_to_i64", "eval::eval_expr_to_index", "eval::eval_expr_to_str"])
ALL_V.append(V_COERCE)
PROPS["C17"]._v = PROPS["C17"]._v + [V_COERCE]
PROPS["C11"]._v = PROPS["C11"]._v + [V_COERCE]


V_BINOP = VUnit("binop", "binop", ["eval::apply_binary_operation (15 operators x all operand kinds)", "eval::ref_eq"])
ALL_V.append(V_BINOP)
PROPS["C06"]._v = PROPS["C06"]._v + [V_BINOP]
PROPS["C11"]._v = PROPS["C11"]._v + [V_BINOP]
PROPS["C10"]._v = [V_BINOP]
PROPS["C17"]._v = PROPS["C17"]._v + [V_BINOP]
PROPS["C02"]._v = ALL_V


V_EQ = VUnit("eq", "eq", ["eval::eq (recursive, any depth)", "error::render_type", "lemmas: reflexive / same boolean in both orders / transitive / identity implies equality"])
ALL_V.append(V_EQ)
PROPS["C10"]._v = [V_EQ, V_BINOP]
PROPS["C10"].level = "proof"
PROPS["C10"].explanation = (
    "Unit V-eq: eval::eq copied verbatim and verified (Verus) equal to the functional specification `veq` for values of ANY depth and size "
    "(lists by position, objects by key, identity short-cut, length short-cut, first type mismatch reported with both type names in operand order); "
    "the laws of the property are lemmas over `veq`: true on every function-free value compared with itself, the two operand orders never give "
    "different booleans, transitive, identity implies equality. Unit V-binop: == / != share one answer and negate it, === / !== are cell identity, "
    "defined exactly for list/list, object/object, func/func. Kani leaf contracts on the real crate repeat the scalar laws for all payloads and the "
    "list/object cases at small bounds (bounded, not counted). NOT decided: the lock re-entrancy abort when the operands SHARE sub-structure "
    "(`a := [[]]; [a] == a`) - the recursive comparison holds both locks while descending; A-lock assumes it away.")
PROPS["C10"].assumptions = [
    "A-lock: locking succeeds and cells are not shared between / inside the operands (shared sub-structure is exactly the undecided case; known crash by reading)",
    "std BTreeMap iteration visits every entry exactly once (assumed `entries` contract); Arc::ptr_eq is an equivalence and one cell has one content",
    "`comparing never mutates`: eq takes shared references to exclusively-owned cells in the model - true by typing under A-lock, not a heap claim",
]
PROPS["C10"].trusted_base = VERUS_TRUST + COMMON_TRUST
PROPS["C10"].not_covered = ["lock discipline on shared sub-structure", "deep-copy construction (how equal values are built)"]

PROPS["C16"] = Prop(
    "C16", "proof",
    "Unit V-binop: apply_binary_operation copied verbatim and verified (Verus) for all 15 operators and ALL operand values at once: accepted exactly on "
    "the documented operand kinds, otherwise an error at the operator naming the operator and both operands in order (for == / != the two type names from "
    "the comparison). Unit V-eq: render_type returns the documented names. Unit V-coerce: conditions must be bool, indices / range bounds non-negative int, "
    "property names string - else IncorrectType naming the expected type at the expression. Unit V-expr: indexing / property / type-function / spread / "
    "shorthand kind checks inside expressions (->type() namespace defined for every value but null). Units V-bindnext, V-items, V-call, V-object, V-list: "
    "destructuring sources, spread operands and callees of the wrong kind are reported errors.",
    vunits=[V_BINOP, V_EQ, V_COERCE, _vu("expr", ["eval::eval_expr"]), _vu("bind_next", ["bind::bind_next"]), _vu("items", ["eval::eval_list_items"]),
            _vu("call", ["eval::eval_call"])],
    assumptions=["the `for` iterable kind check lives in value_to_pairs (Kani leaf contract, C07 units)",
                 "type_functions::render_type / any_type (the ->type() builtin) duplicate error::render_type: only the latter is under contract here unless the Kani unit for it is registered",
                 "interpolation slot values must be strings: inside interpolate_string, not under contract"],
    trusted_base=VERUS_TRUST,
    not_covered=["interpolate_string's slot type check", "builtins' own argument checks", "the `->type()` builtin's name table (duplicate of render_type)"],
)


V_RANGEREAD = VUnit("range_read", "range_read", ["eval::get_str_range_index", "eval::get_list_range_index"])
V_PAIRS = VUnit("pairs", "pairs", ["eval::value_to_pairs"])
ALL_V += [V_RANGEREAD, V_PAIRS]
PROPS["C11"]._v = PROPS["C11"]._v + [V_RANGEREAD]
PROPS["C07"]._v = PROPS["C07"]._v + [V_PAIRS]
PROPS["C16"]._v = PROPS["C16"]._v + [V_PAIRS]
PROPS["C02"]._v = ALL_V
# the slow bounded Kani cells of the list range read are now a second back end: thorough tier only
for _u in PROPS["C11"]._k:
    if _u.harness.startswith("c11_list_range_"):
        _u.thorough_only = True


V_STRLIT = VUnit("str_lit", "str_lit", ["lexer::Lexer::next_str_literal"])
V_INTERP = VUnit("interp", "interp", ["eval::interpolate_string"])
ALL_V += [V_STRLIT, V_INTERP]
PROPS["C02"]._v = ALL_V
PROPS["C17"]._v = PROPS["C17"]._v + [V_INTERP]
PROPS["C03"]._v = [V_STRLIT]

PROPS["C15"] = Prop(
    "C15", "proof",
    "Unit V-strlit: Lexer::next_str_literal copied verbatim and verified (Verus) over an abstract scanner (text, position), for input of any length "
    "below 2^31 characters and any characters: every interpolation slot it records spans `${` .. the MATCHING `}` of the decoded text (character "
    "offsets; slot expressions may contain balanced braces), slots are ascending and disjoint, the scanner never moves past the input. Unit V-interp: "
    "interpolate_string copied verbatim and verified for ANY Unicode text: with those slots it only slices the string at character boundaries, in order "
    "and in range (std's panic condition is a checked precondition), evaluates each slot expression once in the current scope, requires a string value, "
    "and returns exactly the concatenation, in order, of the literal pieces and the slot values.",
    vunits=[V_STRLIT, V_INTERP],
    assumptions=[
        "the generated parser passes a string token's (text, slots) payload unchanged into the AST, so V-strlit's postcondition is V-interp's precondition",
        "escape decoding: for a NON-interpolated literal the token text is proved equal to a forward-scan specification of the source (\\\\ \\\" \\$ \\n \\r \\xHH, "
        "errors with the offending character and its position); for an interpolated literal the same with every `${..}` slot kept verbatim up to its matching brace (a slot that does not start with `{` is an error at that character); "
        "an unterminated literal (end of input before the closing quote) is outside the contract",
        "strings as byte vectors: `+`, `==`, indexing on bytes are covered by V-binop / V-eq / V-expr; ->len() (String::len after from_utf8) is a std contract",
        "the brace counter is an i32: inputs of 2^31 or more characters are outside the contract (a slot with 2^31 nested `{` would overflow it)",
        "the slot's own lexer + generated parser are external (uninterpreted)",
    ],
    trusted_base=VERUS_TRUST,
    not_covered=["the parser"],
)


# ---------------------------------------------------------------------------------------------
# C16 Kani units (second back end for the operator matrix and the coercion points; the type-function
# name table is only under contract here)
# ---------------------------------------------------------------------------------------------
import props_c16

GENERATORS += [g for g in props_c16.GENERATORS if g not in GENERATORS]
for _u in props_c16.MATRIX_UNITS + props_c16.COERCE_UNITS:
    _u.thorough_only = True          # ~17-25 min at 16 jobs: thorough tier only (V-binop / V-coerce decide the quick tier)
PROPS["C16"]._k = props_c16.TYPENAME_UNITS + props_c16.MATRIX_UNITS + props_c16.COERCE_UNITS
PROPS["C16"]._kt = 400
PROPS["C16"].assumptions = [a for a in PROPS["C16"].assumptions if "type_functions::render_type" not in a] + [
    "type_functions::render_type / any_type (the ->type() builtin): Kani leaf contracts per kind (any_type on a user-function receiver does not terminate in CBMC: only render_type is checked for that kind)",
    "the 240-harness Kani operator matrix and the 32 coercion harnesses run in the thorough tier only (second back end)"]
PROPS["C16"].trusted_base = VERUS_TRUST + COMMON_TRUST


# ---------------------------------------------------------------------------------------------
# C19 (the "printing is a canonical function of the value" half; run-to-run determinism under a varied
# environment is the absence of reads and has no function to put under contract)
# ---------------------------------------------------------------------------------------------
V_PRINT = VUnit("print_render", "print_render", ["builtins::fns::render", "builtins::fns::print", "builtins::fns::assert_args",
                                                 "builtins::fns::assert_no_this"])
ALL_V += [V_PRINT]
PROPS["C02"]._v = ALL_V
PROPS["C19"] = Prop(
    "C19", "proof",
    "Unit V-print: fns::render, fns::print, assert_args and assert_no_this copied verbatim from src/builtins/fns.rs and verified (Verus) for values "
    "of ANY depth and size: render(v) returns exactly rendered(v), a recursive specification function of the structure of v written from the property "
    "statement (null as <null>, bools/ints via Display, strings raw, one four-space-indented `item,` line per list element, one `\"key\": value,` line "
    "per object property in ascending key order, nested renderings re-indented by replacing every newline with newline + four spaces); print takes "
    "exactly one argument, hands println! exactly that rendering, and returns null. The law `values that are == print identically regardless of "
    "aliasing or construction order` is a lemma over rendered and the veq of the eq unit, by induction on the value. The alias `Object` is copied from "
    "src/eval/value.rs; only an ordered map's iteration contract is a function of the contents (a hash map's is not, so naming one fails the proof).",
    vunits=[V_PRINT],
    assumptions=[
        "run-to-run determinism under varied cwd / environment / locale / path spelling / hash seeds is NOT decided: it is the absence of reads in main.rs and of "
        "observable hash-order iteration anywhere in the evaluator, which is no single function's postcondition",
        "std contracts assumed: Display of bool/i64/usize/String/&str (i64 rendering is the uninterpreted `shown_i64`, i.e. decimal is assumed, not proved), Debug of "
        "Option<String>, String += &str appends, String::from_utf8 succeeds exactly on valid UTF-8, str::replace(char, &str) replaces every occurrence, println! "
        "writes its text and one newline, BTreeMap iterates in ascending key order and that order is a function of the key set",
        "`format!` / `println!` with inline arguments are expanded piece by piece by the extractor (edit D6) according to std::fmt's documented meaning",
        "A-lock: every lock succeeds and cells are not shared, so printing a value that contains itself (a lock re-entrancy abort) is outside this unit",
        "hash-based containers elsewhere (scopes, per-pattern name set, bind_object's remaining-key set): not observable by construction of the other units' "
        "contracts (object_bind proves `rest` is exactly the remaining properties as a map), but no contract states `order is not observable` as such",
    ],
    trusted_base=VERUS_TRUST,
    not_covered=["environment independence of a whole run", "error-order determinism", "cyclic values"],
)


# validate_args: the definition-time check of a parameter list (C13 / C20 / C17)
V_VALIDATE = VUnit("validate", "validate", ["eval::validate_args"])
ALL_V += [V_VALIDATE]
PROPS["C02"]._v = ALL_V
for _p in ("C13", "C20", "C17"):
    PROPS[_p]._v = PROPS[_p]._v + [V_VALIDATE]
    PROPS[_p].assumptions = PROPS[_p].assumptions + [
        "validate_args: a parameter list containing `_` is accepted as soon as the `_` is reached (`break`), the remaining parameters are then only "
        "checked when the function is called (bind_next); the acceptance => validity clauses are therefore stated for parameter lists without `_`; "
        "std VecDeque / HashMap<String, Location> are assumed sequence / finite-map contracts; anonymous functions are not validated at definition"]


# the type functions ->len() / ->type() (C15 byte length; C16 names, arity, receiver)
V_TYPEFNS = VUnit("typefns", "typefns", ["builtins::type_functions::str_len", "builtins::type_functions::any_type", "builtins::type_functions::render_type",
                                         "builtins::fns::assert_args", "builtins::fns::assert_this", "builtins::fns::assert_str"])
ALL_V += [V_TYPEFNS]
PROPS["C02"]._v = ALL_V
PROPS["C15"]._v = PROPS["C15"]._v + [V_TYPEFNS]
PROPS["C16"]._v = PROPS["C16"]._v + [V_TYPEFNS]
PROPS["C15"].not_covered = [x for x in PROPS["C15"].not_covered if x != "->len()"]
PROPS["C15"].assumptions = PROPS["C15"].assumptions + [
    "V-typefns: `->len()` = number of bytes of the receiver, for any string; std contracts assumed: String::from_utf8 yields a String with exactly those bytes, "
    "String::len is its byte length, chars().count() its character count; the lookup of `len` in the type-function table (eval_expr Prop arm with type_prop) is V-expr's"]
PROPS["C18"]._v = PROPS["C18"]._v + [V_STRLIT]       # position of lexical errors inside string literals


# main.rs::main - how a failure is reported (C17 / C03)
V_MAIN = VUnit("main_report", "main_report", ["main::main"])
ALL_V += [V_MAIN]
PROPS["C02"]._v = ALL_V
for _p in ("C17", "C03"):
    PROPS[_p]._v = PROPS[_p]._v + [V_MAIN]
    PROPS[_p].assumptions = PROPS[_p].assumptions + [
        "V-main: the effects of fn main (eprintln! / process::exit) are reified mechanically (edit D7) into a returned (log, status) pair; run, render_parse_error and "
        "eval_err_to_stacktrace are external with uninterpreted results, so the message TEXT after the path is whatever they return; std::fmt / env::args / join assumed"]


# <Lexer as Iterator>::next - the statement terminator rule over the raw token stream (C09, unbounded)
V_LEXNEXT = VUnit("lex_next", "lex_next", ["lexer::<Lexer as Iterator>::next"])
ALL_V += [V_LEXNEXT]
PROPS["C02"]._v = ALL_V
PROPS["C09"]._v = PROPS["C09"]._v + [V_LEXNEXT]
PROPS["C09"].assumptions = PROPS["C09"].assumptions + [
    "V-lexnext: which raw tokens reach the parser (terminator rule), for a token stream of any length; next_token is external (an abstract stream), so what the raw "
    "tokens of a given text ARE - whitespace, comments, carriage returns skipped - is decided only by the bounded Kani lexer units"]


# C02: a scanner index that is not a character boundary makes Scanner::range (a `&str` slice) panic
PROPS["C02"]._k = PROPS["C02"]._k + [props_lexer.C18_UNITS[1]] + props_lexer.C03_SCANNER_UNITS


# Lexer::next_int - integer literals (C03 no panic / no mid-character slice; C06 literal overflow; C09 digit separators)
V_LEXINT = VUnit("lex_int", "lex_int", ["lexer::Lexer::next_int"])
ALL_V += [V_LEXINT]
PROPS["C02"]._v = ALL_V
for _p in ("C03", "C06", "C09"):
    PROPS[_p]._v = PROPS[_p]._v + [V_LEXINT]
    PROPS[_p].assumptions = PROPS[_p].assumptions + [
        "V-lexint: the scanner is (text, position) with its byte index = byte_off(text, position) (proved step by step for the real scanner by the Kani units "
        "c18_next_char_step / c03_scanner_range_in_bounds); str::parse::<i64>, char::is_ascii_digit, str::replace are assumed std contracts; `panic!` is a call "
        "with precondition false"]
PROPS["C18"]._v = PROPS["C18"]._v + [V_MAIN]         # render_parse_error: position of a syntax error
PROPS["C18"].assumptions = PROPS["C18"].assumptions + [
    "V-main/render_parse_error: lalrpop_util::ParseError is declared with the public shape of the dependency pinned in Cargo.lock (assumed); the token spans the generated "
    "parser attaches (`@L` in parser.lalrpop) are outside every contract"]


# Lexer::next_token - the dispatch of the lexer (C03 / C09 / C18)
V_LEXTOKEN = VUnit("lex_token", "lex_token", ["lexer::Lexer::next_token"])
ALL_V += [V_LEXTOKEN]
PROPS["C02"]._v = ALL_V
for _p in ("C03", "C09", "C18"):
    PROPS[_p]._v = PROPS[_p]._v + [V_LEXTOKEN]
    PROPS[_p].assumptions = PROPS[_p].assumptions + [
        "V-lextoken: the sub-lexers are external with uninterpreted results (skip_end, sem_word, sem_int, sem_str, sem_symbol); the END position of a token span is not under contract"]


# C20: every sub-pattern (also the `..rest` collector) is bound with the statement's own kind (declaration vs assignment)
PROPS["C20"]._v = PROPS["C20"]._v + [u for u in ALL_V if u.name in ("object_bind", "list_bind")]


# Lexer::skip_whitespace_and_comments, for text of any length (C09); the Kani cell on 3 chars stays as a bounded second back end
V_LEXSKIP = VUnit("lex_skip", "lex_skip", ["lexer::Lexer::skip_whitespace_and_comments"])
ALL_V += [V_LEXSKIP]
PROPS["C02"]._v = ALL_V
PROPS["C09"]._v = PROPS["C09"]._v + [V_LEXSKIP]


# C15 "indexing, range-indexing ... work on bytes" / "Unicode-safe": the string range read (V) and the scanner's byte index (K)
PROPS["C15"]._v = PROPS["C15"]._v + [V_RANGEREAD]
PROPS["C15"]._k = PROPS["C15"]._k + [props_lexer.C18_UNITS[1]] + props_lexer.C03_SCANNER_UNITS
PROPS["C09"]._v = PROPS["C09"]._v + [V_STRLIT]       # `\xHH` denotes the character with that code (escape decoding)
PROPS["C18"]._v = PROPS["C18"]._v + [V_INTERP]       # column of an error inside an interpolation slot (characters, not bytes)
PROPS["C18"]._v = PROPS["C18"]._v + [u for u in ALL_V if u.name == "render"]    # a context wrapper the renderer does not peel loses the position
PROPS["C09"]._v = PROPS["C09"]._v + [V_MAIN]         # a syntax error is reported where the unexpected token starts, whatever follows it


# C03 "the reported line never exceeds the number of lines in the file plus one": the scanner's one-step position contract
PROPS["C03"]._k = PROPS["C03"]._k + [u for u in props_lexer.C18_UNITS if u not in PROPS["C03"]._k]


# C18: positions attached by the evaluator - operator errors at the operator, undefined names at the name, call errors at the call expression
PROPS["C18"]._v = PROPS["C18"]._v + [u for u in ALL_V if u.name in ("binop", "expr", "call")]


# round-3 seeds: clauses that also speak for other properties
def _add_v(pid, *names):
    have = {u.name for u in PROPS[pid]._v}
    PROPS[pid]._v = PROPS[pid]._v + [u for u in ALL_V if u.name in names and u.name not in have]
_add_v("C06", "eq")            # op_symbol: a diagnostic names the operation
_add_v("C11", "typefns")       # ->len() is the number of indexable positions
_add_v("C15", "pairs")         # `for` over a string walks bytes
_add_v("C12", "coerce")        # computed property names
_add_v("C20", "call")          # the body runs on the closure's chain, not the caller's (lexical, not dynamic, lookup)
_add_v("C17", "call")          # evaluation order decides which prints precede a failure
_add_v("C03", "lex_skip")      # skipping blanks and comments terminates (never hangs), also at the end of the input
_add_v("C18", "bind_next")     # a failing `xs[i] op= v` / `o.k op= v` shows the operator's position first


# round-4 seeds
_add_v("C12", "print_render", "pairs")     # deterministic key order in print / for
_add_v("C09", "interp")                    # the position of a slot error moves with the layout
PROPS["C09"]._k = PROPS["C09"]._k + [u for u in props_lexer.C18_UNITS if u not in PROPS["C09"]._k]   # CR is not a line break; columns count characters
_add_v("C03", "lex_next")                  # the terminator filter is a loop that terminates (no recursion)
_add_v("C18", "name_bind")                 # an undefined name is reported at the name, also as the target of `op=`


# round-5: main.rs::run - the text handed to the lexer is the file's own, the whole file parses before anything runs
V_RUN = VUnit("run_script", "run_script", ["main::run"])
ALL_V += [V_RUN]
PROPS["C02"]._v = ALL_V
_add_v("C03", "run_script")
_add_v("C09", "run_script")
_add_v("C15", "run_script")
_add_v("C17", "run_script")
_add_v("C18", "run_script")
for _p in ("C03", "C09", "C15", "C17", "C18"):
    PROPS[_p].assumptions = PROPS[_p].assumptions + [
        "V-run: the file system (current_dir, read_to_string), Lexer::new + ProgParser::parse and eval_prog are external; "
        "a file's content and the parse of a text are functions of the path / the text for the duration of one run"]


# round-5 seeds
_add_v("C14", "list_bind", "object_bind", "binop")   # a method handed on through a pattern / a concatenation keeps its provenance
_add_v("C16", "ctl")                                  # if / while conditions are checked to be bool (eval_expr_to_bool, not a truthiness test)
_add_v("C13", "ctl")                                  # a named function's parameters are validated when it is declared
_add_v("C20", "ctl")
_add_v("C11", "bind_next")                            # `xs[i] += t` is old + t, in that order
PROPS["C06"]._k = PROPS["C06"]._k + [u for u in [props_lexer.C18_UNITS[1]] + props_lexer.C03_SCANNER_UNITS if u not in PROPS["C06"]._k]   # a literal is sliced out of the source by byte index
_add_v("C19", "validate")                             # which duplicate parameter is reported must not depend on a hash seed (iteration over a HashMap is not modelled: undecided)
_add_v("C19", "run_script")                           # which file is read: <cwd>/<path as given>, whatever the spelling; its text reaches the lexer unchanged
PROPS["C19"].assumptions = PROPS["C19"].assumptions + ["V-run: the file system, the lexer + parser and the evaluator are external"]


# round-6 seeds
_add_v("C15", "binop", "expr")      # `+` on strings is byte concatenation; s[i] is defined exactly for 0 <= i < len (bytes)
_add_v("C09", "expr", "render")     # the position handed to an interpolated literal is (line, column) of the literal; nested positions are rendered in full
PROPS["C10"]._k = PROPS["C10"]._k + [u for u in props_lexer.C03_UNITS if u.harness.startswith("c03_") and "symbol" in u.harness and u not in PROPS["C10"]._k]   # `===` / `!==` are their own tokens
_add_v("C18", "ctl")                                  # a `for` over a non-iterable is reported at the iterator expression
_add_v("C14", "range_assign", "pairs", "range_read")  # a method written by range assignment / taken from a slice / handed out by `for` keeps its provenance
_add_v("C03", "interp")                               # slot expressions are parsed when the string is evaluated: a reported error, never a panic
_add_v("C13", "expr")                                 # `{.., rest..}` rebuilds the object: a spread copies, it does not move
_add_v("C18", "object_bind", "list_bind")             # a missing property is reported at the property name, a shape error at the pattern
_add_v("C15", "eq")                                   # equal byte sequences are `==` (bytes, not decoded text)
_add_v("C19", "object_bind", "eq")                    # destructuring and `==` walk the ordered map, never a hash container (which error is reported first is a function of the program)
_add_v("C19", "main_report")                           # the "expected ..." list of a syntax error is printed in the parser's order (no hash container in between)


# round-8: Lexer::next_keyword_or_ident - the keyword table and the identifier text (the last hand-written lexer function without a contract)
V_LEXIDENT = VUnit("lex_ident", "lex_ident", ["lexer::Lexer::next_keyword_or_ident"])
ALL_V += [V_LEXIDENT]
PROPS["C02"]._v = ALL_V
_add_v("C03", "lex_ident")     # scanning a word terminates; the source is sliced at character boundaries only
_add_v("C07", "lex_ident")     # break / continue / return / while / for / if / else each reach the parser as their own token
_add_v("C09", "lex_ident")     # where a word ends (what separates two tokens)
_add_v("C12", "lex_ident")     # `o.k` names the property "k": the identifier token carries exactly the text written, case preserved
_add_v("C20", "lex_ident")     # a name is the word as written; a reserved word is never a name
for _p in ("C03", "C07", "C09", "C12", "C20"):
    PROPS[_p].assumptions = PROPS[_p].assumptions + [
        "V-lexident: the scanner is (text, position) with byte index = byte_off(text, position) (as in V-lexint); the `match` on string-literal patterns is rewritten "
        "arm by arm into `if str_eq(t, \"lit\") .. else ..` (edit D5); `==` on &str, char::is_ascii_alphanumeric, str::to_string are assumed std contracts; the list of "
        "reserved words in the spec (break continue else false fn for if in null return true while) is written out in the unit from the constructs docs/features.md uses, not read from the code"]
