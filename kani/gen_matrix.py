#!/usr/bin/env python3
"""Generator for /verif/kani/eval_matrix.rs (property C16, operator typing matrix).

Writes Kani contract harnesses for eval::apply_binary_operation covering the full matrix
15 operators x 8 lhs kinds x 8 rhs kinds = 960 cells.  A harness runs the 4 rhs cells of one
(operator, lhs kind, rhs group) in sequence; there are 15 x 8 x 2 = 240 harnesses named
    c16_<op>_<lhs kind>_x_scalar    rhs kinds null bool int string
    c16_<op>_<lhs kind>_x_heap      rhs kinds list object func builtin
Value kinds are concrete per cell, scalar payloads are symbolic (kani::any()), containers are
empty, nothing is dropped (mem::forget).  Each cell is one macro invocation line inside its
harness, so the source line of a failed clause identifies the cell.

Why 4 cells per harness (measured, Kani 0.68 / CBMC 6.11, this crate):
  * a cell costs ~3 s (in domain) / ~6 s (out of domain) of symbolic execution -- every move of
    the ~150-variant `Error` enum is ~1900 SSA steps -- and a harness has ~8 s of fixed cost
    (goto-cc, goto-instrument, CBMC start-up) that is paid in parallel, plus ~0.5 s in the
    kani-compiler phase that is NOT parallel (960 one-cell harnesses: 8.5 min before the first
    CBMC starts);
  * cells in sequence are super-linear in symex: 1 cell 6 s, 2 cells 13-15 s, 4 cells 31-40 s,
    8 cells 85-120 s.
  Estimated wall at 16 jobs: 1 cell/harness 23 min, 2: 18 min, 4: 16 min, 8: 20 min.

The output is deterministic (no timestamps, fixed iteration order) so it can be committed; the
driver re-runs this script before building (GENERATORS in /verif/lib/props_c16.py).

usage: gen_matrix.py [--out FILE] [--check]     (--check: exit 1 if FILE differs from what would be written)

The domain table below is transcribed from the *property statement* C16, not from the code:
  +              two ints, two strings or two lists
  - * / %        two ints
  < <= > >=      two ints
  && ||          two bools
  == !=          two values of the same non-function kind
  === !==        two lists, two objects or two user-defined functions
Type names in diagnostics: bool int string list object func, null for null (both user functions
and builtin functions are of type `func`).
"""
import os
import sys

HERE = os.path.dirname(os.path.abspath(__file__))
DEFAULT_OUT = os.path.join(HERE, "eval_matrix.rs")

# (harness tag, BinaryOp variant, Seed source symbol)
OPS = [
    ("sum", "Sum", "+"), ("sub", "Sub", "-"), ("mul", "Mul", "*"), ("div", "Div", "/"), ("mod", "Mod", "%"),
    ("and", "And", "&&"), ("or", "Or", "||"),
    ("eq", "Eq", "=="), ("ne", "Ne", "!="),
    ("gt", "Gt", ">"), ("gte", "Gte", ">="), ("lt", "Lt", "<"), ("lte", "Lte", "<="),
    ("refeq", "RefEq", "==="), ("refne", "RefNe", "!=="),
]
KINDS = ["null", "bool", "int", "string", "list", "object", "func", "builtin"]

# documented type name (what `v->type()` returns; `null` for null)
TYPE_NAME = {"null": "null", "bool": "bool", "int": "int", "string": "string", "list": "list",
             "object": "object", "func": "func", "builtin": "func"}

# Rust pattern matching every Value whose documented type name is TYPE_NAME[kind]
TYPE_PATTERN = {
    "null": "Value::Null", "bool": "Value::Bool(_)", "int": "Value::Int(_)", "string": "Value::Str(_)",
    "list": "Value::List(_)", "object": "Value::Object(_)",
    "func": "Value::Func(_) | Value::BuiltinFunc{..}", "builtin": "Value::Func(_) | Value::BuiltinFunc{..}",
}

ARITH = ("Sub", "Mul", "Div", "Mod")
ORDER = ("Gt", "Gte", "Lt", "Lte")
LOGIC = ("And", "Or")
EQ = ("Eq", "Ne")
REFEQ = ("RefEq", "RefNe")


def domain(op, lk, rk):
    """None if (lk, rk) is outside the documented domain of `op`, else the documented result kind
    ('int' means: Int, or the located IntOverflow diagnostic of C06 -- never a typing diagnostic)."""
    if op == "Sum":
        if lk == rk and lk in ("int", "string", "list"):
            return lk
        return None
    if op in ARITH:
        return "int" if (lk, rk) == ("int", "int") else None
    if op in ORDER:
        return "bool" if (lk, rk) == ("int", "int") else None
    if op in LOGIC:
        return "bool" if (lk, rk) == ("bool", "bool") else None
    if op in EQ:
        if lk == rk and lk in ("null", "bool", "int", "string", "list", "object"):
            return "bool"
        return None
    if op in REFEQ:
        if lk == rk and lk in ("list", "object", "func"):
            return "bool"
        return None
    raise ValueError(op)


RESULT_PATTERN = {"int": "Value::Int(_)", "bool": "Value::Bool(_)", "string": "Value::Str(_)",
                  "list": "Value::List(_)"}


GROUPS = [("x_scalar", ["null", "bool", "int", "string"]), ("x_heap", ["list", "object", "func", "builtin"])]


def harness_name(optag, lk, group):
    return f"c16_{optag}_{lk}_{group}"


def harnesses():
    """[(optag, op, sym, lk, group, [rhs kinds])] in file order."""
    return [(t, op, sym, lk, g, rks) for (t, op, sym) in OPS for lk in KINDS for (g, rks) in GROUPS]


def harness_names():
    return [harness_name(t, lk, g) for (t, _, _, lk, g, _) in harnesses()]


def payload_inputs(kind, name):
    """[(name, type)] of the kani::any() calls made when constructing a value of `kind`."""
    if kind == "bool":
        return [(name, "bool")]
    if kind == "int":
        return [(name, "i64")]
    if kind == "string":
        return [(name, "u8")]
    return []


def inputs_for(lk, rks, op=None):
    """kani::any() call order of a harness (for counterexample decoding): l, c, then per cell i the
    lhs payload a<i> and the rhs payload b<i> (for the int x int cell of `/` and `%` followed by the
    nondet quotient / remainder q<i> chosen by the stubbed std primitive)."""
    ins = [("l", "usize"), ("c", "usize")]
    for i, rk in enumerate(rks):
        ins += payload_inputs(lk, f"a{i}") + payload_inputs(rk, f"b{i}")
        if op in ("Div", "Mod") and (lk, rk) == ("int", "int"):
            ins.append((f"q{i}", "i64"))
    return ins


CONSTRUCT = {
    "null": "Value::Null",
    "bool": "Value::Bool(kani::any())",
    "int": "Value::Int(kani::any())",
    "string": "Value::Str(vec![kani::any::<u8>()])",
    "list": "Value::List(Arc::new(Mutex::new(vec![])))",
    "object": "Value::Object(Arc::new(Mutex::new(BTreeMap::new())))",
    "func": "mk_user_func()",
    "builtin": "mk_builtin()",
}

PRELUDE = r'''// GENERATED by /verif/kani/gen_matrix.py -- do not edit by hand; re-run the generator.
// Property C16: operator typing matrix for eval::apply_binary_operation.
// 15 operators x 8 lhs kinds x 8 rhs kinds = 960 cells; 240 harnesses of 4 cells each:
//   c16_<op>_<lhs kind>_x_scalar   rhs kinds null bool int string
//   c16_<op>_<lhs kind>_x_heap     rhs kinds list object func builtin
// one macro invocation line per cell.  kinds: null bool int string list object func (user function) builtin (builtin function).
// Child module of `eval` (injected with #[cfg(kani)] #[path] mod), so private fns are visible.
#![allow(unused_imports, dead_code, unused_macros, clippy::all)]
use super::*;

pub fn fmt_stub(_args: core::fmt::Arguments<'_>) -> String {
    String::new()
}

// Contracts of the std division primitives (nondet result where defined).  The typing clause
// checked here does not depend on the quotient; see eval_arith.rs (C06) for the value contract.
pub fn checked_div_stub(a: i64, b: i64) -> Option<i64> {
    if b == 0 || (a == i64::MIN && b == -1) {
        None
    } else {
        let q: i64 = kani::any();
        Some(q)
    }
}

pub fn wrapping_div_stub(a: i64, b: i64) -> i64 {
    assert!(b != 0, "wrapping_div_precondition_nonzero_divisor");
    if b == -1 {
        a.wrapping_neg()
    } else {
        let q: i64 = kani::any();
        q
    }
}

pub fn checked_rem_stub(a: i64, b: i64) -> Option<i64> {
    if b == 0 || (a == i64::MIN && b == -1) {
        None
    } else {
        let r: i64 = kani::any();
        Some(r)
    }
}

pub fn wrapping_rem_stub(a: i64, b: i64) -> i64 {
    assert!(b != 0, "wrapping_rem_precondition_nonzero_divisor");
    if b == -1 {
        0
    } else {
        let r: i64 = kani::any();
        r
    }
}

// never called: only its address is stored in the builtin function value
fn trivial_builtin(this: Option<SourcedValue>, args: Vec<SourcedValue>) -> Result<SourcedValue> {
    std::mem::forget(this);
    std::mem::forget(args);
    Err(Error::BreakOutsideLoop)
}

fn mk_user_func() -> Value {
    Value::Func(Arc::new(Mutex::new(Func{
        name: None,
        args: vec![],
        collect_args: false,
        stmts: vec![],
        closure: ScopeStack::new(vec![]),
    })))
}

// A builtin function value.  `Value` is niche-encoded: every other variant stores a constant tag
// in the first word, but for BuiltinFunc that word is the capacity of `name`, and CBMC does not
// constant-fold it out of the freshly built union literal (the literal contains the address of
// `trivial_builtin`).  That makes the kind of the value symbolic and lets symex wander into the
// container arms (measured: `builtin + []` does not terminate).  Rewriting `name` in place
// through the variant makes the first word a plain constant again (measured: 6 s).
// Semantically this is just `Value::BuiltinFunc{name: "b", f: trivial_builtin}`.
fn mk_builtin() -> Value {
    let text: &str = "b";
    let mut v = Value::BuiltinFunc{name: String::new(), f: trivial_builtin};
    match &mut v {
        Value::BuiltinFunc{name, ..} => { *name = String::from(text); },
        _ => unreachable!(),
    }
    v
}

// ---------------------------------------------------------------------------------------------
// The contract of one cell (one macro invocation = one cell; `l`, `c`, `op`, `loc` come from the
// enclosing harness).
//
// out of the documented domain: the result is Err(AtLoc{source, line, col}) at the operator's
// location, and `source` is the typing diagnostic naming the same operator and both operand
// types in order.  InvalidOpTypes carries the operand values (rendered with render_type, whose
// names are checked in typefn_names.rs); InvalidEqOpTypes carries the rendered names.
// ---------------------------------------------------------------------------------------------
macro_rules! cell_rejected {
    ($l:ident, $c:ident, $op:ident, $loc:ident, $opv:ident, $lhs:expr, $rhs:expr, $lpat:pat, $rpat:pat, $cover:literal) => {{
        let lhs = $lhs;
        let rhs = $rhs;
        let r = apply_binary_operation(&$op, &$loc, &lhs, &rhs);
        kani::cover!(matches!(&r, Err(_)), $cover);
        match &r {
            Err(Error::AtLoc{source, line, col}) => {
                assert!(*line == $l && *col == $c, "type_error_at_operator_location");
                match &**source {
                    Error::InvalidOpTypes{op: eop, lhs: el, rhs: er} => {
                        assert!(matches!(eop, BinaryOp::$opv), "type_error_names_the_operator");
                        assert!(matches!(el, $lpat) && matches!(er, $rpat), "type_error_names_operand_types_in_order");
                    },
                    _ => assert!(false, "out_of_domain_operands_get_a_type_diagnostic"),
                }
            },
            _ => assert!(false, "out_of_domain_operands_are_rejected"),
        }
        std::mem::forget(r);
        std::mem::forget(lhs);
        std::mem::forget(rhs);
    }};
}

macro_rules! cell_rejected_eq {
    ($l:ident, $c:ident, $op:ident, $loc:ident, $opv:ident, $lhs:expr, $rhs:expr, $lname:ident, $rname:ident, $cover:literal) => {{
        let lhs = $lhs;
        let rhs = $rhs;
        let r = apply_binary_operation(&$op, &$loc, &lhs, &rhs);
        kani::cover!(matches!(&r, Err(_)), $cover);
        match &r {
            Err(Error::AtLoc{source, line, col}) => {
                assert!(*line == $l && *col == $c, "type_error_at_operator_location");
                match &**source {
                    Error::InvalidEqOpTypes{op: eop, lhs_type, rhs_type, ..} => {
                        assert!(matches!(eop, BinaryOp::$opv), "type_error_names_the_operator");
                        assert!($lname(lhs_type) && $rname(rhs_type), "type_error_names_operand_types_in_order");
                    },
                    _ => assert!(false, "out_of_domain_operands_get_a_type_diagnostic"),
                }
            },
            _ => assert!(false, "out_of_domain_operands_are_rejected"),
        }
        std::mem::forget(r);
        std::mem::forget(lhs);
        std::mem::forget(rhs);
    }};
}

// in the documented domain, non-arithmetic result: Ok(v) with v of the documented kind.
macro_rules! cell_accepted {
    ($l:ident, $c:ident, $op:ident, $loc:ident, $opv:ident, $lhs:expr, $rhs:expr, $respat:pat, $cover:literal) => {{
        let lhs = $lhs;
        let rhs = $rhs;
        let r = apply_binary_operation(&$op, &$loc, &lhs, &rhs);
        kani::cover!(matches!(&r, Ok(_)), $cover);
        match &r {
            Ok($respat) => {},
            Ok(_) => assert!(false, "result_kind_is_documented"),
            Err(_) => assert!(false, "in_domain_operands_are_accepted"),
        }
        std::mem::forget(r);
        std::mem::forget(lhs);
        std::mem::forget(rhs);
    }};
}

// in the documented domain, integer arithmetic: Ok(Int) or the located IntOverflow diagnostic of
// C06 (result outside 64 bits / undefined quotient) -- never a typing diagnostic.
macro_rules! cell_accepted_arith {
    ($l:ident, $c:ident, $op:ident, $loc:ident, $opv:ident, $lhs:expr, $rhs:expr, $cover:literal) => {{
        let lhs = $lhs;
        let rhs = $rhs;
        let r = apply_binary_operation(&$op, &$loc, &lhs, &rhs);
        kani::cover!(matches!(&r, Ok(_)), $cover);
        match &r {
            Ok(Value::Int(_)) => {},
            Ok(_) => assert!(false, "result_kind_is_documented"),
            Err(Error::AtLoc{source, ..}) => {
                assert!(matches!(&**source, Error::IntOverflow{..}), "in_domain_operands_are_accepted");
            },
            Err(_) => assert!(false, "in_domain_operands_are_accepted"),
        }
        std::mem::forget(r);
        std::mem::forget(lhs);
        std::mem::forget(rhs);
    }};
}

// loop-free comparison of a diagnostic's type name with a documented name
'''


def name_fn(name):
    conds = [f"b.len() == {len(name)}"] + [f"b[{i}] == b'{ch}'" for i, ch in enumerate(name)]
    return (f"fn name_is_{name}(s: &String) -> bool {{\n"
            f"    let b = s.as_bytes();\n"
            f"    {' && '.join(conds)}\n"
            f"}}\n")


def cover_name(optag, lk, rk, dom):
    return f"cover_{optag}_{lk}_{rk}_{'accepted' if dom else 'rejected'}"


def cell(optag, op, lk, rk):
    """one source line = one cell"""
    dom = domain(op, lk, rk)
    cov = cover_name(optag, lk, rk, dom)
    head = f"l, c, op, loc, {op}, {CONSTRUCT[lk]}, {CONSTRUCT[rk]}"
    if dom == "int":
        return f"    cell_accepted_arith!({head}, \"{cov}\");\n"
    if dom:
        return f"    cell_accepted!({head}, {RESULT_PATTERN[dom]}, \"{cov}\");\n"
    if op in EQ:
        return f"    cell_rejected_eq!({head}, name_is_{TYPE_NAME[lk]}, name_is_{TYPE_NAME[rk]}, \"{cov}\");\n"
    return f"    cell_rejected!({head}, {TYPE_PATTERN[lk]}, {TYPE_PATTERN[rk]}, \"{cov}\");\n"


def harness(optag, op, lk, group, rks):
    doms = [domain(op, lk, rk) for rk in rks]
    # `[a, b].concat()` in the `+` arm iterates over its two operands: bound 3 covers it
    unwind = 3 if (op == "Sum" and any(d in ("string", "list") for d in doms)) else 2
    out = ["#[kani::proof]\n", f"#[kani::unwind({unwind})]\n", "#[kani::stub(alloc::fmt::format, fmt_stub)]\n"]
    if "int" in doms and op == "Div":
        out.append("#[kani::stub(i64::checked_div, checked_div_stub)]\n")
        out.append("#[kani::stub(i64::wrapping_div, wrapping_div_stub)]\n")
    if "int" in doms and op == "Mod":
        out.append("#[kani::stub(i64::checked_rem, checked_rem_stub)]\n")
        out.append("#[kani::stub(i64::wrapping_rem, wrapping_rem_stub)]\n")
    out.append(f"fn {harness_name(optag, lk, group)}() {{\n")
    out.append("    let l: usize = kani::any();\n")
    out.append("    let c: usize = kani::any();\n")
    out.append(f"    let op = BinaryOp::{op};\n")
    out.append("    let loc = (l, c);\n")
    for rk in rks:
        out.append(cell(optag, op, lk, rk))
    out.append("}\n")
    return "".join(out)


def cell_line(optag, lk, rk):
    """1-based line of the cell's macro invocation in the generated file (to map a failed clause's
    source location back to its cell)."""
    needle = f"\"{cover_name(optag, lk, rk, domain(dict((t, o) for (t, o, _) in OPS)[optag], lk, rk))}\""
    for i, line in enumerate(generate().splitlines(), 1):
        if needle in line:
            return i
    return None


def generate():
    out = [PRELUDE]
    for n in ["null", "bool", "int", "string", "list", "object", "func"]:
        out.append(name_fn(n))
    for (optag, op, sym) in OPS:
        out.append(f"\n// ---------------------------------------------------------------- {op}  `{sym}`\n")
        for lk in KINDS:
            for (group, rks) in GROUPS:
                out.append("\n" + harness(optag, op, lk, group, rks))
    return "".join(out)


def main(argv):
    out = DEFAULT_OUT
    check = False
    it = iter(argv)
    for a in it:
        if a == "--out":
            out = next(it)
        elif a == "--check":
            check = True
        else:
            sys.stderr.write(__doc__)
            return 2
    txt = generate()
    if check:
        try:
            cur = open(out).read()
        except OSError:
            cur = None
        return 0 if cur == txt else 1
    tmp = out + ".tmp"
    with open(tmp, "w") as f:
        f.write(txt)
    os.replace(tmp, out)
    return 0


if __name__ == "__main__":
    sys.exit(main(sys.argv[1:]))
