#!/usr/bin/env python3
"""Generator for /verif/kani/eval_matrix.rs (property C16, operator typing matrix).

Writes Kani contract harnesses for eval::apply_binary_operation covering
15 operators x 8 lhs kinds x 8 rhs kinds.  One harness per (operator, lhs kind), named
c16_<op>_<lhskind>, runs the 8 rhs cells of that row in sequence.  Value kinds are concrete
per cell, scalar payloads are symbolic, containers are empty, nothing is dropped.

The output is deterministic (no timestamps, fixed iteration order) so it can be committed; the
driver re-runs this script before building (GENERATORS in /verif/lib/props_c16.py).

usage: gen_matrix.py [--out FILE] [--check]     (--check: exit 1 if FILE differs from what would be written)

The domain table below is transcribed from the *property statement* C16, not from the code:
  +              two ints, two strings or two lists
  - * / %        two ints
  < <= > >=      two ints
  && ||          two bools
  == !=          two values of the same non-function kind
  === !==        two lists, two objects or two user-defined functions
Type names in diagnostics: bool int string list object func, null for null (both user functions
and builtin functions are of type `func`).
"""
import os
import sys

HERE = os.path.dirname(os.path.abspath(__file__))
DEFAULT_OUT = os.path.join(HERE, "eval_matrix.rs")

# (harness tag, BinaryOp variant, Seed source symbol)
OPS = [
    ("sum", "Sum", "+"), ("sub", "Sub", "-"), ("mul", "Mul", "*"), ("div", "Div", "/"), ("mod", "Mod", "%"),
    ("and", "And", "&&"), ("or", "Or", "||"),
    ("eq", "Eq", "=="), ("ne", "Ne", "!="),
    ("gt", "Gt", ">"), ("gte", "Gte", ">="), ("lt", "Lt", "<"), ("lte", "Lte", "<="),
    ("refeq", "RefEq", "==="), ("refne", "RefNe", "!=="),
]
KINDS = ["null", "bool", "int", "string", "list", "object", "func", "builtin"]

# documented type name (what `v->type()` returns; `null` for null)
TYPE_NAME = {"null": "null", "bool": "bool", "int": "int", "string": "string", "list": "list",
             "object": "object", "func": "func", "builtin": "func"}

# Rust pattern matching every Value whose documented type name is TYPE_NAME[kind]
TYPE_PATTERN = {
    "null": "Value::Null", "bool": "Value::Bool(_)", "int": "Value::Int(_)", "string": "Value::Str(_)",
    "list": "Value::List(_)", "object": "Value::Object(_)",
    "func": "Value::Func(_) | Value::BuiltinFunc{..}", "builtin": "Value::Func(_) | Value::BuiltinFunc{..}",
}

ARITH = ("Sub", "Mul", "Div", "Mod")
ORDER = ("Gt", "Gte", "Lt", "Lte")
LOGIC = ("And", "Or")
EQ = ("Eq", "Ne")
REFEQ = ("RefEq", "RefNe")


def domain(op, lk, rk):
    """None if (lk, rk) is outside the documented domain of `op`, else the documented result:
    'int' (Int or located IntOverflow), 'intonly'... see RESULT_PATTERN."""
    if op == "Sum":
        if lk == rk and lk in ("int", "string", "list"):
            return lk
        return None
    if op in ARITH:
        return "int" if (lk, rk) == ("int", "int") else None
    if op in ORDER:
        return "bool" if (lk, rk) == ("int", "int") else None
    if op in LOGIC:
        return "bool" if (lk, rk) == ("bool", "bool") else None
    if op in EQ:
        if lk == rk and lk in ("null", "bool", "int", "string", "list", "object"):
            return "bool"
        return None
    if op in REFEQ:
        if lk == rk and lk in ("list", "object", "func"):
            return "bool"
        return None
    raise ValueError(op)


RESULT_PATTERN = {"int": "Value::Int(_)", "bool": "Value::Bool(_)", "string": "Value::Str(_)",
                  "list": "Value::List(_)"}


# rhs cells per harness (8 = one harness per (operator, lhs kind) row); must divide 8
CELLS_PER_HARNESS = 8


def parts():
    return len(KINDS) // CELLS_PER_HARNESS


def harness_name(optag, lk, part=0):
    if parts() == 1:
        return f"c16_{optag}_{lk}"
    return f"c16_{optag}_{lk}_{part}"


def part_kinds(part):
    return list(enumerate(KINDS))[part * CELLS_PER_HARNESS:(part + 1) * CELLS_PER_HARNESS]


def harness_names():
    return [harness_name(t, lk, p) for (t, _, _) in OPS for lk in KINDS for p in range(parts())]


def payload_inputs(kind, side, idx):
    """[(name, type)] of the kani::any() calls made when constructing a value of `kind`."""
    if kind == "bool":
        return [(f"{side}{idx}", "bool")]
    if kind == "int":
        return [(f"{side}{idx}", "i64")]
    if kind == "string":
        return [(f"{side}{idx}", "u8")]
    return []


def inputs_for(optag, lk, part=0):
    """kani::any() call order of harness c16_<optag>_<lk>[_<part>] (for counterexample decoding)."""
    ins = [("l", "usize"), ("c", "usize")]
    for i, rk in part_kinds(part):
        ins += payload_inputs(lk, "a", i)
        ins += payload_inputs(rk, "b", i)
    return ins


def construct(kind):
    if kind == "null":
        return "Value::Null"
    if kind == "bool":
        return "Value::Bool(kani::any())"
    if kind == "int":
        return "Value::Int(kani::any())"
    if kind == "string":
        return "Value::Str(vec![kani::any::<u8>()])"
    if kind == "list":
        return "Value::List(Arc::new(Mutex::new(vec![])))"
    if kind == "object":
        return "Value::Object(Arc::new(Mutex::new(BTreeMap::new())))"
    if kind == "func":
        return "mk_user_func()"
    if kind == "builtin":
        return "mk_builtin()"
    raise ValueError(kind)


PRELUDE = '''\
// GENERATED by /verif/kani/gen_matrix.py -- do not edit by hand; re-run the generator.
// Property C16: operator typing matrix for eval::apply_binary_operation.
// 15 operators x 8 lhs kinds x 8 rhs kinds; one harness per (operator, lhs kind), 8 rhs cells each.
// Child module of `eval` (injected with #[cfg(kani)] #[path] mod), so private fns are visible.
#![allow(unused_imports, dead_code, clippy::all)]
use super::*;

pub fn fmt_stub(_args: core::fmt::Arguments<'_>) -> String {
    String::new()
}

// Contracts of the std division primitives (nondet result where defined); the typing clause
// checked here does not depend on the quotient, see eval_arith.rs (C06) for the value contract.
pub fn checked_div_stub(a: i64, b: i64) -> Option<i64> {
    if b == 0 || (a == i64::MIN && b == -1) {
        None
    } else {
        let q: i64 = kani::any();
        Some(q)
    }
}

pub fn checked_rem_stub(a: i64, b: i64) -> Option<i64> {
    if b == 0 || (a == i64::MIN && b == -1) {
        None
    } else {
        let r: i64 = kani::any();
        Some(r)
    }
}

pub fn wrapping_rem_stub(a: i64, b: i64) -> i64 {
    assert!(b != 0, "wrapping_rem_precondition_nonzero_divisor");
    if b == -1 {
        0
    } else {
        let r: i64 = kani::any();
        r
    }
}

// never called: only its address is stored in the builtin function value
fn trivial_builtin(this: Option<SourcedValue>, args: Vec<SourcedValue>) -> Result<SourcedValue> {
    std::mem::forget(this);
    std::mem::forget(args);
    Err(Error::BreakOutsideLoop)
}

fn mk_user_func() -> Value {
    Value::Func(Arc::new(Mutex::new(Func{
        name: None,
        args: vec![],
        collect_args: false,
        stmts: vec![],
        closure: ScopeStack::new(vec![]),
    })))
}

// A builtin function value.  `Value` is niche-encoded: every other variant stores a constant tag
// in the first word, but for BuiltinFunc that word is the capacity of `name`, and CBMC does not
// constant-fold it out of the freshly built union literal (the literal contains the address of
// `trivial_builtin`), which makes the value's kind symbolic and lets symex wander into the
// container arms (measured: does not terminate).  Rewriting `name` in place through the variant
// makes the first word a plain constant again.  Semantically this is just
// `Value::BuiltinFunc{name: "b", f: trivial_builtin}`.
fn mk_builtin() -> Value {
    let mut v = Value::BuiltinFunc{name: String::new(), f: trivial_builtin};
    match &mut v {
        Value::BuiltinFunc{name, ..} => { *name = String::from("b"); },
        _ => unreachable!(),
    }
    v
}

// loop-free comparison of a diagnostic's type name with a documented name
'''


def name_fn(name):
    conds = [f"b.len() == {len(name)}"] + [f"b[{i}] == b'{ch}'" for i, ch in enumerate(name)]
    return (f"fn name_is_{name}(s: &String) -> bool {{\n"
            f"    let b = s.as_bytes();\n"
            f"    {' && '.join(conds)}\n"
            f"}}\n")


def cell(optag, op, lk, rk, i):
    tag = f"{optag}_{lk}_{rk}"
    dom = domain(op, lk, rk)
    out = []
    w = out.append
    w(f"    // cell {i}: {lk} {op} {rk} -- {'in domain, result ' + dom if dom else 'out of domain'}")
    w("    {")
    w(f"        let lhs = {construct(lk)};")
    w(f"        let rhs = {construct(rk)};")
    w("        let r = apply_binary_operation(&op, &loc, &lhs, &rhs);")
    if dom:
        w(f"        kani::cover!(matches!(&r, Ok(_)), \"cover_{tag}_accepted\");")
        w("        match &r {")
        w(f"            Ok({RESULT_PATTERN[dom]}) => {{}},")
        w("            Ok(_) => assert!(false, \"result_kind_is_documented\"),")
        if dom == "int":
            # an arithmetic result outside 64 bits / undefined quotient is reported (C06), it is
            # not a typing diagnostic; anything else is a rejection of in-domain operands
            w("            Err(Error::AtLoc{source, ..}) => {")
            w("                assert!(matches!(&**source, Error::IntOverflow{..}), \"in_domain_operands_are_accepted\");")
            w("            },")
        w("            Err(_) => assert!(false, \"in_domain_operands_are_accepted\"),")
        w("        }")
    else:
        w(f"        kani::cover!(matches!(&r, Err(_)), \"cover_{tag}_rejected\");")
        w("        match &r {")
        w("            Err(Error::AtLoc{source, line, col}) => {")
        w("                assert!(*line == l && *col == c, \"type_error_at_operator_location\");")
        w("                match &**source {")
        if op in EQ:
            w("                    Error::InvalidEqOpTypes{op: eop, lhs_type, rhs_type, ..} => {")
            w(f"                        assert!(matches!(eop, BinaryOp::{op}), \"type_error_names_the_operator\");")
            w(f"                        assert!(name_is_{TYPE_NAME[lk]}(lhs_type) && name_is_{TYPE_NAME[rk]}(rhs_type), "
              "\"type_error_names_operand_types_in_order\");")
            w("                    },")
        else:
            w("                    Error::InvalidOpTypes{op: eop, lhs: el, rhs: er} => {")
            w(f"                        assert!(matches!(eop, BinaryOp::{op}), \"type_error_names_the_operator\");")
            w(f"                        assert!(matches!(el, {TYPE_PATTERN[lk]}) && matches!(er, {TYPE_PATTERN[rk]}), "
              "\"type_error_names_operand_types_in_order\");")
            w("                    },")
        w("                    _ => assert!(false, \"out_of_domain_operands_get_a_type_diagnostic\"),")
        w("                }")
        w("            },")
        w("            _ => assert!(false, \"out_of_domain_operands_are_rejected\"),")
        w("        }")
    w("        std::mem::forget(r);")
    w("        std::mem::forget(lhs);")
    w("        std::mem::forget(rhs);")
    w("    }")
    return "\n".join(out) + "\n"


def harness(optag, op, lk, part=0):
    out = []
    w = out.append
    w("#[kani::proof]")
    # `[a, b].concat()` in the Sum arm iterates over its two operands: bound 3 covers it
    w("#[kani::unwind(3)]" if op == "Sum" else "#[kani::unwind(2)]")
    w("#[kani::stub(alloc::fmt::format, fmt_stub)]")
    if lk == "int" and op == "Div":
        w("#[kani::stub(i64::checked_div, checked_div_stub)]")
    if lk == "int" and op == "Mod":
        w("#[kani::stub(i64::checked_rem, checked_rem_stub)]")
        w("#[kani::stub(i64::wrapping_rem, wrapping_rem_stub)]")
    w(f"fn {harness_name(optag, lk, part)}() {{")
    w("    let l: usize = kani::any();")
    w("    let c: usize = kani::any();")
    w(f"    let op = BinaryOp::{op};")
    w("    let loc = (l, c);")
    body = "\n".join(out) + "\n"
    for i, rk in part_kinds(part):
        body += cell(optag, op, lk, rk, i)
    body += "}\n"
    return body


def generate():
    out = [PRELUDE]
    for n in ["null", "bool", "int", "string", "list", "object", "func"]:
        out.append(name_fn(n))
    for (optag, op, _sym) in OPS:
        out.append(f"\n// ---------------------------------------------------------------- {op}\n")
        for lk in KINDS:
            for p in range(parts()):
                out.append("\n" + harness(optag, op, lk, p))
    return "".join(out)


def main(argv):
    out = DEFAULT_OUT
    check = False
    it = iter(argv)
    for a in it:
        if a == "--out":
            out = next(it)
        elif a == "--check":
            check = True
        else:
            sys.stderr.write(__doc__)
            return 2
    txt = generate()
    if check:
        try:
            cur = open(out).read()
        except OSError:
            cur = None
        return 0 if cur == txt else 1
    tmp = out + ".tmp"
    with open(tmp, "w") as f:
        f.write(txt)
    os.replace(tmp, out)
    return 0


if __name__ == "__main__":
    sys.exit(main(sys.argv[1:]))
