// Kani contract harnesses for the typed coercion points of the evaluator (property C16):
//   eval_expr_to_bool   conditions (`if`, `while`)
//   eval_expr_to_i64    range bounds
//   eval_expr_to_index  indices and range-index bounds
//   eval_expr_to_str    property names
// Child module of `eval` (injected with #[cfg(kani)] #[path] mod), so private fns are visible.
//
// Contract chaining: the callee `eval_expr` (not tractable for CBMC, see README rule 4) is replaced
// by a stub that returns Ok(value) of ONE concrete kind per harness with a symbolic scalar payload;
// what is checked is the caller: it accepts exactly the documented kind, hands the payload through
// unchanged, and for every other kind stops with a type diagnostic at the expression's own location
// naming the expected type and carrying the offending value -- never coercing.
//   expected_kind_is_accepted / accepted_payload_is_unchanged
//   other_kinds_are_rejected / type_error_at_expression_location / type_error_names_expected_type /
//   type_error_names_actual_type / type_error_describes_the_construct
//   negative_index_is_rejected / negative_index_error_at_expression_location / ...
#![allow(unused_imports, dead_code, clippy::all)]
use super::*;

use super::builtins::TypeFunctions;

pub fn fmt_stub(_args: core::fmt::Arguments<'_>) -> String {
    String::new()
}

// ---- the eval_expr stub: kind selected by a static that each harness sets to a constant ----------
pub static mut STUB_KIND: u8 = 0;
pub static mut STUB_BOOL: bool = false;
pub static mut STUB_INT: i64 = 0;
pub static mut STUB_BYTE: u8 = 0;
pub static mut STUB_CALLS: u32 = 0;

const K_NULL: u8 = 0;
const K_BOOL: u8 = 1;
const K_INT: u8 = 2;
const K_STRING: u8 = 3;
const K_LIST: u8 = 4;
const K_OBJECT: u8 = 5;
const K_FUNC: u8 = 6;
const K_BUILTIN: u8 = 7;

// never called: only its address is stored in the builtin function value
fn trivial_builtin(this: Option<SourcedValue>, args: Vec<SourcedValue>) -> Result<SourcedValue> {
    std::mem::forget(this);
    std::mem::forget(args);
    Err(Error::BreakOutsideLoop)
}

// see eval_matrix.rs: writing `name` in place makes the niche-encoded kind of the value a constant
fn mk_builtin() -> Value {
    let text: &str = "b";
    let mut v = Value::BuiltinFunc{name: String::new(), f: trivial_builtin};
    match &mut v {
        Value::BuiltinFunc{name, ..} => { *name = String::from(text); },
        _ => unreachable!(),
    }
    v
}

pub fn eval_expr_stub(
    _context: &EvaluationContext,
    _scopes: &mut ScopeStack,
    _expr: &Expr,
) -> Result<SourcedValue> {
    unsafe { STUB_CALLS += 1; }
    let v = match unsafe { STUB_KIND } {
        K_NULL => Value::Null,
        K_BOOL => Value::Bool(unsafe { STUB_BOOL }),
        K_INT => Value::Int(unsafe { STUB_INT }),
        K_STRING => Value::Str(vec![unsafe { STUB_BYTE }]),
        K_LIST => Value::List(Arc::new(Mutex::new(vec![]))),
        K_OBJECT => Value::Object(Arc::new(Mutex::new(BTreeMap::new()))),
        K_FUNC => Value::Func(Arc::new(Mutex::new(Func{
            name: None,
            args: vec![],
            collect_args: false,
            stmts: vec![],
            closure: ScopeStack::new(vec![]),
        }))),
        _ => mk_builtin(),
    };
    Ok(SourcedValue{v, source: None})
}

fn empty_object() -> ObjectRef_ {
    Arc::new(Mutex::new(BTreeMap::new()))
}
type ObjectRef_ = Arc<Mutex<BTreeMap<String, SourcedValue>>>;

fn mk_builtins() -> Builtins {
    Builtins{
        std: empty_object(),
        type_functions: TypeFunctions{
            bools: empty_object(),
            ints: empty_object(),
            strs: empty_object(),
            lists: empty_object(),
            objects: empty_object(),
            funcs: empty_object(),
        },
    }
}

fn name_is_bool(s: &String) -> bool {
    let b = s.as_bytes();
    b.len() == 4 && b[0] == b'b' && b[1] == b'o' && b[2] == b'o' && b[3] == b'l'
}
fn name_is_int(s: &String) -> bool {
    let b = s.as_bytes();
    b.len() == 3 && b[0] == b'i' && b[1] == b'n' && b[2] == b't'
}
fn name_is_string(s: &String) -> bool {
    let b = s.as_bytes();
    b.len() == 6 && b[0] == b's' && b[1] == b't' && b[2] == b'r' && b[3] == b'i' && b[4] == b'n' && b[5] == b'g'
}
fn descr_is_d(s: &String) -> bool {
    let b = s.as_bytes();
    b.len() == 1 && b[0] == b'd'
}

// the located IncorrectType diagnostic
macro_rules! check_rejected {
    ($e:expr, $l:expr, $c:expr, $exp_name:ident, $vpat:pat, $check_descr:expr) => {
        match $e {
            Error::AtLoc{source, line, col} => {
                assert!(*line == $l && *col == $c, "type_error_at_expression_location");
                match &**source {
                    Error::IncorrectType{descr, exp_type, value} => {
                        assert!($exp_name(exp_type), "type_error_names_expected_type");
                        assert!(matches!(value, $vpat), "type_error_names_actual_type");
                        if $check_descr {
                            assert!(descr_is_d(descr), "type_error_describes_the_construct");
                        }
                    },
                    _ => assert!(false, "other_kinds_get_a_type_diagnostic"),
                }
            },
            _ => assert!(false, "other_kinds_get_a_located_type_diagnostic"),
        }
    };
}

macro_rules! prologue {
    ($kind:expr, $l:ident, $c:ident, $bs:ident, $ctx:ident, $scopes:ident, $expr:ident) => {
        let $l: usize = kani::any();
        let $c: usize = kani::any();
        unsafe { STUB_KIND = $kind; }
        let $bs = mk_builtins();
        let $ctx = EvaluationContext{builtins: &$bs, cur_script_dir: PathBuf::new()};
        let mut $scopes = ScopeStack::new(vec![]);
        let $expr: Expr = (RawExpr::Null, ($l, $c));
    };
}

macro_rules! epilogue {
    ($r:ident, $bs:ident, $ctx:ident, $scopes:ident, $expr:ident) => {
        kani::cover!(unsafe { STUB_CALLS } == 1, "chain_callee_evaluated_once");
        std::mem::forget($r);
        std::mem::forget($expr);
        std::mem::forget($scopes);
        std::mem::forget($ctx);
        std::mem::forget($bs);
    };
}

// ---- eval_expr_to_bool ---------------------------------------------------------------------------
macro_rules! to_bool_rejects {
    ($name:ident, $kind:expr, $vpat:pat, $setup:stmt) => {
        #[kani::proof]
        #[kani::unwind(2)]
        #[kani::stub(alloc::fmt::format, fmt_stub)]
        #[kani::stub(eval_expr, eval_expr_stub)]
        fn $name() {
            prologue!($kind, l, c, bs, ctx, scopes, expr);
            $setup;
            let r = eval_expr_to_bool(&ctx, &mut scopes, "d", &expr);
            kani::cover!(matches!(&r, Err(_)), "cover_rejected");
            match &r {
                Ok(_) => assert!(false, "other_kinds_are_rejected"),
                Err(e) => check_rejected!(e, l, c, name_is_bool, $vpat, true),
            }
            epilogue!(r, bs, ctx, scopes, expr);
        }
    };
}

#[kani::proof]
#[kani::unwind(2)]
#[kani::stub(alloc::fmt::format, fmt_stub)]
#[kani::stub(eval_expr, eval_expr_stub)]
fn c16_to_bool_bool() {
    prologue!(K_BOOL, l, c, bs, ctx, scopes, expr);
    let b: bool = kani::any();
    unsafe { STUB_BOOL = b; }
    let r = eval_expr_to_bool(&ctx, &mut scopes, "d", &expr);
    kani::cover!(matches!(&r, Ok(true)), "cover_accepted_true");
    kani::cover!(matches!(&r, Ok(false)), "cover_accepted_false");
    match &r {
        Ok(v) => assert!(*v == b, "accepted_payload_is_unchanged"),
        Err(_) => assert!(false, "expected_kind_is_accepted"),
    }
    epilogue!(r, bs, ctx, scopes, expr);
}
to_bool_rejects!(c16_to_bool_null, K_NULL, Value::Null, {});
to_bool_rejects!(c16_to_bool_int, K_INT, Value::Int(_), unsafe { STUB_INT = kani::any(); });
to_bool_rejects!(c16_to_bool_string, K_STRING, Value::Str(_), unsafe { STUB_BYTE = kani::any(); });
to_bool_rejects!(c16_to_bool_list, K_LIST, Value::List(_), {});
to_bool_rejects!(c16_to_bool_object, K_OBJECT, Value::Object(_), {});
to_bool_rejects!(c16_to_bool_func, K_FUNC, Value::Func(_) | Value::BuiltinFunc{..}, {});
to_bool_rejects!(c16_to_bool_builtin, K_BUILTIN, Value::Func(_) | Value::BuiltinFunc{..}, {});

// ---- eval_expr_to_i64 ----------------------------------------------------------------------------
macro_rules! to_i64_rejects {
    ($name:ident, $kind:expr, $vpat:pat, $setup:stmt) => {
        #[kani::proof]
        #[kani::unwind(2)]
        #[kani::stub(alloc::fmt::format, fmt_stub)]
        #[kani::stub(eval_expr, eval_expr_stub)]
        fn $name() {
            prologue!($kind, l, c, bs, ctx, scopes, expr);
            $setup;
            let r = eval_expr_to_i64(&ctx, &mut scopes, "d", &expr);
            kani::cover!(matches!(&r, Err(_)), "cover_rejected");
            match &r {
                Ok(_) => assert!(false, "other_kinds_are_rejected"),
                Err(e) => check_rejected!(e, l, c, name_is_int, $vpat, true),
            }
            epilogue!(r, bs, ctx, scopes, expr);
        }
    };
}

#[kani::proof]
#[kani::unwind(2)]
#[kani::stub(alloc::fmt::format, fmt_stub)]
#[kani::stub(eval_expr, eval_expr_stub)]
fn c16_to_i64_int() {
    prologue!(K_INT, l, c, bs, ctx, scopes, expr);
    let n: i64 = kani::any();
    unsafe { STUB_INT = n; }
    let r = eval_expr_to_i64(&ctx, &mut scopes, "d", &expr);
    kani::cover!(matches!(&r, Ok(_)), "cover_accepted");
    match &r {
        Ok(v) => assert!(*v == n, "accepted_payload_is_unchanged"),
        Err(_) => assert!(false, "expected_kind_is_accepted"),
    }
    epilogue!(r, bs, ctx, scopes, expr);
}
to_i64_rejects!(c16_to_i64_null, K_NULL, Value::Null, {});
to_i64_rejects!(c16_to_i64_bool, K_BOOL, Value::Bool(_), unsafe { STUB_BOOL = kani::any(); });
to_i64_rejects!(c16_to_i64_string, K_STRING, Value::Str(_), unsafe { STUB_BYTE = kani::any(); });
to_i64_rejects!(c16_to_i64_list, K_LIST, Value::List(_), {});
to_i64_rejects!(c16_to_i64_object, K_OBJECT, Value::Object(_), {});
to_i64_rejects!(c16_to_i64_func, K_FUNC, Value::Func(_) | Value::BuiltinFunc{..}, {});
to_i64_rejects!(c16_to_i64_builtin, K_BUILTIN, Value::Func(_) | Value::BuiltinFunc{..}, {});

// ---- eval_expr_to_index --------------------------------------------------------------------------
// the diagnostic may be wrapped in the pure context marker EvalIndexToI64Failed
fn strip_index_context(e: &Error) -> &Error {
    match e {
        Error::EvalIndexToI64Failed{source} => &**source,
        other => other,
    }
}

macro_rules! to_index_rejects {
    ($name:ident, $kind:expr, $vpat:pat, $setup:stmt) => {
        #[kani::proof]
        #[kani::unwind(2)]
        #[kani::stub(alloc::fmt::format, fmt_stub)]
        #[kani::stub(eval_expr, eval_expr_stub)]
        fn $name() {
            prologue!($kind, l, c, bs, ctx, scopes, expr);
            $setup;
            let r = eval_expr_to_index(&ctx, &mut scopes, &expr);
            kani::cover!(matches!(&r, Err(_)), "cover_rejected");
            match &r {
                Ok(_) => assert!(false, "other_kinds_are_rejected"),
                Err(e) => {
                    let inner = strip_index_context(e);
                    check_rejected!(inner, l, c, name_is_int, $vpat, false)
                },
            }
            epilogue!(r, bs, ctx, scopes, expr);
        }
    };
}

#[kani::proof]
#[kani::unwind(2)]
#[kani::stub(alloc::fmt::format, fmt_stub)]
#[kani::stub(eval_expr, eval_expr_stub)]
fn c16_to_index_int() {
    prologue!(K_INT, l, c, bs, ctx, scopes, expr);
    let n: i64 = kani::any();
    unsafe { STUB_INT = n; }
    let r = eval_expr_to_index(&ctx, &mut scopes, &expr);
    kani::cover!(n >= 0 && matches!(&r, Ok(_)), "cover_accepted");
    kani::cover!(n < 0 && matches!(&r, Err(_)), "cover_negative_rejected");
    match &r {
        Ok(i) => {
            assert!(n >= 0, "negative_index_is_rejected");
            assert!(*i as u64 == n as u64, "accepted_payload_is_unchanged");
        },
        Err(e) => {
            assert!(n < 0, "expected_kind_is_accepted");
            match e {
                Error::AtLoc{source, line, col} => {
                    assert!(*line == l && *col == c, "negative_index_error_at_expression_location");
                    match &**source {
                        Error::NegativeIndex{index} => assert!(*index == n, "negative_index_error_names_the_index"),
                        _ => assert!(false, "negative_index_error_is_NegativeIndex"),
                    }
                },
                _ => assert!(false, "negative_index_error_is_located"),
            }
        },
    }
    epilogue!(r, bs, ctx, scopes, expr);
}
to_index_rejects!(c16_to_index_null, K_NULL, Value::Null, {});
to_index_rejects!(c16_to_index_bool, K_BOOL, Value::Bool(_), unsafe { STUB_BOOL = kani::any(); });
to_index_rejects!(c16_to_index_string, K_STRING, Value::Str(_), unsafe { STUB_BYTE = kani::any(); });
to_index_rejects!(c16_to_index_list, K_LIST, Value::List(_), {});
to_index_rejects!(c16_to_index_object, K_OBJECT, Value::Object(_), {});
to_index_rejects!(c16_to_index_func, K_FUNC, Value::Func(_) | Value::BuiltinFunc{..}, {});
to_index_rejects!(c16_to_index_builtin, K_BUILTIN, Value::Func(_) | Value::BuiltinFunc{..}, {});

// ---- eval_expr_to_str ----------------------------------------------------------------------------
macro_rules! to_str_rejects {
    ($name:ident, $kind:expr, $vpat:pat, $setup:stmt) => {
        #[kani::proof]
        #[kani::unwind(2)]
        #[kani::stub(alloc::fmt::format, fmt_stub)]
        #[kani::stub(eval_expr, eval_expr_stub)]
        fn $name() {
            prologue!($kind, l, c, bs, ctx, scopes, expr);
            $setup;
            let r = eval_expr_to_str(&ctx, &mut scopes, "d", &expr);
            kani::cover!(matches!(&r, Err(_)), "cover_rejected");
            match &r {
                Ok(_) => assert!(false, "other_kinds_are_rejected"),
                Err(e) => check_rejected!(e, l, c, name_is_string, $vpat, true),
            }
            epilogue!(r, bs, ctx, scopes, expr);
        }
    };
}

// string operand (bounded: one byte, symbolic): accepted with the bytes unchanged; a byte string
// that is not UTF-8 is reported as a string-construction failure, never as a type error.
#[kani::proof]
#[kani::unwind(9)]
#[kani::stub(alloc::fmt::format, fmt_stub)]
#[kani::stub(eval_expr, eval_expr_stub)]
fn c16_to_str_string() {
    prologue!(K_STRING, l, c, bs, ctx, scopes, expr);
    let b: u8 = kani::any();
    unsafe { STUB_BYTE = b; }
    let r = eval_expr_to_str(&ctx, &mut scopes, "d", &expr);
    kani::cover!(matches!(&r, Ok(_)), "cover_accepted");
    kani::cover!(matches!(&r, Err(_)), "cover_not_utf8");
    match &r {
        Ok(s) => {
            let bytes = s.as_bytes();
            assert!(bytes.len() == 1 && bytes[0] == b, "accepted_payload_is_unchanged");
        },
        Err(Error::AtLoc{source, line, col}) => {
            assert!(matches!(&**source, Error::StringConstructionFailed{..}), "expected_kind_is_accepted");
            assert!(b >= 0x80, "utf8_string_is_accepted");
            assert!(*line == l && *col == c, "string_error_at_expression_location");
        },
        Err(_) => assert!(false, "expected_kind_is_accepted"),
    }
    epilogue!(r, bs, ctx, scopes, expr);
}
to_str_rejects!(c16_to_str_null, K_NULL, Value::Null, {});
to_str_rejects!(c16_to_str_bool, K_BOOL, Value::Bool(_), unsafe { STUB_BOOL = kani::any(); });
to_str_rejects!(c16_to_str_int, K_INT, Value::Int(_), unsafe { STUB_INT = kani::any(); });
to_str_rejects!(c16_to_str_list, K_LIST, Value::List(_), {});
to_str_rejects!(c16_to_str_object, K_OBJECT, Value::Object(_), {});
to_str_rejects!(c16_to_str_func, K_FUNC, Value::Func(_) | Value::BuiltinFunc{..}, {});
to_str_rejects!(c16_to_str_builtin, K_BUILTIN, Value::Func(_) | Value::BuiltinFunc{..}, {});
