// Kani contract harnesses for eval::get_str_range_index, eval::get_list_range_index and the
// concatenation arms (Str+Str, List+List) of eval::apply_binary_operation (C11: sequence laws
// for range reads and concatenation). Child module of `eval` (src/eval/mod.rs).
//
// All units here are BOUNDED in the sequence length (stated per harness).
//  * string range reads: bytes and BOTH optional bounds (present or omitted, full usize domain)
//    are symbolic;
//  * list range reads: Int payloads symbolic, the bounds are concrete per cell (omitted or
//    0 ..= len+1, all combinations) -- see list_range_cell for the measurement behind this;
//  * concatenation: strings of length <= 2 each; lists only in the empty cells (see below).
use super::*;

pub fn fmt_stub(_args: core::fmt::Arguments<'_>) -> String {
    String::new()
}

const MAXLEN: usize = 3;

fn sym_bound() -> Option<usize> {
    let present: bool = kani::any();
    let v: usize = kani::any();
    if present { Some(v) } else { None }
}

fn bound_or(b: &Option<usize>, dflt: usize) -> usize {
    match b {
        Some(v) => *v,
        None => dflt,
    }
}

// ---------------------------------------------------------------------------------------
// s[a:b] on strings
// ---------------------------------------------------------------------------------------
fn str_range_contract(n: usize) {
    let bytes: [u8; MAXLEN] = [kani::any(), kani::any(), kani::any()];
    let start = sym_bound();
    let end = sym_bound();
    let mut s: Vec<u8> = Vec::with_capacity(MAXLEN);
    let mut i = 0;
    while i < n {
        s.push(bytes[i]);
        i += 1;
    }
    // omitted bound means 0 / len
    let a = bound_or(&start, 0);
    let b = bound_or(&end, n);
    let defined = a <= b && b <= n;

    let r = get_str_range_index(&s, start, end);

    match &r {
        Ok(SourcedValue{v: Value::Str(v), source: None}) => {
            assert!(defined, "range_read_defined_only_for_a_le_b_le_len");
            assert!(v.len() == b - a, "range_read_has_length_b_minus_a");
            let mut k = 0;
            while k < MAXLEN {
                if defined && k < b - a && k < v.len() {
                    assert!(v[k] == bytes[a + k], "range_read_kth_element_is_s_a_plus_k");
                }
                k += 1;
            }
        },
        Ok(_) => assert!(false, "string_range_read_yields_a_plain_string"),
        Err(Error::RangeOutOfStringBounds{start: es, end: ee}) => {
            assert!(!defined, "range_read_inside_domain_is_not_an_error");
            assert!(*es == a && *ee == b, "out_of_domain_error_names_effective_bounds");
        },
        Err(_) => assert!(false, "out_of_domain_range_read_is_reported_as_range_error"),
    }
    // operand unchanged
    assert!(s.len() == n, "range_read_leaves_operand_unchanged");
    let mut k = 0;
    while k < MAXLEN {
        if k < n {
            assert!(s[k] == bytes[k], "range_read_leaves_operand_unchanged");
        }
        k += 1;
    }
    kani::cover!(defined && b - a == n, "cover_full_range");
    kani::cover!(defined && a == b, "cover_empty_range");
    kani::cover!(defined && start.is_none() && end.is_some(), "cover_omitted_start");
    kani::cover!(defined && start.is_some() && end.is_none(), "cover_omitted_end");
    kani::cover!(start.is_none() && end.is_none(), "cover_both_omitted");
    kani::cover!(a > b, "cover_start_after_end");
    kani::cover!(a <= b && b > n, "cover_end_past_len");
    kani::cover!(start.is_none() && !defined, "cover_omitted_start_out_of_domain");
    kani::cover!(end.is_none() && !defined, "cover_omitted_end_out_of_domain");
    std::mem::forget(r);
    std::mem::forget(s);
}

macro_rules! str_range_harness {
    ($name:ident, $n:expr) => {
        #[kani::proof]
        #[kani::unwind(5)]
        #[kani::stub(alloc::fmt::format, fmt_stub)]
        fn $name() {
            str_range_contract($n);
        }
    };
}

str_range_harness!(c11_str_range_len0, 0);
str_range_harness!(c11_str_range_len1, 1);
str_range_harness!(c11_str_range_len2, 2);
str_range_harness!(c11_str_range_len3, 3);

// ---------------------------------------------------------------------------------------
// xs[a:b] on lists (elements Int)
// ---------------------------------------------------------------------------------------
fn int_list_n(n: usize, e: &[i64; MAXLEN]) -> ListRef {
    let mut v: Vec<SourcedValue> = Vec::with_capacity(MAXLEN);
    let mut i = 0;
    while i < n {
        v.push(SourcedValue{v: Value::Int(e[i]), source: None});
        i += 1;
    }
    Arc::new(Mutex::new(v))
}

fn elem_is_int(sv: &SourcedValue, want: i64) -> bool {
    matches!(sv, SourcedValue{v: Value::Int(x), source: None} if *x == want)
}

// list behind `l` is unlocked, has length n and payloads e[0..n]
fn list_unchanged(l: &ListRef, n: usize, e: &[i64; MAXLEN]) -> bool {
    match l.try_lock() {
        Ok(g) => {
            let mut ok = g.len() == n;
            let mut k = 0;
            while k < MAXLEN {
                if ok && k < n {
                    ok = elem_is_int(&g[k], e[k]);
                }
                k += 1;
            }
            ok
        },
        Err(err) => {
            std::mem::forget(err);
            false
        },
    }
}

// One cell: list of n Int elements, the two bounds CONCRETE (omitted, or a number). A symbolic
// bound makes the copy `vs.to_vec()` allocate a symbolic number of 80-byte elements, which CBMC
// does not digest (measured: > 12 GB after 90 s, with either bound symbolic).  Returns whether
// the real function answered Ok (for the covers).
fn list_range_cell(n: usize, e: &[i64; MAXLEN], start: Option<usize>, end: Option<usize>) -> bool {
    let list = int_list_n(n, e);
    let a = bound_or(&start, 0);
    let b = bound_or(&end, n);
    let defined = a <= b && b <= n;

    let r = get_list_range_index(&list, start, end);

    let was_ok = r.is_ok();
    match &r {
        Ok(SourcedValue{v: Value::List(out), source: None}) => {
            assert!(defined, "range_read_defined_only_for_a_le_b_le_len");
            assert!(!Arc::ptr_eq(out, &list), "range_read_result_is_a_fresh_list");
            match out.try_lock() {
                Ok(g) => {
                    assert!(g.len() == b - a, "range_read_has_length_b_minus_a");
                    let mut k = 0;
                    while k < MAXLEN {
                        if defined && k < b - a && k < g.len() {
                            assert!(elem_is_int(&g[k], e[a + k]), "range_read_kth_element_is_s_a_plus_k");
                        }
                        k += 1;
                    }
                },
                Err(err) => {
                    std::mem::forget(err);
                    assert!(false, "range_read_result_is_unlocked");
                },
            }
        },
        Ok(_) => assert!(false, "list_range_read_yields_a_plain_list"),
        Err(Error::RangeOutOfListBounds{start: es, end: ee}) => {
            assert!(!defined, "range_read_inside_domain_is_not_an_error");
            assert!(*es == a && *ee == b, "out_of_domain_error_names_effective_bounds");
        },
        Err(_) => assert!(false, "out_of_domain_range_read_is_reported_as_range_error"),
    }
    assert!(list_unchanged(&list, n, e), "range_read_leaves_operand_unchanged_and_unlocked");
    assert!(Arc::strong_count(&list) == 1, "range_read_result_does_not_alias_operand");
    std::mem::forget(r);
    std::mem::forget(list);
    was_ok
}

// A group of cells for one length: each bound omitted or in 0 ..= n+1.
macro_rules! list_range_harness {
    ($name:ident, $n:expr, $any_defined:expr, [$(($start:expr, $end:expr)),*]) => {
        #[kani::proof]
        #[kani::unwind(5)]
        #[kani::stub(alloc::fmt::format, fmt_stub)]
        fn $name() {
            let e: [i64; MAXLEN] = [kani::any(), kani::any(), kani::any()];
            let mut n_ok = 0usize;
            let mut n_err = 0usize;
            $(
                if list_range_cell($n, &e, $start, $end) { n_ok += 1; } else { n_err += 1; }
            )*
            // (cell-aware: a group whose start is n+1 has no defined cell)
            kani::cover!(n_ok > 0 || !$any_defined, "cover_defined_range_reached");
            kani::cover!(n_err > 0, "cover_out_of_domain_reached");
        }
    };
}

list_range_harness!(c11_list_range_len0, 0, true, [(None, None), (None, Some(0)), (None, Some(1)), (Some(0), None), (Some(0), Some(0)), (Some(0), Some(1)), (Some(1), None), (Some(1), Some(0)), (Some(1), Some(1))]);
list_range_harness!(c11_list_range_len1_from_omitted_or_0, 1, true, [(None, None), (None, Some(0)), (None, Some(1)), (None, Some(2)), (Some(0), None), (Some(0), Some(0)), (Some(0), Some(1)), (Some(0), Some(2))]);
list_range_harness!(c11_list_range_len1_from_1_or_2, 1, true, [(Some(1), None), (Some(1), Some(0)), (Some(1), Some(1)), (Some(1), Some(2)), (Some(2), None), (Some(2), Some(0)), (Some(2), Some(1)), (Some(2), Some(2))]);
list_range_harness!(c11_list_range_len3_from_omitted, 3, true, [(None, None), (None, Some(0)), (None, Some(1)), (None, Some(2)), (None, Some(3)), (None, Some(4))]);
list_range_harness!(c11_list_range_len3_from_0, 3, true, [(Some(0), None), (Some(0), Some(0)), (Some(0), Some(1)), (Some(0), Some(2)), (Some(0), Some(3)), (Some(0), Some(4))]);
list_range_harness!(c11_list_range_len3_from_1, 3, true, [(Some(1), None), (Some(1), Some(0)), (Some(1), Some(1)), (Some(1), Some(2)), (Some(1), Some(3)), (Some(1), Some(4))]);
list_range_harness!(c11_list_range_len3_from_2, 3, true, [(Some(2), None), (Some(2), Some(0)), (Some(2), Some(1)), (Some(2), Some(2)), (Some(2), Some(3)), (Some(2), Some(4))]);
list_range_harness!(c11_list_range_len3_from_3, 3, true, [(Some(3), None), (Some(3), Some(0)), (Some(3), Some(1)), (Some(3), Some(2)), (Some(3), Some(3)), (Some(3), Some(4))]);
list_range_harness!(c11_list_range_len3_from_4, 3, false, [(Some(4), None), (Some(4), Some(0)), (Some(4), Some(1)), (Some(4), Some(2)), (Some(4), Some(3)), (Some(4), Some(4))]);

// ---------------------------------------------------------------------------------------
// concatenation: (s + t) has the elements of s then t
// ---------------------------------------------------------------------------------------
fn len2(b0: bool, b1: bool) -> usize {
    (b0 as usize) + (b1 as usize)
}

fn sym_str2(n: usize, c0: u8, c1: u8) -> Vec<u8> {
    let mut v: Vec<u8> = Vec::with_capacity(2);
    if n >= 1 {
        v.push(c0);
    }
    if n >= 2 {
        v.push(c1);
    }
    v
}

fn str_is(v: &Vec<u8>, n: usize, c0: u8, c1: u8) -> bool {
    v.len() == n && (n < 1 || v[0] == c0) && (n < 2 || v[1] == c1)
}

// BOUNDED: both strings of length <= 2, bytes symbolic.
#[kani::proof]
#[kani::unwind(6)]
#[kani::stub(alloc::fmt::format, fmt_stub)]
fn c11_concat_str() {
    let (xb0, xb1, x0, x1): (bool, bool, u8, u8) = kani::any();
    let (yb0, yb1, y0, y1): (bool, bool, u8, u8) = kani::any();
    let l: usize = kani::any();
    let c: usize = kani::any();
    let loc = (l, c);
    let (nx, ny) = (len2(xb0, xb1), len2(yb0, yb1));
    let a = Value::Str(sym_str2(nx, x0, x1));
    let b = Value::Str(sym_str2(ny, y0, y1));
    let xe = [x0, x1];
    let ye = [y0, y1];

    let r = apply_binary_operation(&BinaryOp::Sum, &loc, &a, &b);

    match &r {
        Ok(Value::Str(v)) => {
            assert!(v.len() == nx + ny, "concatenation_length_is_sum_of_lengths");
            let mut k = 0;
            while k < 4 {
                if k < nx + ny && k < v.len() {
                    let want = if k < nx { xe[k] } else { ye[k - nx] };
                    assert!(v[k] == want, "concatenation_has_elements_of_s_then_t");
                }
                k += 1;
            }
        },
        _ => assert!(false, "string_concatenation_yields_a_string"),
    }
    match (&a, &b) {
        (Value::Str(p), Value::Str(q)) => {
            assert!(str_is(p, nx, x0, x1) && str_is(q, ny, y0, y1), "concatenation_leaves_operands_unchanged");
        },
        _ => assert!(false, "concatenation_leaves_operands_unchanged"),
    }
    kani::cover!(nx == 2 && ny == 2, "cover_both_len2");
    kani::cover!(nx == 0 && ny == 2, "cover_empty_left");
    kani::cover!(nx == 1 && ny == 0, "cover_empty_right");
    kani::cover!(nx == 0 && ny == 0, "cover_both_empty");
    std::mem::forget(r);
    std::mem::forget((a, b));
}

fn int_list2(n: usize, e0: i64, e1: i64) -> ListRef {
    let mut v: Vec<SourcedValue> = Vec::with_capacity(2);
    if n >= 1 {
        v.push(SourcedValue{v: Value::Int(e0), source: None});
    }
    if n >= 2 {
        v.push(SourcedValue{v: Value::Int(e1), source: None});
    }
    Arc::new(Mutex::new(v))
}

fn list2_unchanged(l: &ListRef, n: usize, e0: i64, e1: i64) -> bool {
    match l.try_lock() {
        Ok(g) => {
            g.len() == n
                && (n < 1 || elem_is_int(&g[0], e0))
                && (n < 2 || elem_is_int(&g[1], e1))
        },
        Err(err) => {
            std::mem::forget(err);
            false
        },
    }
}

// result `r` is Ok(List(out)), out a fresh unlocked list distinct from p and q, with
// elements xe[0..nx] then ye[0..ny]
fn check_concat_list(
    r: &Result<Value>,
    p: &ListRef,
    q: &ListRef,
    nx: usize,
    xe: &[i64; 2],
    ny: usize,
    ye: &[i64; 2],
) {
    match r {
        Ok(Value::List(out)) => {
            assert!(!Arc::ptr_eq(out, p) && !Arc::ptr_eq(out, q), "concatenation_result_is_a_fresh_list");
            match out.try_lock() {
                Ok(g) => {
                    assert!(g.len() == nx + ny, "concatenation_length_is_sum_of_lengths");
                    let mut k = 0;
                    while k < 4 {
                        if k < nx + ny && k < g.len() {
                            let want = if k < nx { xe[k] } else { ye[k - nx] };
                            assert!(elem_is_int(&g[k], want), "concatenation_has_elements_of_s_then_t");
                        }
                        k += 1;
                    }
                },
                Err(err) => {
                    std::mem::forget(err);
                    assert!(false, "concatenation_result_is_unlocked");
                },
            }
        },
        _ => assert!(false, "list_concatenation_yields_a_list"),
    }
}

// List + List.  MEASURED: any cell with at least one element (1+0, 1+1, ... also with the element
// clone stubbed) does not finish symbolic execution in 300 s -- the operator drops its two
// temporary `Vec<SourcedValue>` copies, which is the recursive drop glue of README rule 2.
// Only the EMPTY cells are under contract: [] + [] and xs + xs for xs == []; they still decide
// "fresh cell, operands unchanged and unlocked".  The contract functions are written for any
// length <= 2 so that larger cells can be added when the tooling allows.
fn concat_list_contract(nx: usize, ny: usize) {
    let (x0, x1, y0, y1): (i64, i64, i64, i64) = kani::any();
    let l: usize = kani::any();
    let c: usize = kani::any();
    let loc = (l, c);
    let xs = int_list2(nx, x0, x1);
    let ys = int_list2(ny, y0, y1);
    let a = Value::List(xs.clone());
    let b = Value::List(ys.clone());

    let r = apply_binary_operation(&BinaryOp::Sum, &loc, &a, &b);

    check_concat_list(&r, &xs, &ys, nx, &[x0, x1], ny, &[y0, y1]);
    assert!(list2_unchanged(&xs, nx, x0, x1), "concatenation_leaves_operands_unchanged_and_unlocked");
    assert!(list2_unchanged(&ys, ny, y0, y1), "concatenation_leaves_operands_unchanged_and_unlocked");
    assert!(
        Arc::strong_count(&xs) == 2 && Arc::strong_count(&ys) == 2,
        "concatenation_result_does_not_alias_operands"
    );
    kani::cover!(true, "cover_reached_end");
    std::mem::forget(r);
    std::mem::forget((a, b, xs, ys));
}

macro_rules! concat_list_harness {
    ($name:ident, $nx:expr, $ny:expr) => {
        #[kani::proof]
        #[kani::unwind(6)]
        #[kani::stub(alloc::fmt::format, fmt_stub)]
        fn $name() {
            concat_list_contract($nx, $ny);
        }
    };
}


// `xs + xs`: both operands are the SAME list. BOUNDED: length <= 2 (concrete per cell).
fn concat_list_with_itself_contract(nx: usize) {
    let (x0, x1): (i64, i64) = kani::any();
    let l: usize = kani::any();
    let c: usize = kani::any();
    let loc = (l, c);
    let xs = int_list2(nx, x0, x1);
    let a = Value::List(xs.clone());
    let a_alias = Value::List(xs.clone());

    let r = apply_binary_operation(&BinaryOp::Sum, &loc, &a, &a_alias);

    check_concat_list(&r, &xs, &xs, nx, &[x0, x1], nx, &[x0, x1]);
    assert!(list2_unchanged(&xs, nx, x0, x1), "concatenation_leaves_operands_unchanged_and_unlocked");
    assert!(Arc::strong_count(&xs) == 3, "concatenation_result_does_not_alias_operands");
    kani::cover!(true, "cover_reached_end");
    std::mem::forget(r);
    std::mem::forget((a, a_alias, xs));
}

concat_list_harness!(c11_concat_list_empty_empty, 0, 0);

macro_rules! concat_list_with_itself_harness {
    ($name:ident, $n:expr) => {
        #[kani::proof]
        #[kani::unwind(6)]
        #[kani::stub(alloc::fmt::format, fmt_stub)]
        fn $name() {
            concat_list_with_itself_contract($n);
        }
    };
}

concat_list_with_itself_harness!(c11_concat_list_empty_with_itself, 0);
