// Kani contract harnesses for eval::apply_binary_operation, comparison arms on Int x Int (C06).
// Child module of `eval` (src/eval/mod.rs). All 2^128 operand pairs, no bound, loop-free.
use super::*;

pub fn fmt_stub(_args: core::fmt::Arguments<'_>) -> String {
    String::new()
}

// Contract: `a op b` on ints is Ok(Bool(r)) where r is the mathematical relation on the
// integers denoted by a and b (computed here in i128, where i64 -> i128 is the denotation).
macro_rules! cmp_harness {
    ($name:ident, $op:ident, $is_equality:expr, $rel:expr) => {
        #[kani::proof]
        #[kani::unwind(2)]
        #[kani::stub(alloc::fmt::format, fmt_stub)]
        fn $name() {
            let a: i64 = kani::any();
            let b: i64 = kani::any();
            let l: usize = kani::any();
            let c: usize = kani::any();
            let op = BinaryOp::$op;
            let loc = (l, c);
            let lhs = Value::Int(a);
            let rhs = Value::Int(b);
            let r = apply_binary_operation(&op, &loc, &lhs, &rhs);
            let f: fn(i128, i128) -> bool = $rel;
            let expect = f(a as i128, b as i128);
            match &r {
                Ok(Value::Bool(v)) => {
                    if $is_equality {
                        assert!(*v == expect, "int_equality_is_mathematical_equality");
                    } else {
                        assert!(*v == expect, "comparison_agrees_with_mathematical_order");
                    }
                },
                _ => assert!(false, "int_comparison_yields_a_bool"),
            }
            // operands are not changed by comparing
            match (&lhs, &rhs) {
                (Value::Int(x), Value::Int(y)) => {
                    assert!(*x == a && *y == b, "comparing_leaves_operands_unchanged");
                },
                _ => assert!(false, "comparing_leaves_operands_unchanged"),
            }
            kani::cover!(expect, "cover_relation_holds");
            kani::cover!(!expect, "cover_relation_does_not_hold");
            kani::cover!(a == b, "cover_equal_operands");
            kani::cover!(a < 0 && b > 0, "cover_mixed_signs");
            std::mem::forget(r);
            std::mem::forget(lhs);
            std::mem::forget(rhs);
        }
    };
}

cmp_harness!(c06_cmp_gt, Gt, false, |a, b| a > b);
cmp_harness!(c06_cmp_gte, Gte, false, |a, b| a >= b);
cmp_harness!(c06_cmp_lt, Lt, false, |a, b| a < b);
cmp_harness!(c06_cmp_lte, Lte, false, |a, b| a <= b);
cmp_harness!(c06_cmp_eq, Eq, true, |a, b| a == b);
cmp_harness!(c06_cmp_ne, Ne, true, |a, b| a != b);
