// Kani contract harnesses for the symbol recognisers of the lexer (C03): the three table
// functions over ALL chars, and the longest-match driver next_symbol_token /
// next_multi_symbol_token over all inputs of 1, 2 and 3 chars (EOF after 1 or 2 chars included).
// Child module of `lexer` (injected with #[cfg(kani)] #[path] mod): private fns are visible.
use super::*;

pub fn fmt_stub(_args: core::fmt::Arguments<'_>) -> String {
    String::new()
}

// Payload-free mirror of the symbol constructors of Token, so that expected results can be
// written down as plain data and compared without touching Token's drop/eq glue.
#[derive(Clone, Copy, PartialEq, Eq)]
enum K {
    NotASymbol,
    BraceClose, BraceOpen, BracketClose, BracketOpen, Colon, Comma, Div, Dot, Equals,
    GreaterThan, LessThan, Mod, Mul, ParenClose, ParenOpen, Sub, Sum,
    AmpAmp, BangEquals, ColonEquals, DashGreaterThan, DivEquals, DotDot, EqualsEquals,
    GreaterThanEquals, LessThanEquals, ModEquals, MulEquals, PipePipe, SubEquals, SumEquals,
    EqualsEqualsEquals, BangEqualsEquals,
}

fn kind(t: &Token) -> K {
    match t {
        Token::BraceClose => K::BraceClose,
        Token::BraceOpen => K::BraceOpen,
        Token::BracketClose => K::BracketClose,
        Token::BracketOpen => K::BracketOpen,
        Token::Colon => K::Colon,
        Token::Comma => K::Comma,
        Token::Div => K::Div,
        Token::Dot => K::Dot,
        Token::Equals => K::Equals,
        Token::GreaterThan => K::GreaterThan,
        Token::LessThan => K::LessThan,
        Token::Mod => K::Mod,
        Token::Mul => K::Mul,
        Token::ParenClose => K::ParenClose,
        Token::ParenOpen => K::ParenOpen,
        Token::Sub => K::Sub,
        Token::Sum => K::Sum,
        Token::AmpAmp => K::AmpAmp,
        Token::BangEquals => K::BangEquals,
        Token::ColonEquals => K::ColonEquals,
        Token::DashGreaterThan => K::DashGreaterThan,
        Token::DivEquals => K::DivEquals,
        Token::DotDot => K::DotDot,
        Token::EqualsEquals => K::EqualsEquals,
        Token::GreaterThanEquals => K::GreaterThanEquals,
        Token::LessThanEquals => K::LessThanEquals,
        Token::ModEquals => K::ModEquals,
        Token::MulEquals => K::MulEquals,
        Token::PipePipe => K::PipePipe,
        Token::SubEquals => K::SubEquals,
        Token::SumEquals => K::SumEquals,
        Token::EqualsEqualsEquals => K::EqualsEqualsEquals,
        Token::BangEqualsEquals => K::BangEqualsEquals,
        _ => K::NotASymbol,
    }
}

fn kind_opt(r: &Option<Token>) -> Option<K> {
    match r {
        Some(t) => Some(kind(t)),
        None => None,
    }
}

// ---------------------------------------------------------------------------
// The documented symbol tables, as data.
// ---------------------------------------------------------------------------
const SINGLE: [(char, K); 17] = [
    ('}', K::BraceClose),
    ('{', K::BraceOpen),
    (']', K::BracketClose),
    ('[', K::BracketOpen),
    (':', K::Colon),
    (',', K::Comma),
    ('/', K::Div),
    ('.', K::Dot),
    ('=', K::Equals),
    ('>', K::GreaterThan),
    ('<', K::LessThan),
    ('%', K::Mod),
    ('*', K::Mul),
    (')', K::ParenClose),
    ('(', K::ParenOpen),
    ('-', K::Sub),
    ('+', K::Sum),
];

const DOUBLE: [(char, char, K); 14] = [
    ('&', '&', K::AmpAmp),
    ('!', '=', K::BangEquals),
    (':', '=', K::ColonEquals),
    ('-', '>', K::DashGreaterThan),
    ('/', '=', K::DivEquals),
    ('.', '.', K::DotDot),
    ('=', '=', K::EqualsEquals),
    ('>', '=', K::GreaterThanEquals),
    ('<', '=', K::LessThanEquals),
    ('%', '=', K::ModEquals),
    ('*', '=', K::MulEquals),
    ('|', '|', K::PipePipe),
    ('-', '=', K::SubEquals),
    ('+', '=', K::SumEquals),
];

const TRIPLE: [(char, char, char, K); 2] = [
    ('=', '=', '=', K::EqualsEqualsEquals),
    ('!', '=', '=', K::BangEqualsEquals),
];

fn spec1(a: char) -> Option<K> {
    let mut i = 0;
    while i < SINGLE.len() {
        if SINGLE[i].0 == a {
            return Some(SINGLE[i].1);
        }
        i += 1;
    }
    None
}

fn spec2(a: char, b: char) -> Option<K> {
    let mut i = 0;
    while i < DOUBLE.len() {
        if DOUBLE[i].0 == a && DOUBLE[i].1 == b {
            return Some(DOUBLE[i].2);
        }
        i += 1;
    }
    None
}

fn spec3(a: char, b: char, c: char) -> Option<K> {
    let mut i = 0;
    while i < TRIPLE.len() {
        if TRIPLE[i].0 == a && TRIPLE[i].1 == b && TRIPLE[i].2 == c {
            return Some(TRIPLE[i].3);
        }
        i += 1;
    }
    None
}

// Named per-entry obligations (so that a wrong table entry in /repo names the symbol).
macro_rules! entries1 {
    ($c:ident, $r:ident; $(($x:literal, $k:ident, $name:literal)),* $(,)?) => {
        $( if $c == $x { assert!(kind_opt(&$r) == Some(K::$k), $name); } )*
    };
}
macro_rules! entries2 {
    ($a:ident, $b:ident, $r:ident; $(($x:literal, $y:literal, $k:ident, $name:literal)),* $(,)?) => {
        $( if $a == $x && $b == $y { assert!(kind_opt(&$r) == Some(K::$k), $name); } )*
    };
}

// ---------------------------------------------------------------------------
// match_single_symbol_token: for ALL chars.
// ---------------------------------------------------------------------------
#[kani::proof]
#[kani::unwind(19)]
#[kani::stub(alloc::fmt::format, fmt_stub)]
fn c03_single_symbol_table() {
    let c: char = kani::any();
    let r = match_single_symbol_token(c);
    let exp = spec1(c);
    entries1!(c, r;
        ('}', BraceClose, "single_symbol[BraceClose]"),
        ('{', BraceOpen, "single_symbol[BraceOpen]"),
        (']', BracketClose, "single_symbol[BracketClose]"),
        ('[', BracketOpen, "single_symbol[BracketOpen]"),
        (':', Colon, "single_symbol[Colon]"),
        (',', Comma, "single_symbol[Comma]"),
        ('/', Div, "single_symbol[Div]"),
        ('.', Dot, "single_symbol[Dot]"),
        ('=', Equals, "single_symbol[Equals]"),
        ('>', GreaterThan, "single_symbol[GreaterThan]"),
        ('<', LessThan, "single_symbol[LessThan]"),
        ('%', Mod, "single_symbol[Mod]"),
        ('*', Mul, "single_symbol[Mul]"),
        (')', ParenClose, "single_symbol[ParenClose]"),
        ('(', ParenOpen, "single_symbol[ParenOpen]"),
        ('-', Sub, "single_symbol[Sub]"),
        ('+', Sum, "single_symbol[Sum]"),
    );
    if exp.is_some() {
        assert!(kind_opt(&r) == exp, "listed_single_symbol_maps_to_its_token");
    }
    if r.is_some() {
        assert!(exp.is_some(), "unlisted_char_is_not_a_single_symbol");
    }
    kani::cover!(r.is_some(), "cover_single_some");
    kani::cover!(r.is_none(), "cover_single_none");
    kani::cover!(r.is_none() && c == '!', "cover_bang_is_not_single");
    kani::cover!(r.is_none() && (c as u32) > 0xFFFF, "cover_four_byte_char");
    std::mem::forget(r);
}

// ---------------------------------------------------------------------------
// match_double_symbol_token: for ALL (char, char).
// ---------------------------------------------------------------------------
#[kani::proof]
#[kani::unwind(16)]
#[kani::stub(alloc::fmt::format, fmt_stub)]
fn c03_double_symbol_table() {
    let a: char = kani::any();
    let b: char = kani::any();
    let r = match_double_symbol_token(a, b);
    let exp = spec2(a, b);
    entries2!(a, b, r;
        ('&', '&', AmpAmp, "double_symbol[AmpAmp]"),
        ('!', '=', BangEquals, "double_symbol[BangEquals]"),
        (':', '=', ColonEquals, "double_symbol[ColonEquals]"),
        ('-', '>', DashGreaterThan, "double_symbol[DashGreaterThan]"),
        ('/', '=', DivEquals, "double_symbol[DivEquals]"),
        ('.', '.', DotDot, "double_symbol[DotDot]"),
        ('=', '=', EqualsEquals, "double_symbol[EqualsEquals]"),
        ('>', '=', GreaterThanEquals, "double_symbol[GreaterThanEquals]"),
        ('<', '=', LessThanEquals, "double_symbol[LessThanEquals]"),
        ('%', '=', ModEquals, "double_symbol[ModEquals]"),
        ('*', '=', MulEquals, "double_symbol[MulEquals]"),
        ('|', '|', PipePipe, "double_symbol[PipePipe]"),
        ('-', '=', SubEquals, "double_symbol[SubEquals]"),
        ('+', '=', SumEquals, "double_symbol[SumEquals]"),
    );
    if exp.is_some() {
        assert!(kind_opt(&r) == exp, "listed_double_symbol_maps_to_its_token");
    }
    if r.is_some() {
        assert!(exp.is_some(), "unlisted_pair_is_not_a_double_symbol");
    }
    kani::cover!(r.is_some(), "cover_double_some");
    kani::cover!(r.is_none(), "cover_double_none");
    kani::cover!(r.is_none() && a == '=' && b == '>', "cover_reversed_pair_is_not_a_symbol");
    std::mem::forget(r);
}

// ---------------------------------------------------------------------------
// match_triple_symbol_token: for ALL (char, char, char).
// ---------------------------------------------------------------------------
#[kani::proof]
#[kani::unwind(4)]
#[kani::stub(alloc::fmt::format, fmt_stub)]
fn c03_triple_symbol_table() {
    let a: char = kani::any();
    let b: char = kani::any();
    let c: char = kani::any();
    let r = match_triple_symbol_token(a, b, c);
    let exp = spec3(a, b, c);
    if a == '=' && b == '=' && c == '=' {
        assert!(kind_opt(&r) == Some(K::EqualsEqualsEquals), "triple_symbol[EqualsEqualsEquals]");
    }
    if a == '!' && b == '=' && c == '=' {
        assert!(kind_opt(&r) == Some(K::BangEqualsEquals), "triple_symbol[BangEqualsEquals]");
    }
    if exp.is_some() {
        assert!(kind_opt(&r) == exp, "listed_triple_symbol_maps_to_its_token");
    }
    if r.is_some() {
        assert!(exp.is_some(), "unlisted_triple_is_not_a_triple_symbol");
    }
    kani::cover!(r.is_some(), "cover_triple_some");
    kani::cover!(r.is_none(), "cover_triple_none");
    std::mem::forget(r);
}

// ---------------------------------------------------------------------------
// Longest match: next_symbol_token(char1) on a Lexer whose scanner stands on char1.
//
// requires: the text is cs[0..n] (n = 1, 2 or 3 arbitrary chars, then end of input),
//           char1 == cs[0] == scanner.peek_char().   No restriction on the chars: the
//           contract also holds for chars that next_token would route elsewhere.
// ensures : result == the longest documented symbol that is a prefix of the text
//           (3 chars if cs[0..3] is === or !==, else 2 chars if cs[0..2] is a documented
//           pair, else 1 char if cs[0] is a documented single symbol), and exactly the
//           chars of that symbol have been consumed (index == their byte length,
//           current char == the char after the symbol);
//           None exactly when no prefix is a documented symbol; in that case no panic and
//           the scanner index is a char boundary <= text length.
// ---------------------------------------------------------------------------
fn utf8_len(c: char) -> usize {
    let v = c as u32;
    if v < 0x80 {
        1
    } else if v < 0x800 {
        2
    } else if v < 0x1_0000 {
        3
    } else {
        4
    }
}

fn encode3<'a>(cs: &[char; 3], n: usize, buf: &'a mut [u8; 12]) -> &'a str {
    let mut len = 0;
    if n >= 1 {
        len += cs[0].encode_utf8(&mut buf[len..]).len();
    }
    if n >= 2 {
        len += cs[1].encode_utf8(&mut buf[len..]).len();
    }
    if n >= 3 {
        len += cs[2].encode_utf8(&mut buf[len..]).len();
    }
    // encode_utf8 produces valid UTF-8 (std contract); avoids the validation loop of from_utf8
    unsafe { core::str::from_utf8_unchecked(&buf[..len]) }
}

// (expected kind, number of chars of the symbol)
fn longest_spec(cs: &[char; 3], n: usize) -> Option<(K, usize)> {
    if n >= 3 {
        if let Some(k) = spec3(cs[0], cs[1], cs[2]) {
            return Some((k, 3));
        }
    }
    if n >= 2 {
        if let Some(k) = spec2(cs[0], cs[1]) {
            return Some((k, 2));
        }
    }
    if let Some(k) = spec1(cs[0]) {
        return Some((k, 1));
    }
    None
}

fn check_longest_match(cs: [char; 3], n: usize) {
    let mut buf = [0u8; 12];
    let s = encode3(&cs, n, &mut buf);
    let total = s.len();
    let mut lx = Lexer::new(s);
    let c1 = match lx.scanner.peek_char() {
        Some(c) => c,
        None => {
            assert!(false, "harness_text_is_not_empty");
            return;
        },
    };
    let r = lx.next_symbol_token(c1);
    let exp = longest_spec(&cs, n);
    let idx = lx.scanner.index;
    let cur = lx.scanner.peek_char();

    assert!(idx <= total, "scanner_index_never_exceeds_input_length");
    assert!(s.is_char_boundary(idx), "scanner_index_is_char_boundary");
    match exp {
        Some((k, m)) => {
            assert!(r.is_some(), "documented_symbol_prefix_is_recognised");
            assert!(kind_opt(&r) == Some(k), "result_is_the_longest_documented_symbol");
            let mut bytes = 0;
            let mut after = None;
            if m >= 1 { bytes += utf8_len(cs[0]); }
            if m >= 2 { bytes += utf8_len(cs[1]); }
            if m >= 3 { bytes += utf8_len(cs[2]); }
            if m < n { after = Some(cs[m]); }
            assert!(idx == bytes, "exactly_the_symbol_chars_are_consumed");
            assert!(cur == after, "scanner_stands_on_the_char_after_the_symbol");
        },
        None => {
            assert!(r.is_none(), "no_symbol_when_no_prefix_is_documented");
        },
    }
    kani::cover!(exp.is_none(), "cover_no_symbol");
    kani::cover!(matches!(exp, Some((_, 1))), "cover_single");
    std::mem::forget(r);
    std::mem::forget(lx);
}

#[kani::proof]
#[kani::unwind(19)]
#[kani::stub(alloc::fmt::format, fmt_stub)]
fn c03_longest_symbol_1char() {
    let a: char = kani::any();
    check_longest_match([a, 'x', 'x'], 1);
    kani::cover!(a == '!', "cover_lone_bang_before_eof");
    kani::cover!(a == '|', "cover_lone_pipe_before_eof");
    kani::cover!(a == '&', "cover_lone_amp_before_eof");
    kani::cover!(a == '=', "cover_lone_equals_before_eof");
    kani::cover!((a as u32) > 0xFFFF, "cover_four_byte_char");
}

#[kani::proof]
#[kani::unwind(19)]
#[kani::stub(alloc::fmt::format, fmt_stub)]
fn c03_longest_symbol_2chars() {
    let a: char = kani::any();
    let b: char = kani::any();
    check_longest_match([a, b, 'x'], 2);
    kani::cover!(a == '<' && b == '=', "cover_double");
    kani::cover!(a == '=' && b == '!', "cover_single_then_non_symbol");
    kani::cover!(a == '!' && b != '=', "cover_lone_bang_then_other");
    kani::cover!(a == '|' && b == '|', "cover_pipepipe_before_eof");
    kani::cover!(a == '!' && b == '=', "cover_bang_equals_before_eof");
    kani::cover!(a == '&' && (b as u32) > 0xFFFF, "cover_amp_then_wide_char");
}

#[kani::proof]
#[kani::unwind(19)]
#[kani::stub(alloc::fmt::format, fmt_stub)]
fn c03_longest_symbol_3chars() {
    let a: char = kani::any();
    let b: char = kani::any();
    let c: char = kani::any();
    check_longest_match([a, b, c], 3);
    kani::cover!(a == '=' && b == '=' && c == '=', "cover_triple_eq");
    kani::cover!(a == '!' && b == '=' && c == '=', "cover_triple_bang");
    kani::cover!(a == '<' && b == '=' && c == '=', "cover_double_then_equals");
    kani::cover!(a == '|' && b == '|' && (c as u32) > 0xFFFF, "cover_pipepipe_then_wide_char");
    kani::cover!(a == '=' && b == '!' && c == '=', "cover_single_then_bang_equals");
    kani::cover!(a == '!' && b == '!' && c == '=', "cover_no_symbol_three_chars");
    kani::cover!(a == '=' && b == '=' && c != '=', "cover_double_equals_then_other");
}

// ---------------------------------------------------------------------------
// "Cleanly rejects": Lexer::next_token() on a text consisting of ONE char that starts no
// token (and is not skipped as whitespace / comment) returns the located lexical error
// Unexpected((1,1), c) -- no panic.   The recognisers for words, ints and strings are not
// under contract here (measured non-terminating under Kani); they are replaced by stubs
// that fail a named obligation if the precondition did not keep the lexer away from them.
// ---------------------------------------------------------------------------
// (inherent methods, so that the stubs have the same early-bound lifetime parameter as the originals)
impl<'input> Lexer<'input> {
    fn verif_word_stub(&mut self) -> Token {
        assert!(false, "word_path_not_taken_for_non_token_start");
        Token::Null
    }
    fn verif_int_stub(&mut self) -> Result<Token, LexError> {
        assert!(false, "int_path_not_taken_for_non_token_start");
        Ok(Token::Null)
    }
    fn verif_str_stub(&mut self, _interpolate: bool) -> Result<Token, LexError> {
        assert!(false, "string_path_not_taken_for_non_token_start");
        Ok(Token::Null)
    }
}

fn starts_some_token_or_is_skipped(c: char) -> bool {
    c == '\n' || c == ';' || c == '#'
        || c == ' ' || c == '\t' || c == '\r' || c == '\x0c'
        || (c >= 'a' && c <= 'z') || (c >= 'A' && c <= 'Z') || c == '_'
        || (c >= '0' && c <= '9')
        || c == '"' || c == '$'
        || matches!(c, '}' | '{' | ']' | '[' | ':' | ',' | '/' | '.' | '=' | '>' | '<' | '%' | '*' | ')' | '(' | '-' | '+')
}

#[kani::proof]
#[kani::unwind(3)]
#[kani::stub(alloc::fmt::format, fmt_stub)]
#[kani::stub(Lexer::next_keyword_or_ident, Lexer::verif_word_stub)]
#[kani::stub(Lexer::next_int, Lexer::verif_int_stub)]
#[kani::stub(Lexer::next_str_literal, Lexer::verif_str_stub)]
fn c03_lone_non_token_char_is_rejected() {
    let c: char = kani::any();
    // precondition of the "unexpected character" branch of next_token
    kani::assume(!starts_some_token_or_is_skipped(c));
    let mut buf = [0u8; 4];
    let n = c.encode_utf8(&mut buf[..]).len();
    let s = unsafe { core::str::from_utf8_unchecked(&buf[..n]) };
    let mut lx = Lexer::new(s);
    let r = lx.next_token();
    match &r {
        Some(Err(LexError::Unexpected(loc, ch))) => {
            assert!(*loc == (1, 1), "error_is_located_at_the_offending_char");
            assert!(*ch == c, "error_names_the_offending_char");
        },
        _ => assert!(false, "non_token_char_is_reported_as_unexpected"),
    }
    assert!(lx.scanner.index <= n, "scanner_index_never_exceeds_input_length");
    kani::cover!(c == '!', "cover_lone_bang");
    kani::cover!(c == '|', "cover_lone_pipe");
    kani::cover!(c == '&', "cover_lone_amp");
    kani::cover!(c == '\x0b', "cover_vertical_tab");
    kani::cover!((c as u32) > 0xFFFF, "cover_four_byte_char");
    kani::cover!(c == '\u{a0}', "cover_non_ascii_space");
    std::mem::forget(r);
    std::mem::forget(lx);
}
