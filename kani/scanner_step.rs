// Kani contract harnesses for lexer::scanner::Scanner (C18 position bookkeeping, C03 index
// is always a char boundary).  Child module of `lexer::scanner` (injected with
// #[cfg(kani)] #[path] mod), so the private fields `line` / `col` can be set: the one-step
// contract of `next_char` is stated for ANY state, the induction over steps is lemma L-pos.
use super::*;

pub fn fmt_stub(_args: core::fmt::Arguments<'_>) -> String {
    String::new()
}

// Independent statement of "byte length of a char in UTF-8" (not c.len_utf8()).
fn utf8_len(c: char) -> usize {
    let v = c as u32;
    if v < 0x80 {
        1
    } else if v < 0x800 {
        2
    } else if v < 0x1_0000 {
        3
    } else {
        4
    }
}

// The harness builds its input text by encoding the symbolic chars; `encode_utf8` yields
// valid UTF-8 by its std contract, so `from_utf8_unchecked` is a valid way to obtain a &str
// (core::str::from_utf8's validation loop over symbolic bytes is what is avoided).
fn text1<'a>(c0: char, buf: &'a mut [u8; 4]) -> &'a str {
    let n = c0.encode_utf8(&mut buf[..]).len();
    unsafe { core::str::from_utf8_unchecked(&buf[..n]) }
}

fn text2<'a>(c0: char, c1: char, buf: &'a mut [u8; 8]) -> &'a str {
    let n0 = c0.encode_utf8(&mut buf[..]).len();
    let n1 = c1.encode_utf8(&mut buf[n0..]).len();
    unsafe { core::str::from_utf8_unchecked(&buf[..n0 + n1]) }
}

fn text3<'a>(c0: char, c1: char, c2: char, buf: &'a mut [u8; 12]) -> &'a str {
    let n0 = c0.encode_utf8(&mut buf[..]).len();
    let n1 = c1.encode_utf8(&mut buf[n0..]).len();
    let n2 = c2.encode_utf8(&mut buf[n0 + n1..]).len();
    unsafe { core::str::from_utf8_unchecked(&buf[..n0 + n1 + n2]) }
}

// ---------------------------------------------------------------------------
// C18 base case: Scanner::new.
//   empty input      -> peek None,   index 0, loc (1,1)
//   first char '\n'  -> peek '\n',   index 0, loc (2,0)   (the newline "belongs to the next line, column 0")
//   first char other -> peek c,      index 0, loc (1,1)
// whatever follows the first char (nothing / one more arbitrary char).
// ---------------------------------------------------------------------------
#[kani::proof]
#[kani::unwind(2)]
#[kani::stub(alloc::fmt::format, fmt_stub)]
fn c18_scanner_new_base() {
    let c: char = kani::any();
    let d: char = kani::any();
    let exp_loc = if c == '\n' { (2usize, 0usize) } else { (1usize, 1usize) };

    // empty input
    {
        let mut sc = Scanner::new("");
        assert!(sc.peek_char().is_none(), "empty_input_has_no_current_char");
        assert!(sc.index == 0, "index_starts_at_zero");
        assert!(sc.loc() == (1, 1), "first_position_is_line_1_column_1");
    }
    // exactly one char
    {
        let mut buf = [0u8; 4];
        let s = text1(c, &mut buf);
        let mut sc = Scanner::new(s);
        assert!(sc.peek_char() == Some(c), "current_char_is_first_char");
        assert!(sc.index == 0, "index_starts_at_zero");
        let loc = sc.loc();
        if c == '\n' {
            assert!(loc == (2, 0), "leading_newline_starts_line_2_at_column_zero");
        } else {
            assert!(loc == (1, 1), "first_position_is_line_1_column_1");
        }
    }
    // first char followed by something: the follower has no influence
    {
        let mut buf = [0u8; 8];
        let s = text2(c, d, &mut buf);
        let mut sc = Scanner::new(s);
        assert!(sc.peek_char() == Some(c), "current_char_is_first_char");
        assert!(sc.index == 0, "index_starts_at_zero");
        assert!(sc.loc() == exp_loc, "start_position_depends_only_on_first_char");
    }
    kani::cover!(c == '\n', "cover_leading_newline");
    kani::cover!(c == '\t', "cover_leading_tab");
    kani::cover!(utf8_len(c) == 4, "cover_four_byte_first_char");
    kani::cover!(utf8_len(c) == 1 && c != '\n', "cover_ascii_first_char");
}

// ---------------------------------------------------------------------------
// C18 one-step contract of Scanner::next_char.
// requires: the scanner is at char c0 of the text "c0 c1" in ANY bookkeeping state
//           (line, col), line < usize::MAX, col < usize::MAX (no counter overflow).
// ensures : after next_char(): current char is c1, index advanced by the byte length of c0,
//           loc == (line+1, 0) if c1 == '\n' else (line, col+1)   -- every char other than
//           '\n' (tab, CR, multi-byte, ...) counts exactly one column;
//           after one more next_char() (end of input): no current char, index == text length,
//           loc unchanged.
// ---------------------------------------------------------------------------
#[kani::proof]
#[kani::unwind(2)]
#[kani::stub(alloc::fmt::format, fmt_stub)]
fn c18_next_char_step() {
    let c0: char = kani::any();
    let c1: char = kani::any();
    let line: usize = kani::any();
    let col: usize = kani::any();
    kani::assume(line < usize::MAX);
    kani::assume(col < usize::MAX);

    let mut buf = [0u8; 8];
    let s = text2(c0, c1, &mut buf);
    let total = s.len();
    let mut sc = Scanner::new(s);
    sc.line = line;
    sc.col = col;

    sc.next_char();

    assert!(sc.peek_char() == Some(c1), "current_char_is_the_next_char_of_the_text");
    assert!(sc.index == utf8_len(c0), "index_advances_by_utf8_length");
    assert!(s.is_char_boundary(sc.index), "index_is_char_boundary");
    let loc1 = sc.loc();
    if c1 == '\n' {
        assert!(loc1 == (line + 1, 0), "newline_starts_next_line_at_column_zero");
    } else {
        assert!(loc1 == (line, col + 1), "every_other_char_advances_column_by_one");
    }

    sc.next_char();

    assert!(sc.peek_char().is_none(), "end_of_input_has_no_current_char");
    assert!(sc.index == total, "end_of_input_index_is_text_length");
    assert!(total == utf8_len(c0) + utf8_len(c1), "index_advances_by_utf8_length");
    assert!(s.is_char_boundary(sc.index), "index_is_char_boundary");
    assert!(sc.loc() == loc1, "end_of_input_keeps_position");

    // staying at end of input is idempotent
    sc.next_char();
    assert!(sc.peek_char().is_none() && sc.index == total && sc.loc() == loc1, "end_of_input_keeps_position");

    kani::cover!(c1 == '\n', "cover_newline");
    kani::cover!(c1 == '\t', "cover_tab");
    kani::cover!(c1 == '\r', "cover_carriage_return");
    kani::cover!(utf8_len(c1) == 2, "cover_two_byte_char");
    kani::cover!(utf8_len(c1) == 3, "cover_three_byte_char");
    kani::cover!(utf8_len(c1) == 4, "cover_four_byte_char");
    kani::cover!(utf8_len(c0) == 4 && utf8_len(c1) == 4, "cover_two_four_byte_chars");
    kani::cover!(c0 == '\n' && c1 != '\n', "cover_char_after_newline");
    kani::cover!(line == usize::MAX - 1 && col == usize::MAX - 1, "cover_extreme_state");
}

// ---------------------------------------------------------------------------
// C03: `index` is always a char boundary <= len over three arbitrary chars, so
// `range(start, index)` with `start` an earlier index never slices inside a character
// (a panic inside range() is a failed Kani default check).
// ---------------------------------------------------------------------------
#[kani::proof]
#[kani::unwind(2)]
#[kani::stub(alloc::fmt::format, fmt_stub)]
fn c03_scanner_range_in_bounds() {
    let c0: char = kani::any();
    let c1: char = kani::any();
    let c2: char = kani::any();
    let mut buf = [0u8; 12];
    let s = text3(c0, c1, c2, &mut buf);
    let total = s.len();
    let mut sc = Scanner::new(s);

    let i0 = sc.index;
    assert!(i0 <= total && s.is_char_boundary(i0), "index_is_char_boundary");
    sc.next_char();
    let i1 = sc.index;
    assert!(i1 <= total && s.is_char_boundary(i1), "index_is_char_boundary");
    assert!(sc.range(i0, i1).len() == utf8_len(c0), "range_between_indices_is_whole_chars");
    sc.next_char();
    let i2 = sc.index;
    assert!(i2 <= total && s.is_char_boundary(i2), "index_is_char_boundary");
    assert!(sc.range(i1, i2).len() == utf8_len(c1), "range_between_indices_is_whole_chars");
    assert!(sc.range(i0, i2).len() == utf8_len(c0) + utf8_len(c1), "range_between_indices_is_whole_chars");
    sc.next_char();
    let i3 = sc.index;
    assert!(i3 == total && s.is_char_boundary(i3), "index_is_char_boundary");
    assert!(sc.peek_char().is_none(), "end_of_input_has_no_current_char");
    assert!(sc.range(i2, i3).len() == utf8_len(c2), "range_between_indices_is_whole_chars");
    assert!(sc.range(i0, i3).len() == total, "range_between_indices_is_whole_chars");
    assert!(sc.range(i1, i3).len() == utf8_len(c1) + utf8_len(c2), "range_between_indices_is_whole_chars");
    assert!(sc.range(i3, i3).len() == 0, "range_between_indices_is_whole_chars");
    assert!(i0 <= i1 && i1 <= i2 && i2 <= i3, "index_never_moves_backwards");

    kani::cover!(utf8_len(c0) == 4 && utf8_len(c1) == 3 && utf8_len(c2) == 2, "cover_mixed_widths");
    kani::cover!(utf8_len(c0) == 1 && utf8_len(c1) == 1 && utf8_len(c2) == 1, "cover_ascii");
}
