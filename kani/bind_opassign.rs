// Kani contract harnesses for eval::bind::binary_operation_assign (C06: `x op= y` always
// equals `x = x op y`). Child module of `eval::bind` (src/eval/bind.rs).
//
// Contract chaining: the operator implementation `eval::apply_binary_operation` is replaced by
// a *recording nondet stub* (its own contract is checked in eval_arith.rs / eval_cmp.rs /
// eval_range.rs); here the CALLER is checked: which operator, which location, which operands in
// which order, how often, and what happens to the slot with the callee's answer.
use super::*;

pub fn fmt_stub(_args: core::fmt::Arguments<'_>) -> String {
    String::new()
}

pub static mut CALLS: u32 = 0;
pub static mut REC_OP: u8 = 255;
pub static mut REC_LINE: usize = 0;
pub static mut REC_COL: usize = 0;
pub static mut REC_LHS_IS_INT: bool = false;
pub static mut REC_LHS: i64 = 0;
pub static mut REC_RHS_IS_INT: bool = false;
pub static mut REC_RHS: i64 = 0;
pub static mut RET_OK: bool = false;
pub static mut RET_VAL: i64 = 0;

fn op_code(op: &BinaryOp) -> u8 {
    match op {
        BinaryOp::Sum => 0,
        BinaryOp::Sub => 1,
        BinaryOp::Mul => 2,
        BinaryOp::Div => 3,
        BinaryOp::Mod => 4,
        BinaryOp::And => 5,
        BinaryOp::Or => 6,
        BinaryOp::Eq => 7,
        BinaryOp::Ne => 8,
        BinaryOp::Gt => 9,
        BinaryOp::Gte => 10,
        BinaryOp::Lt => 11,
        BinaryOp::Lte => 12,
        BinaryOp::RefEq => 13,
        BinaryOp::RefNe => 14,
    }
}

// Stand-in for eval::apply_binary_operation: records its arguments, answers with an arbitrary
// Int or with an (arbitrary, trivial) error.
pub fn apply_binary_operation_stub(
    op: &BinaryOp,
    op_loc: &Location,
    lhs: &Value,
    rhs: &Value,
) -> Result<Value> {
    unsafe {
        CALLS += 1;
        REC_OP = op_code(op);
        REC_LINE = op_loc.0;
        REC_COL = op_loc.1;
        if let Value::Int(n) = lhs {
            REC_LHS_IS_INT = true;
            REC_LHS = *n;
        }
        if let Value::Int(n) = rhs {
            REC_RHS_IS_INT = true;
            REC_RHS = *n;
        }
    }
    let ok: bool = kani::any();
    if ok {
        let v: i64 = kani::any();
        unsafe {
            RET_OK = true;
            RET_VAL = v;
        }
        Ok(Value::Int(v))
    } else {
        Err(Error::BreakOutsideLoop)
    }
}

// (ii) op = Some((op, loc)): one harness per representative operator; Sub / Div / Mod are not
// commutative, so operand ORDER matters for the value the script sees.
macro_rules! op_assign_harness {
    ($name:ident, $op:ident, $code:expr) => {
        #[kani::proof]
        #[kani::unwind(2)]
        #[kani::stub(alloc::fmt::format, fmt_stub)]
        #[kani::stub(crate::eval::apply_binary_operation, apply_binary_operation_stub)]
        fn $name() {
            let a: i64 = kani::any();
            let s: i64 = kani::any();
            let b: i64 = kani::any();
            let l: usize = kani::any();
            let c: usize = kani::any();
            // the old slot value carries a `source` (as a property read `o.f` would leave it)
            let mut slot = SourcedValue{v: Value::Int(a), source: Some(Value::Int(s))};
            let rhs = SourcedValue{v: Value::Int(b), source: None};
            let r = binary_operation_assign(&mut slot, rhs, Some((BinaryOp::$op, (l, c))));

            let calls = unsafe { CALLS };
            assert!(calls == 1, "op_assign_applies_operator_once");
            assert!(unsafe { REC_OP } == $code, "op_assign_applies_the_given_operator");
            assert!(unsafe { REC_LINE == l && REC_COL == c }, "op_assign_passes_operator_location");
            assert!(
                unsafe { REC_LHS_IS_INT && REC_LHS == a && REC_RHS_IS_INT && REC_RHS == b },
                "op_assign_operands_are_old_slot_then_rhs"
            );
            let ret_ok = unsafe { RET_OK };
            if ret_ok {
                assert!(matches!(&r, Ok(())), "op_assign_succeeds_when_operator_succeeds");
                match &slot.v {
                    Value::Int(v) => {
                        assert!(*v == unsafe { RET_VAL }, "op_assign_stores_operator_result");
                    },
                    _ => assert!(false, "op_assign_stores_operator_result"),
                }
                assert!(matches!(&slot.source, None), "op_assign_result_has_no_source");
            } else {
                assert!(matches!(&r, Err(_)), "failed_operator_is_reported");
                match &slot {
                    SourcedValue{v: Value::Int(v), source: Some(Value::Int(src))} => {
                        assert!(*v == a && *src == s, "failed_operator_leaves_slot_unchanged");
                    },
                    _ => assert!(false, "failed_operator_leaves_slot_unchanged"),
                }
            }
            // chain anchor: the operator implementation under contract was really reached
            kani::cover!(calls == 1, "chain_operator_invoked");
            kani::cover!(calls == 1 && ret_ok, "cover_operator_ok");
            kani::cover!(calls == 1 && !ret_ok, "cover_operator_err");
            std::mem::forget(r);
            std::mem::forget(slot);
        }
    };
}

op_assign_harness!(c06_op_assign_sum, Sum, 0);
op_assign_harness!(c06_op_assign_sub, Sub, 1);
op_assign_harness!(c06_op_assign_div, Div, 3);
op_assign_harness!(c06_op_assign_mod, Mod, 4);

// (i) op = None: plain assignment through the same helper.
#[kani::proof]
#[kani::unwind(2)]
#[kani::stub(alloc::fmt::format, fmt_stub)]
#[kani::stub(crate::eval::apply_binary_operation, apply_binary_operation_stub)]
fn c06_plain_assign_stores_rhs() {
    let a: i64 = kani::any();
    let s: i64 = kani::any();
    let b: i64 = kani::any();
    let t: i64 = kani::any();
    let rhs_has_source: bool = kani::any();
    let mut slot = SourcedValue{v: Value::Int(a), source: Some(Value::Int(s))};
    if rhs_has_source {
        let rhs = SourcedValue{v: Value::Int(b), source: Some(Value::Int(t))};
        let r = binary_operation_assign(&mut slot, rhs, None);
        assert!(matches!(&r, Ok(())), "plain_assign_succeeds");
        match &slot {
            SourcedValue{v: Value::Int(v), source: Some(Value::Int(src))} => {
                assert!(*v == b && *src == t, "plain_assign_stores_rhs");
            },
            _ => assert!(false, "plain_assign_stores_rhs"),
        }
        std::mem::forget(r);
    } else {
        let rhs = SourcedValue{v: Value::Int(b), source: None};
        let r = binary_operation_assign(&mut slot, rhs, None);
        assert!(matches!(&r, Ok(())), "plain_assign_succeeds");
        match &slot {
            SourcedValue{v: Value::Int(v), source: None} => {
                assert!(*v == b, "plain_assign_stores_rhs");
            },
            _ => assert!(false, "plain_assign_stores_rhs"),
        }
        std::mem::forget(r);
    }
    assert!(unsafe { CALLS } == 0, "plain_assign_does_not_invoke_operator");
    kani::cover!(rhs_has_source, "cover_rhs_with_source");
    kani::cover!(!rhs_has_source, "cover_rhs_without_source");
    std::mem::forget(slot);
}
