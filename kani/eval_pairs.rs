// Kani contract harnesses for eval::value_to_pairs (C07 leaf: `for` walks a snapshot of its
// iterable taken at loop entry -- list elements by index, string bytes in order, object
// properties by ascending key -- binding the pair [key, value]).
// Child module of `eval` (src/eval/mod.rs).
use super::*;

pub fn fmt_stub(_args: core::fmt::Arguments<'_>) -> String {
    String::new()
}

const MAXLEN: usize = 3;

type Pairs = Result<Vec<(SourcedValue, SourcedValue)>>;

fn is_int(sv: &SourcedValue, want: i64) -> bool {
    matches!(sv, SourcedValue{v: Value::Int(x), source: None} if *x == want)
}

fn is_one_byte_str(sv: &SourcedValue, want: u8) -> bool {
    match sv {
        SourcedValue{v: Value::Str(s), source: None} => s.len() == 1 && s[0] == want,
        _ => false,
    }
}

fn builtin_dummy(_this: Option<SourcedValue>, _args: Vec<SourcedValue>) -> Result<SourcedValue> {
    Err(Error::BreakOutsideLoop)
}

// (i) which kinds are iterable: Ok iff string / list / object (kind proof, shapes irrelevant)
#[kani::proof]
#[kani::unwind(2)]
#[kani::stub(alloc::fmt::format, fmt_stub)]
fn c07_pairs_iterable_kinds() {
    let i: i64 = kani::any();
    let b: bool = kani::any();
    let v_null = Value::Null;
    let v_bool = Value::Bool(b);
    let v_int = Value::Int(i);
    let v_str = Value::Str(vec![]);
    let v_list = Value::List(Arc::new(Mutex::new(vec![])));
    let v_obj = Value::Object(Arc::new(Mutex::new(BTreeMap::new())));
    let v_bf = Value::BuiltinFunc{name: String::new(), f: builtin_dummy};
    let v_fn = Value::Func(Arc::new(Mutex::new(Func{
        name: None,
        args: vec![],
        collect_args: false,
        stmts: vec![],
        closure: ScopeStack::new(vec![]),
    })));

    let r_null = value_to_pairs(&v_null);
    let r_bool = value_to_pairs(&v_bool);
    let r_int = value_to_pairs(&v_int);
    let r_str = value_to_pairs(&v_str);
    let r_list = value_to_pairs(&v_list);
    let r_obj = value_to_pairs(&v_obj);
    let r_bf = value_to_pairs(&v_bf);
    let r_fn = value_to_pairs(&v_fn);

    assert!(matches!(&r_null, Err(Error::ForIterNotIterable)), "non_iterable_is_reported_as_error");
    assert!(matches!(&r_bool, Err(Error::ForIterNotIterable)), "non_iterable_is_reported_as_error");
    assert!(matches!(&r_int, Err(Error::ForIterNotIterable)), "non_iterable_is_reported_as_error");
    assert!(matches!(&r_bf, Err(Error::ForIterNotIterable)), "non_iterable_is_reported_as_error");
    assert!(matches!(&r_fn, Err(Error::ForIterNotIterable)), "non_iterable_is_reported_as_error");
    match (&r_str, &r_list, &r_obj) {
        (Ok(p), Ok(q), Ok(s)) => {
            assert!(p.len() == 0 && q.len() == 0 && s.len() == 0, "empty_iterable_has_no_pairs");
        },
        _ => assert!(false, "string_list_object_are_iterable"),
    }
    kani::cover!(true, "cover_reached_end");
    std::mem::forget((r_null, r_bool, r_int, r_str, r_list, r_obj, r_bf, r_fn));
    std::mem::forget((v_null, v_bool, v_int, v_str, v_list, v_obj, v_bf, v_fn));
}

// (ii) strings: bytes in order, keyed by index. BOUNDED: length <= 3 (one harness per length).
fn str_pairs_contract(n: usize) {
    let bytes: [u8; MAXLEN] = [kani::any(), kani::any(), kani::any()];
    let mut s: Vec<u8> = Vec::with_capacity(MAXLEN);
    let mut i = 0;
    while i < n {
        s.push(bytes[i]);
        i += 1;
    }
    let v = Value::Str(s);
    let r: Pairs = value_to_pairs(&v);
    match &r {
        Ok(pairs) => {
            assert!(pairs.len() == n, "one_pair_per_string_byte");
            let mut k = 0;
            while k < MAXLEN {
                if k < n && k < pairs.len() {
                    assert!(is_int(&pairs[k].0, k as i64), "string_pairs_keyed_by_index_in_order");
                    assert!(is_one_byte_str(&pairs[k].1, bytes[k]), "string_pair_value_is_the_byte_at_index");
                }
                k += 1;
            }
        },
        Err(_) => assert!(false, "string_list_object_are_iterable"),
    }
    // operand unchanged
    match &v {
        Value::Str(s) => {
            assert!(s.len() == n, "iteration_snapshot_leaves_iterable_unchanged");
            let mut k = 0;
            while k < MAXLEN {
                if k < n {
                    assert!(s[k] == bytes[k], "iteration_snapshot_leaves_iterable_unchanged");
                }
                k += 1;
            }
        },
        _ => assert!(false, "iteration_snapshot_leaves_iterable_unchanged"),
    }
    kani::cover!(true, "cover_reached_end");
    std::mem::forget(r);
    std::mem::forget(v);
}

macro_rules! str_pairs_harness {
    ($name:ident, $n:expr) => {
        #[kani::proof]
        #[kani::unwind(5)]
        #[kani::stub(alloc::fmt::format, fmt_stub)]
        fn $name() {
            str_pairs_contract($n);
        }
    };
}

str_pairs_harness!(c07_pairs_str_len1, 1);
str_pairs_harness!(c07_pairs_str_len2, 2);
str_pairs_harness!(c07_pairs_str_len3, 3);

// (iii) lists: elements by index; the result is a snapshot. BOUNDED: length <= 3, elements Int.
fn list_pairs_contract(n: usize) {
    let e: [i64; MAXLEN] = [kani::any(), kani::any(), kani::any()];
    let extra: i64 = kani::any();
    let mut items: Vec<SourcedValue> = Vec::with_capacity(MAXLEN + 1);
    let mut i = 0;
    while i < n {
        items.push(SourcedValue{v: Value::Int(e[i]), source: None});
        i += 1;
    }
    let list: ListRef = Arc::new(Mutex::new(items));
    let v = Value::List(list.clone());
    let r: Pairs = value_to_pairs(&v);

    // the loop body mutates the iterated list after loop entry
    match list.try_lock() {
        Ok(mut g) => {
            g.push(SourcedValue{v: Value::Int(extra), source: None});
            if n >= 1 {
                let old = std::mem::replace(&mut g[0], SourcedValue{v: Value::Int(extra), source: None});
                std::mem::forget(old);
            }
        },
        Err(err) => {
            std::mem::forget(err);
            assert!(false, "iteration_snapshot_leaves_iterable_unlocked");
        },
    }

    match &r {
        Ok(pairs) => {
            assert!(pairs.len() == n, "one_pair_per_list_element_at_loop_entry");
            let mut k = 0;
            while k < MAXLEN {
                if k < n && k < pairs.len() {
                    assert!(is_int(&pairs[k].0, k as i64), "list_pairs_keyed_by_index_in_order");
                    assert!(is_int(&pairs[k].1, e[k]), "list_pair_value_is_the_element_at_loop_entry");
                }
                k += 1;
            }
        },
        Err(_) => assert!(false, "string_list_object_are_iterable"),
    }
    kani::cover!(true, "cover_reached_end");
    std::mem::forget(r);
    std::mem::forget((v, list));
}

macro_rules! list_pairs_harness {
    ($name:ident, $n:expr) => {
        #[kani::proof]
        #[kani::unwind(5)]
        #[kani::stub(alloc::fmt::format, fmt_stub)]
        fn $name() {
            list_pairs_contract($n);
        }
    };
}

list_pairs_harness!(c07_pairs_list_len1, 1);
list_pairs_harness!(c07_pairs_list_len2, 2);
list_pairs_harness!(c07_pairs_list_len3, 3);

// (iv) objects: properties by ascending key, whatever the insertion order.
// BOUNDED: exactly 2 keys "a" and "b", inserted in descending order; values Int.
#[kani::proof]
#[kani::unwind(4)]
#[kani::stub(alloc::fmt::format, fmt_stub)]
fn c07_pairs_object_ascending_keys() {
    let va: i64 = kani::any();
    let vb: i64 = kani::any();
    let mut m: BTreeMap<String, SourcedValue> = BTreeMap::new();
    let o1 = m.insert(String::from("b"), SourcedValue{v: Value::Int(vb), source: None});
    let o2 = m.insert(String::from("a"), SourcedValue{v: Value::Int(va), source: None});
    std::mem::forget((o1, o2));
    let v = Value::Object(Arc::new(Mutex::new(m)));
    let r: Pairs = value_to_pairs(&v);
    match &r {
        Ok(pairs) => {
            assert!(pairs.len() == 2, "one_pair_per_object_property");
            if pairs.len() == 2 {
                assert!(is_one_byte_str(&pairs[0].0, b'a'), "object_pairs_in_ascending_key_order");
                assert!(is_one_byte_str(&pairs[1].0, b'b'), "object_pairs_in_ascending_key_order");
                assert!(is_int(&pairs[0].1, va), "object_pair_value_is_the_property_value");
                assert!(is_int(&pairs[1].1, vb), "object_pair_value_is_the_property_value");
            }
        },
        Err(_) => assert!(false, "string_list_object_are_iterable"),
    }
    kani::cover!(true, "cover_reached_end");
    std::mem::forget(r);
    std::mem::forget(v);
}
