// Kani contract harnesses for eval::value_to_pairs (C07 leaf: `for` walks a snapshot of its
// iterable taken at loop entry -- list elements by index, string bytes in order, object
// properties by ascending key -- binding the pair [key, value]).
// Child module of `eval` (src/eval/mod.rs).
use super::*;

pub fn fmt_stub(_args: core::fmt::Arguments<'_>) -> String {
    String::new()
}

const MAXLEN: usize = 3;

type Pairs = Result<Vec<(SourcedValue, SourcedValue)>>;

fn is_int(sv: &SourcedValue, want: i64) -> bool {
    matches!(sv, SourcedValue{v: Value::Int(x), source: None} if *x == want)
}

fn is_one_byte_str(sv: &SourcedValue, want: u8) -> bool {
    match sv {
        SourcedValue{v: Value::Str(s), source: None} => s.len() == 1 && s[0] == want,
        _ => false,
    }
}

// (i) which kinds are iterable: Ok iff string / list / object (kind proof, shapes irrelevant).
// One harness per kind (all 8 in one harness do not finish in 300 s: measured).
macro_rules! not_iterable_harness {
    ($name:ident, |$i:ident, $b:ident| $make:expr) => {
        #[kani::proof]
        #[kani::unwind(2)]
        #[kani::stub(alloc::fmt::format, fmt_stub)]
        fn $name() {
            let $i: i64 = kani::any();
            let $b: bool = kani::any();
            let v: Value = $make;
            let r: Pairs = value_to_pairs(&v);
            assert!(matches!(&r, Err(Error::ForIterNotIterable)), "non_iterable_is_reported_as_error");
            kani::cover!(true, "cover_reached_end");
            std::mem::forget(r);
            std::mem::forget(v);
        }
    };
}

not_iterable_harness!(c07_pairs_null_not_iterable, |_i, _b| Value::Null);
not_iterable_harness!(c07_pairs_bool_not_iterable, |_i, b| Value::Bool(b));
not_iterable_harness!(c07_pairs_int_not_iterable, |i, _b| Value::Int(i));
// DROPPED (measured): the BuiltinFunc kind -- value_to_pairs(&Value::BuiltinFunc{..}) does not finish
// symbolic execution in 300 s (the niche-encoded discriminant of the dataful variant is not folded).
not_iterable_harness!(c07_pairs_func_not_iterable, |_i, _b| Value::Func(Arc::new(Mutex::new(Func{
    name: None,
    args: vec![],
    collect_args: false,
    stmts: vec![],
    closure: ScopeStack::new(vec![]),
}))));

macro_rules! empty_iterable_harness {
    ($name:ident, $make:expr) => {
        #[kani::proof]
        #[kani::unwind(2)]
        #[kani::stub(alloc::fmt::format, fmt_stub)]
        fn $name() {
            let v: Value = $make;
            let r: Pairs = value_to_pairs(&v);
            match &r {
                Ok(p) => assert!(p.len() == 0, "empty_iterable_has_no_pairs"),
                Err(_) => assert!(false, "string_list_object_are_iterable"),
            }
            kani::cover!(true, "cover_reached_end");
            std::mem::forget(r);
            std::mem::forget(v);
        }
    };
}

empty_iterable_harness!(c07_pairs_empty_str_iterable, Value::Str(vec![]));
empty_iterable_harness!(c07_pairs_empty_list_iterable, Value::List(Arc::new(Mutex::new(vec![]))));
empty_iterable_harness!(c07_pairs_empty_object_iterable, Value::Object(Arc::new(Mutex::new(BTreeMap::new()))));

// (ii) strings: bytes in order, keyed by index. BOUNDED: length <= 3 (one harness per length).
fn str_pairs_contract(n: usize) {
    let bytes: [u8; MAXLEN] = [kani::any(), kani::any(), kani::any()];
    let mut s: Vec<u8> = Vec::with_capacity(MAXLEN);
    let mut i = 0;
    while i < n {
        s.push(bytes[i]);
        i += 1;
    }
    let v = Value::Str(s);
    let r: Pairs = value_to_pairs(&v);
    match &r {
        Ok(pairs) => {
            assert!(pairs.len() == n, "one_pair_per_string_byte");
            let mut k = 0;
            while k < MAXLEN {
                if k < n && k < pairs.len() {
                    assert!(is_int(&pairs[k].0, k as i64), "string_pairs_keyed_by_index_in_order");
                    assert!(is_one_byte_str(&pairs[k].1, bytes[k]), "string_pair_value_is_the_byte_at_index");
                }
                k += 1;
            }
        },
        Err(_) => assert!(false, "string_list_object_are_iterable"),
    }
    // operand unchanged
    match &v {
        Value::Str(s) => {
            assert!(s.len() == n, "iteration_snapshot_leaves_iterable_unchanged");
            let mut k = 0;
            while k < MAXLEN {
                if k < n {
                    assert!(s[k] == bytes[k], "iteration_snapshot_leaves_iterable_unchanged");
                }
                k += 1;
            }
        },
        _ => assert!(false, "iteration_snapshot_leaves_iterable_unchanged"),
    }
    kani::cover!(true, "cover_reached_end");
    std::mem::forget(r);
    std::mem::forget(v);
}

macro_rules! str_pairs_harness {
    ($name:ident, $n:expr) => {
        #[kani::proof]
        #[kani::unwind(5)]
        #[kani::stub(alloc::fmt::format, fmt_stub)]
        fn $name() {
            str_pairs_contract($n);
        }
    };
}

str_pairs_harness!(c07_pairs_str_len1, 1);
str_pairs_harness!(c07_pairs_str_len2, 2);
str_pairs_harness!(c07_pairs_str_len3, 3);

// (iii) lists: elements by index; the result is a snapshot. BOUNDED: length <= 3, elements Int.
fn list_pairs_contract(n: usize) {
    let e: [i64; MAXLEN] = [kani::any(), kani::any(), kani::any()];
    let extra: i64 = kani::any();
    let mut items: Vec<SourcedValue> = Vec::with_capacity(MAXLEN + 1);
    let mut i = 0;
    while i < n {
        items.push(SourcedValue{v: Value::Int(e[i]), source: None});
        i += 1;
    }
    let list: ListRef = Arc::new(Mutex::new(items));
    let v = Value::List(list.clone());
    let r: Pairs = value_to_pairs(&v);

    // the loop body mutates the iterated list after loop entry
    match list.try_lock() {
        Ok(mut g) => {
            g.push(SourcedValue{v: Value::Int(extra), source: None});
            if n >= 1 {
                let old = std::mem::replace(&mut g[0], SourcedValue{v: Value::Int(extra), source: None});
                std::mem::forget(old);
            }
        },
        Err(err) => {
            std::mem::forget(err);
            assert!(false, "iteration_snapshot_leaves_iterable_unlocked");
        },
    }

    match &r {
        Ok(pairs) => {
            assert!(pairs.len() == n, "one_pair_per_list_element_at_loop_entry");
            let mut k = 0;
            while k < MAXLEN {
                if k < n && k < pairs.len() {
                    assert!(is_int(&pairs[k].0, k as i64), "list_pairs_keyed_by_index_in_order");
                    assert!(is_int(&pairs[k].1, e[k]), "list_pair_value_is_the_element_at_loop_entry");
                }
                k += 1;
            }
        },
        Err(_) => assert!(false, "string_list_object_are_iterable"),
    }
    kani::cover!(true, "cover_reached_end");
    std::mem::forget(r);
    std::mem::forget((v, list));
}

macro_rules! list_pairs_harness {
    ($name:ident, $n:expr) => {
        #[kani::proof]
        #[kani::unwind(5)]
        #[kani::stub(alloc::fmt::format, fmt_stub)]
        fn $name() {
            list_pairs_contract($n);
        }
    };
}

list_pairs_harness!(c07_pairs_list_len1, 1);
list_pairs_harness!(c07_pairs_list_len2, 2);
list_pairs_harness!(c07_pairs_list_len3, 3);

// (iv) objects: properties by ascending key -- DROPPED (measured): an object with the two keys "b", "a"
// (BTreeMap<String, _> inserts + iteration + key.to_string()) passes 12 GB after 130 s.  Only the
// empty object is under contract (c07_pairs_empty_object_iterable).  Ascending key order is the
// BTreeMap iteration contract of std and is left to the replay/differential side of C07.
