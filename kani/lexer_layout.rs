// Kani contract harness for Lexer::skip_whitespace_and_comments (property C09: spaces, tabs,
// carriage returns and `#` comments to end of line are ignored; a newline is NOT skipped --
// it is a statement terminator).  Child module of `lexer` (private method is visible).
// The per-token continuation-rule harnesses are generated: see gen_layout.py / lexer_layout_gen.rs.
use super::*;

pub fn fmt_stub(_args: core::fmt::Arguments<'_>) -> String {
    String::new()
}

fn utf8_len(c: char) -> usize {
    let v = c as u32;
    if v < 0x80 {
        1
    } else if v < 0x800 {
        2
    } else if v < 0x1_0000 {
        3
    } else {
        4
    }
}

// Layout characters that are ignored between tokens (the newline is not one of them).
fn is_blank(c: char) -> bool {
    c == ' ' || c == '\t' || c == '\r' || c == '\x0c'
}

// ---------------------------------------------------------------------------
// requires: a fresh Lexer over the text c0 c1 c2 (three ARBITRARY chars, then end of input).
// ensures : let j = position of the first '\n' (3 if none)          -- end of the first line
//               h = position of the first '#' before j (j if none)  -- start of a comment
//               k = position of the first non-blank char before h (none if all blank)
//           if k exists : stop at k        -- "token_start_is_not_consumed" (k == 0: nothing consumed)
//                                             "ascii_whitespace_is_skipped"  (k > 0)
//           else        : stop at j        -- a comment, if any, runs to the end of the line,
//                                             EXCLUSIVE of the '\n'; the '\n' itself is not skipped
//           "stop at p" = scanner.index is the byte offset of char p and peek_char() is that
//           char (None at end of input).
// ---------------------------------------------------------------------------
#[kani::proof]
#[kani::unwind(6)]
#[kani::stub(alloc::fmt::format, fmt_stub)]
fn c09_skip_whitespace_and_comments() {
    let c0: char = kani::any();
    let c1: char = kani::any();
    let c2: char = kani::any();
    let cs = [c0, c1, c2];

    let mut buf = [0u8; 12];
    let n0 = c0.encode_utf8(&mut buf[..]).len();
    let n1 = c1.encode_utf8(&mut buf[n0..]).len();
    let n2 = c2.encode_utf8(&mut buf[n0 + n1..]).len();
    let total = n0 + n1 + n2;
    // encode_utf8 produces valid UTF-8 (std contract); avoids from_utf8's validation loop
    let s = unsafe { core::str::from_utf8_unchecked(&buf[..total]) };
    let off = [0, utf8_len(c0), utf8_len(c0) + utf8_len(c1), utf8_len(c0) + utf8_len(c1) + utf8_len(c2)];

    let mut lx = Lexer::new(s);
    lx.skip_whitespace_and_comments();
    let idx = lx.scanner.index;
    let cur = lx.scanner.peek_char();

    // --- the specification, written position-wise (no reference to the code's loop) ---
    let j = if c0 == '\n' { 0 } else if c1 == '\n' { 1 } else if c2 == '\n' { 2 } else { 3 };
    let h = if 0 < j && c0 == '#' { 0 } else if 1 < j && c1 == '#' { 1 } else if 2 < j && c2 == '#' { 2 } else { j };
    let k = if 0 < h && !is_blank(c0) { 0 } else if 1 < h && !is_blank(c1) { 1 } else if 2 < h && !is_blank(c2) { 2 } else { 3 };
    let token_start = k < h;
    let stop = if token_start { k } else { j };
    let exp_cur = if stop < 3 { Some(cs[stop]) } else { None };

    if token_start {
        if k == 0 {
            assert!(idx == 0 && cur == Some(c0), "token_start_is_not_consumed");
        } else {
            assert!(idx == off[k], "ascii_whitespace_is_skipped");
            assert!(cur == exp_cur, "token_start_is_not_consumed");
        }
    } else if h < j {
        // a comment starts at h after blanks only: it runs up to, not including, the newline / EOF
        assert!(idx == off[j], "comment_runs_to_end_of_line_exclusive");
        assert!(cur == exp_cur, "comment_runs_to_end_of_line_exclusive");
    } else if j < 3 {
        // only blanks (possibly none) before a newline
        assert!(idx == off[j] && cur == Some('\n'), "newline_is_not_skipped");
    } else {
        // only blanks up to the end of input
        assert!(idx == total && cur.is_none(), "ascii_whitespace_is_skipped");
    }
    // summary of the above in the words of the property
    match cur {
        None => assert!(idx == total, "stops_only_at_end_of_input_newline_or_token_start"),
        Some(c) => assert!(c == '\n' || (!is_blank(c) && c != '#'), "stops_only_at_end_of_input_newline_or_token_start"),
    }
    assert!(idx <= total && s.is_char_boundary(idx), "scanner_index_is_char_boundary");

    kani::cover!(c0 == '#' && c1 != '\n' && c2 == '\n', "cover_comment_then_newline");
    kani::cover!(c0 == '#' && c1 != '\n' && c2 != '\n', "cover_comment_to_end_of_input");
    kani::cover!(c0 == '#' && c1 == '#', "cover_hash_inside_comment");
    kani::cover!(c0 == ' ' && c1 == '#' && utf8_len(c2) == 4, "cover_blank_comment_wide_char");
    kani::cover!(c0 == ' ' && c1 == '\t' && c2 == '\r', "cover_all_blank");
    kani::cover!(c0 == '\x0c' && c1 == '\n', "cover_form_feed_then_newline");
    kani::cover!(c0 == '\n', "cover_leading_newline");
    kani::cover!(c0 == ' ' && c1 == 'x', "cover_blank_then_token");
    kani::cover!(c0 == 'x', "cover_token_start_first");
    kani::cover!(c0 == '\x0b', "cover_vertical_tab_is_not_blank");
    kani::cover!(c0 == '\u{a0}', "cover_non_ascii_space_is_not_blank");
    kani::cover!(c0 == '\r' && c1 == '\n', "cover_crlf");
    std::mem::forget(lx);
}
