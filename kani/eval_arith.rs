// Kani contract harnesses for eval::apply_binary_operation, Int x Int arms (C06, C02).
// Child module of `eval` (injected with #[cfg(kani)] #[path] mod), so private fns are visible.
use super::*;

pub fn fmt_stub(_args: core::fmt::Arguments<'_>) -> String {
    String::new()
}

fn fits(x: i128) -> bool {
    x >= i64::MIN as i128 && x <= i64::MAX as i128
}

// Contract for the + - * arms: Ok(Int(exact)) iff exact fits, else AtLoc{IntOverflow{op,a,b}, op_loc}.
macro_rules! arith_exact_harness {
    ($name:ident, $op:ident, $exact:expr) => {
        #[kani::proof]
        #[kani::unwind(2)]
        #[kani::stub(alloc::fmt::format, fmt_stub)]
        fn $name() {
            let a: i64 = kani::any();
            let b: i64 = kani::any();
            let l: usize = kani::any();
            let c: usize = kani::any();
            let op = BinaryOp::$op;
            let loc = (l, c);
            let lhs = Value::Int(a);
            let rhs = Value::Int(b);
            let r = apply_binary_operation(&op, &loc, &lhs, &rhs);
            let f: fn(i128, i128) -> i128 = $exact;
            let exact = f(a as i128, b as i128);
            let ok = fits(exact);
            match &r {
                Ok(Value::Int(v)) => {
                    assert!(ok, "result_only_when_exact_fits_i64");
                    assert!(*v as i128 == exact, "result_is_mathematically_exact");
                },
                Err(Error::AtLoc{source, line, col}) => {
                    assert!(!ok, "error_only_when_result_does_not_fit");
                    assert!(*line == l && *col == c, "overflow_error_at_operator_location");
                    match &**source {
                        Error::IntOverflow{op: BinaryOp::$op, lhs: el, rhs: er} => {
                            assert!(*el == a && *er == b, "overflow_error_names_operands_in_order");
                        },
                        _ => assert!(false, "overflow_error_is_IntOverflow_naming_the_operation"),
                    }
                },
                _ => assert!(false, "result_is_int_or_located_error"),
            }
            kani::cover!(ok, "cover_fits");
            kani::cover!(!ok, "cover_overflows");
            std::mem::forget(r);
            std::mem::forget(lhs);
            std::mem::forget(rhs);
        }
    };
}

arith_exact_harness!(c06_sum_exact_or_error, Sum, |a, b| a + b);
arith_exact_harness!(c06_sub_exact_or_error, Sub, |a, b| a - b);
arith_exact_harness!(c06_mul_exact_or_error, Mul, |a, b| a * b);

// ---------------------------------------------------------------------------
// Division and remainder: contract chaining. The std primitive that does the
// actual division is replaced by a *recording nondet stub* (the caller is
// checked against the callee's contract, not its body); the mathematical
// meaning of the primitive is lemma L-div (Verus, /verif/verus/l_div.rs).
// ---------------------------------------------------------------------------
pub static mut DIV_CALLS: u32 = 0;
pub static mut DIV_A: i64 = 0;
pub static mut DIV_B: i64 = 0;
pub static mut DIV_RET: i64 = 0;
pub static mut REM_CALLS: u32 = 0;
pub static mut REM_A: i64 = 0;
pub static mut REM_B: i64 = 0;
pub static mut REM_RET: i64 = 0;

// contract of i64::checked_div: None iff b == 0 || (a == MIN && b == -1); otherwise Some(quot(a, b))
// where quot is left uninterpreted here (recorded in DIV_RET) and pinned down by L-div.
pub fn checked_div_stub(a: i64, b: i64) -> Option<i64> {
    unsafe {
        DIV_CALLS += 1;
        DIV_A = a;
        DIV_B = b;
    }
    if b == 0 || (a == i64::MIN && b == -1) {
        None
    } else {
        let q: i64 = kani::any();
        unsafe { DIV_RET = q; }
        Some(q)
    }
}

// contract of i64::checked_rem: None iff b == 0 || (a == MIN && b == -1); otherwise Some(rem(a, b)).
pub fn checked_rem_stub(a: i64, b: i64) -> Option<i64> {
    unsafe {
        REM_CALLS += 1;
        REM_A = a;
        REM_B = b;
    }
    if b == 0 || (a == i64::MIN && b == -1) {
        None
    } else {
        let r: i64 = kani::any();
        unsafe { REM_RET = r; }
        Some(r)
    }
}

// contract of i64::wrapping_rem: precondition b != 0 (else panic); b == -1 gives 0; otherwise rem(a, b).
pub fn wrapping_rem_stub(a: i64, b: i64) -> i64 {
    assert!(b != 0, "wrapping_rem_precondition_nonzero_divisor");
    unsafe {
        REM_CALLS += 1;
        REM_A = a;
        REM_B = b;
    }
    if b == -1 {
        unsafe { REM_RET = 0; }
        0
    } else {
        let r: i64 = kani::any();
        unsafe { REM_RET = r; }
        r
    }
}

fn check_overflow_err(r: &Result<Value>, is_div: bool, a: i64, b: i64, l: usize, c: usize) {
    match r {
        Err(Error::AtLoc{source, line, col}) => {
            assert!(*line == l && *col == c, "overflow_error_at_operator_location");
            match &**source {
                Error::IntOverflow{op, lhs: el, rhs: er} => {
                    let op_ok = match op {
                        BinaryOp::Div => is_div,
                        BinaryOp::Mod => !is_div,
                        _ => false,
                    };
                    assert!(op_ok, "overflow_error_names_the_operation");
                    assert!(*el == a && *er == b, "overflow_error_names_operands_in_order");
                },
                _ => assert!(false, "overflow_error_is_IntOverflow"),
            }
        },
        _ => assert!(false, "undefined_quotient_or_remainder_is_a_located_error"),
    }
}

#[kani::proof]
#[kani::unwind(2)]
#[kani::stub(alloc::fmt::format, fmt_stub)]
#[kani::stub(i64::checked_div, checked_div_stub)]
fn c06_div_chain() {
    let a: i64 = kani::any();
    let b: i64 = kani::any();
    let l: usize = kani::any();
    let c: usize = kani::any();
    let op = BinaryOp::Div;
    let loc = (l, c);
    let lhs = Value::Int(a);
    let rhs = Value::Int(b);
    let r = apply_binary_operation(&op, &loc, &lhs, &rhs);
    let undefined = b == 0 || (a == i64::MIN && b == -1);
    let calls = unsafe { DIV_CALLS };
    if undefined {
        check_overflow_err(&r, true, a, b, l, c);
    } else {
        match &r {
            Ok(Value::Int(v)) => {
                if calls >= 1 {
                    assert!(calls == 1, "quotient_computed_once");
                    assert!(unsafe { DIV_A == a && DIV_B == b }, "quotient_of_lhs_by_rhs_in_order");
                    assert!(*v == unsafe { DIV_RET }, "result_is_the_quotient_unmodified");
                }
            },
            _ => assert!(false, "defined_quotient_is_returned_as_int"),
        }
    }
    // chain anchor: the defined case goes through the primitive under contract
    kani::cover!(!undefined && calls == 1, "chain_primitive_called");
    kani::cover!(undefined, "cover_undefined");
    std::mem::forget(r);
    std::mem::forget(lhs);
    std::mem::forget(rhs);
}

#[kani::proof]
#[kani::unwind(2)]
#[kani::stub(alloc::fmt::format, fmt_stub)]
#[kani::stub(i64::checked_rem, checked_rem_stub)]
#[kani::stub(i64::wrapping_rem, wrapping_rem_stub)]
fn c06_mod_chain() {
    let a: i64 = kani::any();
    let b: i64 = kani::any();
    let l: usize = kani::any();
    let c: usize = kani::any();
    let op = BinaryOp::Mod;
    let loc = (l, c);
    let lhs = Value::Int(a);
    let rhs = Value::Int(b);
    let r = apply_binary_operation(&op, &loc, &lhs, &rhs);
    let calls = unsafe { REM_CALLS };
    if b == 0 {
        check_overflow_err(&r, false, a, b, l, c);
    } else {
        match &r {
            Ok(Value::Int(v)) => {
                if b == -1 {
                    // exact remainder by -1 is 0 for every dividend, including i64::MIN
                    assert!(*v == 0, "remainder_by_minus_one_is_zero");
                } else if calls >= 1 {
                    assert!(calls == 1, "remainder_computed_once");
                    assert!(unsafe { REM_A == a && REM_B == b }, "remainder_of_lhs_by_rhs_in_order");
                    assert!(*v == unsafe { REM_RET }, "result_is_the_remainder_unmodified");
                }
            },
            _ => assert!(false, "defined_remainder_is_returned_as_int"),
        }
    }
    kani::cover!(b != 0 && b != -1 && calls == 1, "chain_primitive_called");
    kani::cover!(b == 0, "cover_zero_divisor");
    kani::cover!(a == i64::MIN && b == -1, "cover_min_by_minus_one");
    std::mem::forget(r);
    std::mem::forget(lhs);
    std::mem::forget(rhs);
}
