// Kani contract harnesses for eval::eq, eval::ref_eq and the Eq/Ne/RefEq/RefNe arms of
// eval::apply_binary_operation (C10: `==` is a structural equivalence; `===` is identity;
// comparing never mutates). Child module of `eval` (src/eval/mod.rs).
//
// Scalars: proofs over the full payload domain. Strings / lists / objects: BOUNDED (small
// shapes, stated per harness); nested containers are out of Kani's reach (README rule 4).
use super::*;

pub fn fmt_stub(_args: core::fmt::Arguments<'_>) -> String {
    String::new()
}

type EqResult = StdResult<bool, (String, String, String)>;

fn is_ok(r: &EqResult, want: bool) -> bool {
    match r {
        Ok(v) => *v == want,
        Err(_) => false,
    }
}

fn ok_val(r: &EqResult) -> Option<bool> {
    match r {
        Ok(v) => Some(*v),
        Err(_) => None,
    }
}

fn is_bool(r: &Result<Value>, want: bool) -> bool {
    match r {
        Ok(Value::Bool(v)) => *v == want,
        _ => false,
    }
}

fn bytes_are(s: &String, lit: &[u8]) -> bool {
    let b = s.as_bytes();
    if b.len() != lit.len() {
        return false;
    }
    let mut i = 0;
    while i < lit.len() {
        if b[i] != lit[i] {
            return false;
        }
        i += 1;
    }
    true
}

fn int_list(n: usize, e0: i64, e1: i64) -> ListRef {
    let mut v: Vec<SourcedValue> = Vec::with_capacity(2);
    if n >= 1 {
        v.push(SourcedValue{v: Value::Int(e0), source: None});
    }
    if n >= 2 {
        v.push(SourcedValue{v: Value::Int(e1), source: None});
    }
    Arc::new(Mutex::new(v))
}

// The list behind `l` is unlocked, has length n and Int payloads e0, e1 (as far as present).
fn list_is(l: &ListRef, n: usize, e0: i64, e1: i64) -> bool {
    match l.try_lock() {
        Ok(g) => {
            let mut ok = g.len() == n;
            if ok && n >= 1 {
                ok = matches!(&g[0], SourcedValue{v: Value::Int(x), source: None} if *x == e0);
            }
            if ok && n >= 2 {
                ok = matches!(&g[1], SourcedValue{v: Value::Int(x), source: None} if *x == e1);
            }
            ok
        },
        Err(e) => {
            std::mem::forget(e);
            false
        },
    }
}

fn len2(b0: bool, b1: bool) -> usize {
    (b0 as usize) + (b1 as usize)
}

// ---------------------------------------------------------------------------------------
// `===` / `!==`: identity of the container / function value
// ---------------------------------------------------------------------------------------
macro_rules! ref_eq_harness {
    ($name:ident, $variant:ident, $new:expr) => {
        #[kani::proof]
        #[kani::unwind(2)]
        #[kani::stub(alloc::fmt::format, fmt_stub)]
        fn $name() {
            let l: usize = kani::any();
            let c: usize = kani::any();
            let loc = (l, c);
            let a = Arc::new(Mutex::new($new));
            let b = Arc::new(Mutex::new($new));
            let v1 = Value::$variant(a.clone());
            let v2 = Value::$variant(a.clone());
            let w = Value::$variant(b.clone());

            assert!(ref_eq(&v1, &v2) == Some(true), "identity_true_for_the_same_container_or_function");
            assert!(ref_eq(&v2, &v1) == Some(true), "identity_is_symmetric");
            assert!(ref_eq(&v1, &v1) == Some(true), "identity_is_reflexive");
            assert!(ref_eq(&w, &w) == Some(true), "identity_is_reflexive");
            // equal shape and contents, but another allocation
            assert!(ref_eq(&v1, &w) == Some(false), "identity_false_for_distinct_containers_or_functions");
            assert!(ref_eq(&w, &v1) == Some(false), "identity_is_symmetric");

            // through the operator implementation: `===` answers ref_eq, `!==` its negation
            let e_same = apply_binary_operation(&BinaryOp::RefEq, &loc, &v1, &v2);
            let n_same = apply_binary_operation(&BinaryOp::RefNe, &loc, &v1, &v2);
            let e_diff = apply_binary_operation(&BinaryOp::RefEq, &loc, &v1, &w);
            let n_diff = apply_binary_operation(&BinaryOp::RefNe, &loc, &v1, &w);
            assert!(is_bool(&e_same, true), "ref_eq_operator_true_for_same_value");
            assert!(is_bool(&n_same, false), "ref_ne_is_negation_of_ref_eq");
            assert!(is_bool(&e_diff, false), "ref_eq_operator_false_for_distinct_values");
            assert!(is_bool(&n_diff, true), "ref_ne_is_negation_of_ref_eq");

            // comparing never mutates / never leaves a container locked
            assert!(a.try_lock().is_ok() && b.try_lock().is_ok(), "comparing_leaves_operands_unlocked");
            assert!(Arc::strong_count(&a) == 3 && Arc::strong_count(&b) == 2, "comparing_keeps_no_reference");

            kani::cover!(true, "cover_reached_end");
            std::mem::forget((e_same, n_same, e_diff, n_diff));
            std::mem::forget((v1, v2, w, a, b));
        }
    };
}

ref_eq_harness!(c10_ref_eq_list, List, Vec::<SourcedValue>::new());
ref_eq_harness!(c10_ref_eq_object, Object, BTreeMap::<String, SourcedValue>::new());
ref_eq_harness!(c10_ref_eq_func, Func, Func{
    name: None,
    args: vec![],
    collect_args: false,
    stmts: vec![],
    closure: ScopeStack::new(vec![]),
});

// ---------------------------------------------------------------------------------------
// `==` / `!=` on scalars (all payloads symbolic)
// ---------------------------------------------------------------------------------------
#[kani::proof]
#[kani::unwind(2)]
#[kani::stub(alloc::fmt::format, fmt_stub)]
fn c10_eq_null() {
    let l: usize = kani::any();
    let c: usize = kani::any();
    let loc = (l, c);
    let a = Value::Null;
    let b = Value::Null;
    let r = eq(&a, &b);
    let r_self = eq(&a, &a);
    let e = apply_binary_operation(&BinaryOp::Eq, &loc, &a, &b);
    let n = apply_binary_operation(&BinaryOp::Ne, &loc, &a, &b);
    assert!(is_ok(&r, true), "value_equals_its_copy");
    assert!(is_ok(&r_self, true), "value_equals_itself");
    assert!(is_bool(&e, true), "eq_operator_answers_structural_equality");
    assert!(is_bool(&n, false), "ne_is_negation_of_eq");
    kani::cover!(true, "cover_reached_end");
    std::mem::forget((r, r_self, e, n, a, b));
}

macro_rules! eq_scalar_harness {
    ($name:ident, $variant:ident, $ty:ty) => {
        #[kani::proof]
        #[kani::unwind(2)]
        #[kani::stub(alloc::fmt::format, fmt_stub)]
        fn $name() {
            let x: $ty = kani::any();
            let y: $ty = kani::any();
            let z: $ty = kani::any();
            let l: usize = kani::any();
            let c: usize = kani::any();
            let loc = (l, c);
            let a = Value::$variant(x);
            let a_copy = Value::$variant(x);
            let b = Value::$variant(y);
            let d = Value::$variant(z);

            let r_aa = eq(&a, &a);
            let r_copy = eq(&a, &a_copy);
            let r_ab = eq(&a, &b);
            let r_ba = eq(&b, &a);
            let r_bd = eq(&b, &d);
            let r_ad = eq(&a, &d);
            let e = apply_binary_operation(&BinaryOp::Eq, &loc, &a, &b);
            let n = apply_binary_operation(&BinaryOp::Ne, &loc, &a, &b);

            assert!(is_ok(&r_aa, true), "value_equals_itself");
            assert!(is_ok(&r_copy, true), "value_equals_its_copy");
            assert!(ok_val(&r_ab).is_some() && ok_val(&r_ba).is_some(), "same_typed_scalars_compare_without_error");
            assert!(ok_val(&r_ab) == ok_val(&r_ba), "equality_is_symmetric");
            assert!(ok_val(&r_ab) == Some(x == y), "equality_depends_only_on_contents");
            if is_ok(&r_ab, true) && is_ok(&r_bd, true) {
                assert!(is_ok(&r_ad, true), "equality_is_transitive");
            }
            match (ok_val(&r_ab), &e, &n) {
                (Some(v), Ok(Value::Bool(ev)), Ok(Value::Bool(nv))) => {
                    assert!(*ev == v, "eq_operator_answers_structural_equality");
                    assert!(*nv == !*ev, "ne_is_negation_of_eq");
                },
                _ => assert!(false, "eq_and_ne_operators_yield_bools"),
            }
            // comparing never mutates
            match (&a, &b) {
                (Value::$variant(p), Value::$variant(q)) => {
                    assert!(*p == x && *q == y, "comparing_leaves_operands_unchanged");
                },
                _ => assert!(false, "comparing_leaves_operands_unchanged"),
            }
            kani::cover!(x == y, "cover_equal");
            kani::cover!(x != y, "cover_different");
            kani::cover!(x == y && y == z, "cover_transitive_premise");
            std::mem::forget((r_aa, r_copy, r_ab, r_ba, r_bd, r_ad, e, n));
            std::mem::forget((a, a_copy, b, d));
        }
    };
}

eq_scalar_harness!(c10_eq_bool, Bool, bool);
eq_scalar_harness!(c10_eq_int, Int, i64);

// Strings: BOUNDED, length <= 2, bytes symbolic.
fn sym_str2(b0: bool, b1: bool, c0: u8, c1: u8) -> Vec<u8> {
    let n = len2(b0, b1);
    let mut v: Vec<u8> = Vec::with_capacity(2);
    if n >= 1 {
        v.push(c0);
    }
    if n >= 2 {
        v.push(c1);
    }
    v
}

fn str_same(n: usize, p0: u8, p1: u8, m: usize, q0: u8, q1: u8) -> bool {
    n == m && (n < 1 || p0 == q0) && (n < 2 || p1 == q1)
}

#[kani::proof]
#[kani::unwind(4)]
#[kani::stub(alloc::fmt::format, fmt_stub)]
fn c10_eq_str() {
    let (xb0, xb1, x0, x1): (bool, bool, u8, u8) = kani::any();
    let (yb0, yb1, y0, y1): (bool, bool, u8, u8) = kani::any();
    let (zb0, zb1, z0, z1): (bool, bool, u8, u8) = kani::any();
    let l: usize = kani::any();
    let c: usize = kani::any();
    let loc = (l, c);
    let (nx, ny) = (len2(xb0, xb1), len2(yb0, yb1));
    let a = Value::Str(sym_str2(xb0, xb1, x0, x1));
    let a_copy = Value::Str(sym_str2(xb0, xb1, x0, x1));
    let b = Value::Str(sym_str2(yb0, yb1, y0, y1));
    let d = Value::Str(sym_str2(zb0, zb1, z0, z1));

    let r_aa = eq(&a, &a);
    let r_copy = eq(&a, &a_copy);
    let r_ab = eq(&a, &b);
    let r_ba = eq(&b, &a);
    let r_bd = eq(&b, &d);
    let r_ad = eq(&a, &d);
    let e = apply_binary_operation(&BinaryOp::Eq, &loc, &a, &b);
    let n = apply_binary_operation(&BinaryOp::Ne, &loc, &a, &b);

    let same = str_same(nx, x0, x1, ny, y0, y1);
    assert!(is_ok(&r_aa, true), "value_equals_itself");
    assert!(is_ok(&r_copy, true), "value_equals_its_copy");
    assert!(ok_val(&r_ab).is_some() && ok_val(&r_ba).is_some(), "same_typed_scalars_compare_without_error");
    assert!(ok_val(&r_ab) == ok_val(&r_ba), "equality_is_symmetric");
    assert!(ok_val(&r_ab) == Some(same), "equality_depends_only_on_contents");
    if is_ok(&r_ab, true) && is_ok(&r_bd, true) {
        assert!(is_ok(&r_ad, true), "equality_is_transitive");
    }
    match (ok_val(&r_ab), &e, &n) {
        (Some(v), Ok(Value::Bool(ev)), Ok(Value::Bool(nv))) => {
            assert!(*ev == v, "eq_operator_answers_structural_equality");
            assert!(*nv == !*ev, "ne_is_negation_of_eq");
        },
        _ => assert!(false, "eq_and_ne_operators_yield_bools"),
    }
    match (&a, &b) {
        (Value::Str(p), Value::Str(q)) => {
            assert!(p.len() == nx && q.len() == ny, "comparing_leaves_operands_unchanged");
            assert!((nx < 1 || p[0] == x0) && (nx < 2 || p[1] == x1), "comparing_leaves_operands_unchanged");
            assert!((ny < 1 || q[0] == y0) && (ny < 2 || q[1] == y1), "comparing_leaves_operands_unchanged");
        },
        _ => assert!(false, "comparing_leaves_operands_unchanged"),
    }
    kani::cover!(same && nx == 2, "cover_equal_len2");
    kani::cover!(same && nx == 0, "cover_equal_empty");
    kani::cover!(nx != ny, "cover_different_length");
    kani::cover!(nx == 2 && ny == 2 && x0 == y0 && x1 != y1, "cover_differ_in_last_byte");
    kani::cover!(is_ok(&r_ab, true) && is_ok(&r_bd, true) && nx == 2, "cover_transitive_premise");
    std::mem::forget((r_aa, r_copy, r_ab, r_ba, r_bd, r_ad, e, n));
    std::mem::forget((a, a_copy, b, d));
}

// Differently-typed scalars and functions: an error naming both types in operand order.
fn names_types(r: &EqResult, lhs: &[u8], rhs: &[u8]) -> bool {
    match r {
        Err((_, a, b)) => bytes_are(a, lhs) && bytes_are(b, rhs),
        Ok(_) => false,
    }
}

fn builtin_dummy(_this: Option<SourcedValue>, _args: Vec<SourcedValue>) -> Result<SourcedValue> {
    Err(Error::BreakOutsideLoop)
}

#[kani::proof]
#[kani::unwind(8)]
#[kani::stub(alloc::fmt::format, fmt_stub)]
fn c10_eq_type_mismatch_scalars() {
    let i: i64 = kani::any();
    let b: bool = kani::any();
    let ch: u8 = kani::any();
    let vi = Value::Int(i);
    let vb = Value::Bool(b);
    let vn = Value::Null;
    let vs = Value::Str(vec![ch]);
    let vl = Value::List(Arc::new(Mutex::new(vec![])));
    let vo = Value::Object(Arc::new(Mutex::new(BTreeMap::new())));

    let r1 = eq(&vi, &vb);
    let r2 = eq(&vb, &vi);
    let r3 = eq(&vn, &vi);
    let r4 = eq(&vs, &vn);
    let r5 = eq(&vl, &vo);
    let r6 = eq(&vo, &vs);
    assert!(names_types(&r1, b"int", b"bool"), "type_mismatch_is_an_error_naming_both_types_in_order");
    assert!(names_types(&r2, b"bool", b"int"), "type_mismatch_is_an_error_naming_both_types_in_order");
    assert!(names_types(&r3, b"null", b"int"), "type_mismatch_is_an_error_naming_both_types_in_order");
    assert!(names_types(&r4, b"string", b"null"), "type_mismatch_is_an_error_naming_both_types_in_order");
    assert!(names_types(&r5, b"list", b"object"), "type_mismatch_is_an_error_naming_both_types_in_order");
    assert!(names_types(&r6, b"object", b"string"), "type_mismatch_is_an_error_naming_both_types_in_order");
    kani::cover!(true, "cover_reached_end");
    std::mem::forget((r1, r2, r3, r4, r5, r6));
    std::mem::forget((vi, vb, vn, vs, vl, vo));
}

#[kani::proof]
#[kani::unwind(6)]
#[kani::stub(alloc::fmt::format, fmt_stub)]
fn c10_eq_two_functions_is_error() {
    let l: usize = kani::any();
    let c: usize = kani::any();
    let loc = (l, c);
    let f = Arc::new(Mutex::new(Func{
        name: None,
        args: vec![],
        collect_args: false,
        stmts: vec![],
        closure: ScopeStack::new(vec![]),
    }));
    let vf = Value::Func(f.clone());
    let vf_alias = Value::Func(f.clone());
    let vbf = Value::BuiltinFunc{name: String::new(), f: builtin_dummy};
    let r1 = eq(&vf, &vf_alias);
    let r2 = eq(&vbf, &vf);
    assert!(names_types(&r1, b"func", b"func"), "comparing_two_functions_is_an_error_naming_both_types");
    assert!(names_types(&r2, b"func", b"func"), "comparing_two_functions_is_an_error_naming_both_types");
    // and the operator reports it as a located error, never as a boolean
    let e = apply_binary_operation(&BinaryOp::Eq, &loc, &vf, &vf_alias);
    match &e {
        Err(Error::AtLoc{source, line, col}) => {
            assert!(*line == l && *col == c, "type_mismatch_error_at_operator_location");
            match &**source {
                Error::InvalidEqOpTypes{op: BinaryOp::Eq, lhs_type, rhs_type, ..} => {
                    assert!(
                        bytes_are(lhs_type, b"func") && bytes_are(rhs_type, b"func"),
                        "comparing_two_functions_is_an_error_naming_both_types"
                    );
                },
                _ => assert!(false, "type_mismatch_error_names_the_operator_and_types"),
            }
        },
        _ => assert!(false, "type_mismatch_is_never_a_silent_boolean"),
    }
    kani::cover!(true, "cover_reached_end");
    std::mem::forget((r1, r2, e));
    std::mem::forget((vf, vf_alias, vbf, f));
}

// ---------------------------------------------------------------------------------------
// `==` on flat lists of Int. BOUNDED: list length <= 2, elements Int (payloads symbolic).
// ---------------------------------------------------------------------------------------
fn list_same(n: usize, p0: i64, p1: i64, m: usize, q0: i64, q1: i64) -> bool {
    n == m && (n < 1 || p0 == q0) && (n < 2 || p1 == q1)
}

// nx, ny are CONCRETE per harness cell (a symbolic length does not finish in 5 min: measured).
fn eq_list_structural_contract(nx: usize, ny: usize) {
    let (x0, x1, y0, y1): (i64, i64, i64, i64) = kani::any();
    let l: usize = kani::any();
    let c: usize = kani::any();
    let loc = (l, c);
    let xs = int_list(nx, x0, x1);
    let ys = int_list(ny, y0, y1);
    let a = Value::List(xs.clone());
    let b = Value::List(ys.clone());

    let r_ab = eq(&a, &b);
    let r_ba = eq(&b, &a);
    let e = apply_binary_operation(&BinaryOp::Eq, &loc, &a, &b);
    let n = apply_binary_operation(&BinaryOp::Ne, &loc, &a, &b);

    let same = list_same(nx, x0, x1, ny, y0, y1);
    assert!(ok_val(&r_ab).is_some() && ok_val(&r_ba).is_some(), "int_lists_compare_without_error");
    assert!(ok_val(&r_ab) == ok_val(&r_ba), "equality_is_symmetric");
    if nx != ny {
        assert!(is_ok(&r_ab, false), "lists_of_different_length_are_not_equal");
    }
    if same {
        assert!(is_ok(&r_ab, true), "value_equals_its_copy");
    }
    assert!(ok_val(&r_ab) == Some(same), "equality_depends_only_on_shape_and_contents");
    match (ok_val(&r_ab), &e, &n) {
        (Some(v), Ok(Value::Bool(ev)), Ok(Value::Bool(nv))) => {
            assert!(*ev == v, "eq_operator_answers_structural_equality");
            assert!(*nv == !*ev, "ne_is_negation_of_eq");
        },
        _ => assert!(false, "eq_and_ne_operators_yield_bools"),
    }
    // comparing never mutates, never leaves a list locked, keeps no reference
    assert!(list_is(&xs, nx, x0, x1), "comparing_leaves_operands_unchanged_and_unlocked");
    assert!(list_is(&ys, ny, y0, y1), "comparing_leaves_operands_unchanged_and_unlocked");
    assert!(Arc::strong_count(&xs) == 2 && Arc::strong_count(&ys) == 2, "comparing_keeps_no_reference");

    // (cell-aware: every cover is satisfiable in every (nx, ny) cell unless the contract is vacuous)
    kani::cover!(same == (nx == ny), "cover_equal_iff_same_length_cell");
    kani::cover!(!same || nx == 0, "cover_not_equal_unless_both_empty");
    kani::cover!(nx != 2 || ny != 2 || (x0 == y0 && x1 != y1), "cover_differ_in_last_element_when_len2");
    kani::cover!(nx != 2 || ny != 2 || (x0 != y0 && x1 == y1), "cover_differ_in_first_element_when_len2");
    std::mem::forget((r_ab, r_ba, e, n));
    std::mem::forget((a, b, xs, ys));
}

macro_rules! eq_list_structural_harness {
    ($name:ident, $nx:expr, $ny:expr) => {
        #[kani::proof]
        #[kani::unwind(4)]
        #[kani::stub(alloc::fmt::format, fmt_stub)]
        fn $name() {
            eq_list_structural_contract($nx, $ny);
        }
    };
}

eq_list_structural_harness!(c10_eq_list_structural_len0, 0, 0);
eq_list_structural_harness!(c10_eq_list_structural_len1, 1, 1);
eq_list_structural_harness!(c10_eq_list_structural_len2, 2, 2);
eq_list_structural_harness!(c10_eq_list_lengths_0_1, 0, 1);
eq_list_structural_harness!(c10_eq_list_lengths_1_2, 1, 2);
eq_list_structural_harness!(c10_eq_list_lengths_0_2, 0, 2);

fn eq_list_transitive_contract(n: usize) {
    let (x0, x1, y0, y1, z0, z1): (i64, i64, i64, i64, i64, i64) = kani::any();
    let a = Value::List(int_list(n, x0, x1));
    let b = Value::List(int_list(n, y0, y1));
    let d = Value::List(int_list(n, z0, z1));
    let r_ab = eq(&a, &b);
    let r_bd = eq(&b, &d);
    let r_ad = eq(&a, &d);
    assert!(
        ok_val(&r_ab).is_some() && ok_val(&r_bd).is_some() && ok_val(&r_ad).is_some(),
        "int_lists_compare_without_error"
    );
    if is_ok(&r_ab, true) && is_ok(&r_bd, true) {
        assert!(is_ok(&r_ad, true), "equality_is_transitive");
    }
    kani::cover!(is_ok(&r_ab, true) && is_ok(&r_bd, true), "cover_transitive_premise");
    kani::cover!(is_ok(&r_ab, true) && !is_ok(&r_bd, true), "cover_premise_fails");
    std::mem::forget((r_ab, r_bd, r_ad));
    std::mem::forget((a, b, d));
}

#[kani::proof]
#[kani::unwind(4)]
#[kani::stub(alloc::fmt::format, fmt_stub)]
fn c10_eq_list_transitive_len1() {
    eq_list_transitive_contract(1);
}

#[kani::proof]
#[kani::unwind(4)]
#[kani::stub(alloc::fmt::format, fmt_stub)]
fn c10_eq_list_transitive_len2() {
    eq_list_transitive_contract(2);
}

// Aliased operands (`a === b`): the identity short-cut must agree with the structural answer,
// i.e. with the answer for a distinct deep copy: Ok(true).
fn eq_list_alias_contract(nx: usize) {
    let (x0, x1): (i64, i64) = kani::any();
    let xs = int_list(nx, x0, x1);
    let a = Value::List(xs.clone());
    let a_alias = Value::List(xs.clone());
    let a_copy = Value::List(int_list(nx, x0, x1));

    let id = ref_eq(&a, &a_alias);
    let r_alias = eq(&a, &a_alias);
    let r_self = eq(&a, &a);
    let r_copy = eq(&a, &a_copy);
    let r_copy_rev = eq(&a_copy, &a);
    assert!(id == Some(true), "identity_true_for_the_same_container_or_function");
    assert!(is_ok(&r_alias, true), "identity_implies_equality");
    assert!(is_ok(&r_self, true), "value_equals_itself");
    assert!(is_ok(&r_copy, true) && is_ok(&r_copy_rev, true), "value_equals_its_copy");
    assert!(ok_val(&r_alias) == ok_val(&r_copy), "equality_does_not_depend_on_aliasing");
    assert!(list_is(&xs, nx, x0, x1), "comparing_leaves_operands_unchanged_and_unlocked");
    kani::cover!(true, "cover_reached_end");
    std::mem::forget((r_alias, r_self, r_copy, r_copy_rev));
    std::mem::forget((a, a_alias, a_copy, xs));
}

macro_rules! eq_list_alias_harness {
    ($name:ident, $n:expr) => {
        #[kani::proof]
        #[kani::unwind(4)]
        #[kani::stub(alloc::fmt::format, fmt_stub)]
        fn $name() {
            eq_list_alias_contract($n);
        }
    };
}

eq_list_alias_harness!(c10_eq_list_alias_agrees_with_copy_len0, 0);
eq_list_alias_harness!(c10_eq_list_alias_agrees_with_copy_len1, 1);
eq_list_alias_harness!(c10_eq_list_alias_agrees_with_copy_len2, 2);

// Element type mismatch at index $idx of two 2-element lists: [.., Int, ..] vs [.., Bool, ..].
macro_rules! eq_list_mismatch_harness {
    ($name:ident, $idx:expr) => {
        #[kani::proof]
        #[kani::unwind(6)]
        #[kani::stub(alloc::fmt::format, fmt_stub)]
        fn $name() {
            let x0: i64 = kani::any();
            let x1: i64 = kani::any();
            let yb: bool = kani::any();
            let l: usize = kani::any();
            let c: usize = kani::any();
            let loc = (l, c);
            // ys agrees with xs before the mismatching index (so that index is reached)
            let xs = int_list(2, x0, x1);
            let ys: ListRef = if $idx == 0 {
                Arc::new(Mutex::new(vec![
                    SourcedValue{v: Value::Bool(yb), source: None},
                    SourcedValue{v: Value::Int(x1), source: None},
                ]))
            } else {
                Arc::new(Mutex::new(vec![
                    SourcedValue{v: Value::Int(x0), source: None},
                    SourcedValue{v: Value::Bool(yb), source: None},
                ]))
            };
            let a = Value::List(xs.clone());
            let b = Value::List(ys.clone());
            let r_ab = eq(&a, &b);
            let r_ba = eq(&b, &a);
            assert!(names_types(&r_ab, b"int", b"bool"), "type_mismatch_is_an_error_naming_both_types_in_order");
            assert!(names_types(&r_ba, b"bool", b"int"), "type_mismatch_is_an_error_naming_both_types_in_order");
            let e = apply_binary_operation(&BinaryOp::Ne, &loc, &a, &b);
            match &e {
                Err(Error::AtLoc{source, line, col}) => {
                    assert!(*line == l && *col == c, "type_mismatch_error_at_operator_location");
                    match &**source {
                        Error::InvalidEqOpTypes{op: BinaryOp::Ne, lhs_type, rhs_type, ..} => {
                            assert!(
                                bytes_are(lhs_type, b"int") && bytes_are(rhs_type, b"bool"),
                                "type_mismatch_is_an_error_naming_both_types_in_order"
                            );
                        },
                        _ => assert!(false, "type_mismatch_error_names_the_operator_and_types"),
                    }
                },
                _ => assert!(false, "type_mismatch_is_never_a_silent_boolean"),
            }
            // the failed comparison leaves both lists unchanged and unlocked
            assert!(list_is(&xs, 2, x0, x1), "comparing_leaves_operands_unchanged_and_unlocked");
            match ys.try_lock() {
                Ok(g) => assert!(g.len() == 2, "comparing_leaves_operands_unchanged_and_unlocked"),
                Err(err) => {
                    std::mem::forget(err);
                    assert!(false, "comparing_leaves_operands_unchanged_and_unlocked");
                },
            }
            kani::cover!(true, "cover_reached_end");
            std::mem::forget((r_ab, r_ba, e));
            std::mem::forget((a, b, xs, ys));
        }
    };
}

eq_list_mismatch_harness!(c10_eq_list_elem_type_mismatch_at_0, 0);
eq_list_mismatch_harness!(c10_eq_list_elem_type_mismatch_at_1, 1);

// ---------------------------------------------------------------------------------------
// `==` on objects. BOUNDED: at most 1 key ("k"), value Int (payload symbolic).
// ---------------------------------------------------------------------------------------
fn int_object(has_key: bool, v: i64) -> value::ObjectRef {
    let mut m: BTreeMap<String, SourcedValue> = BTreeMap::new();
    if has_key {
        let old = m.insert(String::from("k"), SourcedValue{v: Value::Int(v), source: None});
        std::mem::forget(old);
    }
    Arc::new(Mutex::new(m))
}

#[kani::proof]
#[kani::unwind(4)]
#[kani::stub(alloc::fmt::format, fmt_stub)]
fn c10_eq_object_alias_implies_equal() {
    let v: i64 = kani::any();
    let o = int_object(true, v);
    let a = Value::Object(o.clone());
    let a_alias = Value::Object(o.clone());
    let id = ref_eq(&a, &a_alias);
    let r_alias = eq(&a, &a_alias);
    let r_self = eq(&a, &a);
    assert!(id == Some(true), "identity_true_for_the_same_container_or_function");
    assert!(is_ok(&r_alias, true), "identity_implies_equality");
    assert!(is_ok(&r_self, true), "value_equals_itself");
    assert!(o.try_lock().is_ok(), "comparing_leaves_operands_unchanged_and_unlocked");
    kani::cover!(true, "cover_reached_end");
    std::mem::forget((r_alias, r_self));
    std::mem::forget((a, a_alias, o));
}

fn eq_object_structural_contract(xh: bool, yh: bool) {
    let x: i64 = kani::any();
    let y: i64 = kani::any();
    let xo = int_object(xh, x);
    let yo = int_object(yh, y);
    let a = Value::Object(xo.clone());
    let b = Value::Object(yo.clone());
    let r_ab = eq(&a, &b);
    let r_ba = eq(&b, &a);
    let same = xh == yh && (!xh || x == y);
    assert!(ok_val(&r_ab).is_some() && ok_val(&r_ba).is_some(), "int_objects_compare_without_error");
    assert!(ok_val(&r_ab) == ok_val(&r_ba), "equality_is_symmetric");
    assert!(ok_val(&r_ab) == Some(same), "equality_depends_only_on_shape_and_contents");
    assert!(xo.try_lock().is_ok() && yo.try_lock().is_ok(), "comparing_leaves_operands_unchanged_and_unlocked");
    kani::cover!(same == (xh == yh), "cover_equal_iff_same_key_set_cell");
    std::mem::forget((r_ab, r_ba));
    std::mem::forget((a, b, xo, yo));
}

// DROPPED (measured): two objects with one key each -- `eq` then iterates one BTreeMap and looks the
// String key up in the other; even a single one-directional call does not finish in 300 s.
// Only the cells that stop at the identity or the length short-cut are under contract here.
#[kani::proof]
#[kani::unwind(4)]
#[kani::stub(alloc::fmt::format, fmt_stub)]
fn c10_eq_object_one_key_vs_empty() {
    eq_object_structural_contract(true, false);
}

#[kani::proof]
#[kani::unwind(4)]
#[kani::stub(alloc::fmt::format, fmt_stub)]
fn c10_eq_object_empty_vs_empty() {
    eq_object_structural_contract(false, false);
}
