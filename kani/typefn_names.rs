// Kani contract harnesses for the type names of property C16.
// Child module of `builtins::type_functions` (injected with #[cfg(kani)] #[path] mod), so the private
// `render_type` of that file is visible.
//
// Contract (from the property statement): the type names used in diagnostics are the ones
// `v->type()` returns -- bool int string list object func, with null for null -- and `->type()`
// is defined for every value except null.
//   type_name_is_documented_name                      type_functions::render_type(v) is the documented name
//   diagnostic_and_type_function_names_agree          eval::error::render_type(v) (used by every diagnostic) is the same text
//   type_function_is_defined_for_every_non_null_value any_type(Some(v), []) is Ok(string)
//   type_function_returns_documented_name             ... and the string is the documented name
// One harness per value kind (kinds are concrete, scalar payloads symbolic, containers empty).
#![allow(unused_imports, dead_code, clippy::all)]
use super::*;

use crate::eval::scope::ScopeStack;
use crate::eval::value::Func;

pub fn fmt_stub(_args: core::fmt::Arguments<'_>) -> String {
    String::new()
}

// never called: only its address is stored in the builtin function value
fn trivial_builtin(this: Option<SourcedValue>, args: Vec<SourcedValue>) -> Result<SourcedValue> {
    std::mem::forget(this);
    std::mem::forget(args);
    Ok(value::new_null())
}

fn mk_user_func() -> Value {
    Value::Func(Arc::new(Mutex::new(Func{
        name: None,
        args: vec![],
        collect_args: false,
        stmts: vec![],
        closure: ScopeStack::new(vec![]),
    })))
}

// see eval_matrix.rs: writing `name` in place makes the niche-encoded kind of the value a constant
fn mk_builtin() -> Value {
    let text: &str = "b";
    let mut v = Value::BuiltinFunc{name: String::new(), f: trivial_builtin};
    match &mut v {
        Value::BuiltinFunc{name, ..} => { *name = String::from(text); },
        _ => unreachable!(),
    }
    v
}

// loop-free comparisons (names are at most 6 bytes)
fn at(b: &[u8], i: usize) -> u8 {
    if i < b.len() { b[i] } else { 0 }
}

fn bytes_are(b: &[u8], name: &[u8; 6], len: usize) -> bool {
    b.len() == len
        && at(b, 0) == name[0] && at(b, 1) == name[1] && at(b, 2) == name[2]
        && at(b, 3) == name[3] && at(b, 4) == name[4] && at(b, 5) == name[5]
}

fn same_short_text(a: &[u8], b: &[u8]) -> bool {
    a.len() == b.len() && a.len() <= 6
        && at(a, 0) == at(b, 0) && at(a, 1) == at(b, 1) && at(a, 2) == at(b, 2)
        && at(a, 3) == at(b, 3) && at(a, 4) == at(b, 4) && at(a, 5) == at(b, 5)
}

macro_rules! typename_harness {
    ($name:ident, $mk:expr, $text:expr, $len:expr, $call_type_function:expr, $cover:literal) => {
        #[kani::proof]
        #[kani::unwind(2)]
        #[kani::stub(alloc::fmt::format, fmt_stub)]
        fn $name() {
            let v: Value = $mk;
            let a = render_type(&v);
            let b = crate::eval::error::render_type(&v);
            assert!(bytes_are(a.as_bytes(), $text, $len), "type_name_is_documented_name");
            assert!(same_short_text(a.as_bytes(), b.as_bytes()), "diagnostic_and_type_function_names_agree");
            kani::cover!(a.len() == $len, $cover);
            if $call_type_function {
                // a second handle keeps shared payloads alive, so that `any_type` consuming its
                // receiver only decrements a reference count
                let keep = v.clone();
                let r = any_type(Some(SourcedValue{v, source: None}), vec![]);
                match &r {
                    Ok(SourcedValue{v: Value::Str(s), source: None}) => {
                        assert!(bytes_are(s, $text, $len), "type_function_returns_documented_name");
                    },
                    _ => assert!(false, "type_function_is_defined_for_every_non_null_value"),
                }
                kani::cover!(matches!(&r, Ok(_)), "cover_type_function_returned");
                std::mem::forget(r);
                std::mem::forget(keep);
            } else {
                std::mem::forget(v);
            }
        }
    };
}

// `null->type()` is not defined (rejected by the evaluator before any type function is looked up):
// for null only the name used in diagnostics is under contract here.
typename_harness!(c16_typename_null, Value::Null, b"null\0\0", 4, false, "cover_null");
typename_harness!(c16_typename_bool, Value::Bool(kani::any()), b"bool\0\0", 4, true, "cover_bool");
typename_harness!(c16_typename_int, Value::Int(kani::any()), b"int\0\0\0", 3, true, "cover_int");
typename_harness!(c16_typename_string, Value::Str(vec![kani::any::<u8>()]), b"string", 6, true, "cover_string");
typename_harness!(c16_typename_list, Value::List(Arc::new(Mutex::new(vec![]))), b"list\0\0", 4, true, "cover_list");
typename_harness!(c16_typename_object, Value::Object(Arc::new(Mutex::new(BTreeMap::new()))), b"object", 6, true, "cover_object");
// user function: `any_type` consumes (drops) its receiver, and a reachable drop of a value holding an
// Arc<Mutex<Func>> does not terminate in CBMC (measured: > 300 s with and without a second handle),
// so for this kind only the two name functions are under contract; `any_type` on a function value is
// covered by the builtin-function kind below (same documented name, same type-function table entry).
typename_harness!(c16_typename_func, mk_user_func(), b"func\0\0", 4, false, "cover_func");
typename_harness!(c16_typename_builtin, mk_builtin(), b"func\0\0", 4, true, "cover_builtin");
